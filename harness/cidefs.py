"""
C04, third tie: `utils.binomial_ci` regenerated from the source on every run.

    python harness/cidefs.py [--repo DIR] [--json FILE] [--keep] [-v]

Reads the CURRENT `score_analysis/utils.py` under $SA_REPO (default /repo) with Python's `ast` and runs the body of
`binomial_ci(count, nobs, alpha)` symbolically: local variables are inlined, `np.full_like(x, np.nan, dtype=float)` is a NaN
buffer, `np.divide(a, b, out=<NaN buffer>, where=g != 0)` (as an expression or as a statement that fills the buffer) and
`np.where(g != 0, a, np.nan)` are `guard g (a / b)`, `np.sqrt` is an uninterpreted `sqrt`, `scipy.stats.norm.isf(<affine in
alpha>)` is the atom `z` with its argument recorded as `a*alpha + b`, `np.stack([lo, hi], axis=k)` gives the two limits and
the stacking axis.  IR: `SA.CIDefs.CExpr` (lean/SA/Model/CIDefs.lean).  A generated Lean file states

    theorem generated_c04_ci_ok : checkCI ci = <verdict> := by decide +kernel

`ok` = the row IS the model's row (then `SA.CIDefs.ci_bridge`: it computes `SA.binomialCI` on every input and asks `isf` for
alpha/2); `mismatch` = another isf argument (a wrong tail), another stacking axis, or different limits at a witness (count,
nobs, z) with the exact square root on rational squares (e.g. `p(1-p)/n^2`, a wrong monomial denominator); `undecided` /
anything the translator cannot follow = `unknown` (NOT an alarm) - in particular mathematically equal rewrites such as
`sqrt(z*z*p*(1-p)/n)` or `sqrt((p/n)*(1-p))`, for which no rational normaliser is implemented.
TRUSTED BASE (this file): the reading of the NumPy idioms above; values only.
"""
from __future__ import annotations

import ast
import json
import os
import subprocess
import sys
import time
from fractions import Fraction
from pathlib import Path

sys.path.insert(0, str(Path(__file__).resolve().parent))
from cmdefs import Unknown, cached_lean, parse_axioms, OK_AXIOMS, KV, WORK, LEAN, lean_int  # noqa: E402


class E:
    """a per-entry scalar: CExpr as nested tuples"""
    def __init__(self, e):
        self.e = e


class NanBuf:
    def __init__(self):
        self.val = None


class Cond:
    def __init__(self, e, nz):
        self.e, self.nz = e, nz


class Aff:
    """a*alpha + b"""
    def __init__(self, a, b):
        self.a, self.b = Fraction(a), Fraction(b)


class P:
    def __init__(self, v):
        self.v = v


class T:
    def __init__(self, kind, x=None):
        self.kind, self.x = kind, x


class Limits:
    def __init__(self, lo, hi, axis):
        self.lo, self.hi, self.axis = lo, hi, axis


class CITranslator:
    def __init__(self, fn):
        self.fn = fn
        self.isf = None

    def run(self):
        a = self.fn.args
        names = [x.arg for x in a.args]
        if names != ["count", "nobs", "alpha"] or a.vararg or a.kwarg or a.kwonlyargs:
            raise Unknown(f"parameters {names}")
        env = {"count": E(("count",)), "nobs": E(("nobs",)), "alpha": Aff(1, 0)}
        res = self.body(self.fn.body, env)
        if not isinstance(res, Limits):
            raise Unknown("does not return np.stack([lower, upper], axis=..)")
        if self.isf is None:
            raise Unknown("no call of scipy.stats.norm.isf")
        return {"lo": res.lo, "hi": res.hi, "axis": res.axis, "isf": (self.isf.a, self.isf.b)}

    def body(self, stmts, env):
        for st in stmts:
            if isinstance(st, ast.Expr):
                if isinstance(st.value, ast.Constant):
                    continue
                if isinstance(st.value, ast.Call):
                    self.eval(st.value, env, stmt=True)
                    continue
                raise Unknown(f"statement `{ast.unparse(st)[:50]}`")
            if isinstance(st, ast.Assign) and len(st.targets) == 1 and isinstance(st.targets[0], ast.Name):
                env[st.targets[0].id] = self.eval(st.value, env)
                continue
            if isinstance(st, ast.Return) and st.value is not None:
                return self.eval(st.value, env)
            raise Unknown(f"statement `{ast.unparse(st)[:50]}`")
        return None

    def sc(self, v, what="operand"):
        if isinstance(v, E):
            return v.e
        if isinstance(v, NanBuf):
            if v.val is None:
                raise Unknown("use of an unfilled NaN buffer")
            return v.val
        if isinstance(v, P) and isinstance(v.v, (int, float)) and not isinstance(v.v, bool) and float(v.v) == int(v.v):
            return ("const", int(v.v))
        raise Unknown(f"{what} is not a per-entry scalar ({type(v).__name__})")

    def eval(self, e, env, stmt=False):
        if isinstance(e, ast.Constant):
            return P(e.value)
        if isinstance(e, ast.Name):
            if e.id in env:
                return env[e.id]
            if e.id in ("np", "numpy"):
                return T("np")
            if e.id == "scipy":
                return T("scipy")
            if e.id == "float":
                return T("float")
            raise Unknown(f"name {e.id}")
        if isinstance(e, ast.Attribute):
            b = self.eval(e.value, env)
            if isinstance(b, T):
                if b.kind == "np":
                    return E(("nanlit",)) if e.attr in ("nan", "NaN") else T("npf", e.attr)
                if b.kind == "scipy" and e.attr == "stats":
                    return T("stats")
                if b.kind == "stats" and e.attr == "norm":
                    return T("norm")
                if b.kind == "norm":
                    return T("normf", e.attr)
            raise Unknown(f"attribute .{e.attr}")
        if isinstance(e, (ast.List, ast.Tuple)):
            return P([self.eval(x, env) for x in e.elts])
        if isinstance(e, ast.UnaryOp) and isinstance(e.op, ast.USub):
            v = self.eval(e.operand, env)
            if isinstance(v, P):
                return P(-v.v)
            raise Unknown("unary minus")
        if isinstance(e, ast.UnaryOp) and isinstance(e.op, ast.Invert):
            v = self.eval(e.operand, env)
            if isinstance(v, Cond):
                return Cond(v.e, not v.nz)
            raise Unknown("~")
        if isinstance(e, ast.Compare) and len(e.ops) == 1 and isinstance(e.ops[0], (ast.NotEq, ast.Eq)):
            a, b = self.eval(e.left, env), self.eval(e.comparators[0], env)
            if isinstance(b, P) and b.v == 0 and not isinstance(b.v, bool):
                return Cond(self.sc(a), isinstance(e.ops[0], ast.NotEq))
            raise Unknown(f"comparison `{ast.unparse(e)[:40]}`")
        if isinstance(e, ast.BinOp):
            a, b = self.eval(e.left, env), self.eval(e.right, env)
            if isinstance(a, (Aff, P)) and isinstance(b, (Aff, P)) and (isinstance(a, Aff) or isinstance(b, Aff)):
                return self.aff_op(e.op, a, b)
            if isinstance(a, P) and isinstance(b, P) and all(isinstance(x.v, (int, float)) for x in (a, b)):
                ops = {ast.Add: lambda x, y: x + y, ast.Sub: lambda x, y: x - y, ast.Mult: lambda x, y: x * y}
                if type(e.op) in ops:
                    return P(ops[type(e.op)](a.v, b.v))
            k = {ast.Add: "add", ast.Sub: "sub", ast.Mult: "mul", ast.Div: "divRaw"}.get(type(e.op))
            if k is None:
                raise Unknown(f"operator `{ast.unparse(e)[:40]}`")
            return E((k, self.sc(a), self.sc(b)))
        if isinstance(e, ast.Call):
            return self.call(e, env, stmt)
        raise Unknown(f"expression `{type(e).__name__}`")

    @staticmethod
    def aff_op(op, a, b):
        def fr(x):
            if isinstance(x, Aff):
                return x
            if isinstance(x.v, (int, float)) and not isinstance(x.v, bool):
                return Aff(0, Fraction(x.v))
            raise Unknown("alpha combined with a non-number")
        x, y = fr(a), fr(b)
        if isinstance(op, ast.Add):
            return Aff(x.a + y.a, x.b + y.b)
        if isinstance(op, ast.Sub):
            return Aff(x.a - y.a, x.b - y.b)
        if isinstance(op, ast.Mult) and (x.a == 0 or y.a == 0):
            k, z = (x.b, y) if x.a == 0 else (y.b, x)
            return Aff(k * z.a, k * z.b)
        if isinstance(op, ast.Div) and y.a == 0 and y.b != 0:
            return Aff(x.a / y.b, x.b / y.b)
        raise Unknown("the argument of isf is not affine in alpha")

    def call(self, e, env, stmt):
        f = self.eval(e.func, env)
        pos = [self.eval(a, env) for a in e.args]
        kw = {k.arg: self.eval(k.value, env) for k in e.keywords}
        if isinstance(f, T) and f.kind == "normf":
            if f.x != "isf" or len(pos) != 1 or kw:
                raise Unknown(f"scipy.stats.norm.{f.x}(...) (only isf(<affine in alpha>) is read)")
            arg = pos[0]
            if not isinstance(arg, Aff):
                raise Unknown("the argument of isf does not depend on alpha alone")
            if self.isf is not None and (self.isf.a, self.isf.b) != (arg.a, arg.b):
                raise Unknown("two calls of isf with different arguments")
            self.isf = arg
            return E(("z",))
        if isinstance(f, T) and f.kind == "float" and len(pos) == 1 and not kw:
            return pos[0]
        if isinstance(f, T) and f.kind == "npf":
            nm = f.x
            if nm == "full_like":
                fill = pos[1] if len(pos) > 1 else kw.get("fill_value")
                dt = kw.get("dtype")
                if isinstance(fill, E) and fill.e == ("nanlit",) and isinstance(dt, T) and dt.kind == "float":
                    return NanBuf()
                raise Unknown("np.full_like that is not a float NaN buffer")
            if nm in ("divide", "true_divide"):
                if len(pos) != 2 or set(kw) - {"out", "where"}:
                    raise Unknown(f"np.{nm} arguments")
                q = ("divRaw", self.sc(pos[0]), self.sc(pos[1]))
                out, wh = kw.get("out"), kw.get("where")
                if wh is None and out is None:
                    return E(q)
                if not (isinstance(out, NanBuf) and out.val is None and isinstance(wh, Cond) and wh.nz):
                    raise Unknown("np.divide with out= / where= that is not (<fresh NaN buffer>, g != 0)")
                out.val = ("guard", wh.e, q)
                return out
            if stmt:
                raise Unknown(f"statement np.{nm}(...)")
            if nm == "where" and len(pos) == 3 and not kw and isinstance(pos[0], Cond) and pos[0].nz \
                    and isinstance(pos[2], E) and pos[2].e == ("nanlit",):
                return E(("guard", pos[0].e, self.sc(pos[1])))
            if nm == "sqrt" and len(pos) == 1 and not kw:
                return E(("sqrt", self.sc(pos[0])))
            if nm in ("asarray", "asanyarray") and len(pos) == 1 and (not kw or (set(kw) == {"dtype"} and isinstance(kw["dtype"], T)
                                                                   and kw["dtype"].kind == "float")):
                return pos[0]
            if nm == "stack" and len(pos) == 1 and isinstance(pos[0], P) and isinstance(pos[0].v, list) and len(pos[0].v) == 2:
                ax = kw.get("axis", P(0))
                if not (isinstance(ax, P) and isinstance(ax.v, int)) or set(kw) - {"axis"}:
                    raise Unknown("np.stack arguments")
                return Limits(self.sc(pos[0].v[0]), self.sc(pos[0].v[1]), ax.v)
            raise Unknown(f"np.{nm}(...)")
        raise Unknown(f"call `{ast.unparse(e.func)[:40]}(...)`")


def has_nanlit(e):
    return e == ("nanlit",) or any(isinstance(x, tuple) and has_nanlit(x) for x in e[1:])


def lean_cexpr(e):
    k = e[0]
    if k in ("count", "nobs", "z"):
        return f".{k}"
    if k == "const":
        return f"(.const {e[1]})" if e[1] >= 0 else f"(.const ({e[1]}))"
    if k == "sqrt":
        return f"(.sqrt {lean_cexpr(e[1])})"
    return f"(.{k} {lean_cexpr(e[1])} {lean_cexpr(e[2])})"


def show_cexpr(e):
    k = e[0]
    if k in ("count", "nobs", "z"):
        return k
    if k == "const":
        return str(e[1])
    if k == "sqrt":
        return f"sqrt({show_cexpr(e[1])})"
    if k == "guard":
        return f"[{show_cexpr(e[2])} where {show_cexpr(e[1])} != 0 else nan]"
    op = {"add": "+", "sub": "-", "mul": "*", "divRaw": "/"}[k]
    return f"({show_cexpr(e[1])} {op} {show_cexpr(e[2])})"


def lean_rat(q):
    q = Fraction(q)
    s = f"({q.numerator} : Rat)" if q.denominator == 1 else f"(({q.numerator} : Rat) / {q.denominator})"
    return s


GEN_X = "GeneratedC04CI_X"
DEPS = [LEAN / "SA" / "Model" / "CIDefs.lean", LEAN / "SA" / "Model" / "CmDefs.lean", LEAN / "SA" / "Model" / "MetricExpr.lean",
        LEAN / "SA" / "Model" / "Metrics.lean"]


def lean_text(repo, module, ci, verdict=None):
    lines = [f"-- GENERATED by harness/cidefs.py from {repo}/score_analysis/utils.py; do not edit", "import SA.Model.CIDefs",
             "set_option maxRecDepth 100000", "open SA.CIDefs", f"namespace SA.{module}", "",
             f"/-- lower = {show_cexpr(ci['lo'])}; upper = {show_cexpr(ci['hi'])}; z = isf({ci['isf'][0]}*alpha + {ci['isf'][1]}) -/",
             f"def ci : CIDef := ⟨{lean_cexpr(ci['lo'])}, {lean_cexpr(ci['hi'])}, {lean_rat(ci['isf'][0])}, {lean_rat(ci['isf'][1])}, "
             f"{lean_int(ci['axis'])}⟩",
             '#eval IO.println ("\\n".intercalate (ciReportLines ci))']
    if verdict is not None:
        v = ".ok" if verdict == "ok" else f"(.mismatch {verdict.split(':')[1]})" if verdict.startswith("mismatch") else ".undecided"
        lines += ["/-- ok: by `SA.CIDefs.ci_bridge` the function computes `SA.binomialCI` on every input and asks isf for alpha/2 -/",
                  f"theorem generated_c04_ci_ok : checkCI ci = {v} := by decide +kernel", "#print axioms generated_c04_ci_ok"]
    lines.append(f"end SA.{module}")
    return "\n".join(lines) + "\n"


def analyse(repo: Path = None, keep=False):
    repo = Path(repo or os.environ.get("SA_REPO", "/repo")).resolve()
    WORK.mkdir(exist_ok=True)
    module = f"GeneratedC04CI_{os.getpid()}"
    t0 = time.time()
    tree = ast.parse((repo / "score_analysis" / "utils.py").read_text())
    fns = [st for st in tree.body if isinstance(st, ast.FunctionDef) and st.name == "binomial_ci"]
    item = {"status": "unknown"}
    res = {"repo": str(repo), "items": {"binomial_ci": item}, "theorems": {}, "bad_axioms": [], "lean_errors": []}
    ci = None
    if not fns:
        item["why"] = "no binomial_ci in utils.py"
    else:
        item["where"] = f"score_analysis/utils.py:{fns[-1].lineno}"
        try:
            if fns[-1].decorator_list:
                raise Unknown("decorated function")
            ci = CITranslator(fns[-1]).run()
            if has_nanlit(ci["lo"]) or has_nanlit(ci["hi"]):
                raise Unknown("np.nan used as a value")
            item["translated"] = {"lower": show_cexpr(ci["lo"]), "upper": show_cexpr(ci["hi"]),
                                  "isf_argument": f"{ci['isf'][0]}*alpha + {ci['isf'][1]}", "stack_axis": ci["axis"]}
        except Unknown as ex:
            item["why"] = str(ex)
            ci = None
        except RecursionError:
            item["why"] = "translator recursion limit"
            ci = None
    t_tr = time.time() - t0
    if ci is None:
        res["status"] = "unknown"
        res["wall_s"] = {"translate": round(t_tr, 2), "lean": 0.0}
        return res
    rc1, out1, t1, c1 = cached_lean(lean_text(repo, module, ci), module, GEN_X, "_report", DEPS, "cidefs_cache", keep)
    ln = [x for x in out1.splitlines() if x.startswith("CI ")]
    if rc1 != 0 or len(ln) != 1:
        return {"status": "harness-problem", "repo": str(repo), "items": res["items"],
                "problem": "the checker's report could not be read: " + "; ".join(x for x in out1.splitlines() if "error" in x)[:400]}
    d = dict(KV.findall(ln[0][3:]))
    v = d["verdict"]
    if v == "ok":
        item["status"] = "ok"
    elif v.startswith("mismatch"):
        item["status"] = "mismatch"
        if "isf" in d:
            item["mismatch"] = [f"norm.isf is asked for {item['translated']['isf_argument']}, the model's binomialCI (and the documented "
                                f"two-sided interval) for alpha/2"]
        elif "axis" in d:
            item["mismatch"] = [f"the limits are stacked along axis {d['axis']}, the model's along the last axis"]
        else:
            item["witness"] = {k: d.get(k) for k in ("count", "nobs", "z", "got", "want")}
            item["mismatch"] = [f"the source computes lower = {item['translated']['lower']}, upper = {item['translated']['upper']}; with "
                                f"count={d.get('count')}, nobs={d.get('nobs')}, z={d.get('z')} (exact square root) the limits are "
                                f"{d.get('got')}, the model's binomialCI gives {d.get('want')}"]
    else:
        item["status"] = "unknown"
        item["why"] = ("the row differs from the model's as data and no witness separates them (a mathematically equal rewrite, or a "
                       "form whose radicand is not a rational square at the witnesses); no rational normaliser is implemented")
    text = lean_text(repo, module, ci, verdict=v)
    rc2, out2, t2, c2 = cached_lean(text, module, GEN_X, "", DEPS, "cidefs_cache", keep)
    ax = parse_axioms(out2).get("generated_c04_ci_ok")
    res["theorems"]["generated_c04_ci_ok"] = ax
    errors = [x for x in out2.splitlines() if "error:" in x][:6]
    res.update({"lean_rc": rc2, "lean_errors": errors, "stated": v, "wall_s": {"translate": round(t_tr, 2), "lean": round(t1 + t2, 2)},
                "lean_result_cached": bool(c1 and c2), "generated_lean": text if keep else None})
    if rc2 != 0 or ax is None or set(ax) - OK_AXIOMS:
        res["status"] = "harness-problem"
        res["problem"] = "the generated theorem was not accepted: " + ("; ".join(errors)[:300] or out2[-300:])
    else:
        res["status"] = item["status"]
    return res


def start(repo: Path):
    WORK.mkdir(exist_ok=True)
    out = WORK / f"cidefs_result_{os.getpid()}.json"
    p = subprocess.Popen([sys.executable, str(Path(__file__).resolve()), "--repo", str(repo), "--json", str(out), "--quiet"],
                         stdout=subprocess.PIPE, stderr=subprocess.STDOUT, text=True)
    return p, out


def finish(handle, timeout=900):
    p, out = handle
    try:
        log, _ = p.communicate(timeout=timeout)
    except subprocess.TimeoutExpired:
        p.kill()
        return {"status": "harness-problem", "problem": "translation of utils.binomial_ci timed out"}
    try:
        res = json.loads(out.read_text())
        out.unlink()
        return res
    except Exception as ex:  # noqa: BLE001
        return {"status": "harness-problem", "problem": f"translation of utils.binomial_ci produced no result ({type(ex).__name__}): {log[-400:]}"}


THEOREM = "generated_c04_ci_ok (regenerated from the source by harness/cidefs.py on this run)"


def merge_into(gate, res):
    """add the binomial_ci result to the gate dictionary of metricdefs.gate_result (one evidence slot per property)"""
    st = res.get("status")
    ev = gate.setdefault("evidence", {})
    if st == "harness-problem":
        gate["notes"].append(f"GENERATED-DEFINITIONS-PROBLEM utils.binomial_ci could not be regenerated / checked on this tree "
                             f"({(res.get('problem') or '')[:300]}); the sampled runs remain the only tie for it")
        ev["binomial_ci"] = {"status": "not evaluated (harness problem)", "detail": (res.get("problem") or "")[:600]}
        return gate
    it = res["items"]["binomial_ci"]
    if it["status"] in ("ok", "mismatch"):
        gate["obligations"] += 1
    if it["status"] == "ok":
        gate["discharged"] += 1
        gate["theorems"][THEOREM] = (res.get("theorems") or {}).get("generated_c04_ci_ok")
    for m in it.get("mismatch", []):
        gate["problems"].append(f"regenerated from the source: definite mismatch with the model in utils.binomial_ci [{it.get('where')}]: {m}")
    ev["binomial_ci"] = {"status": it["status"],
                         "what": "Python ast -> the two limits of utils.binomial_ci as expressions over count, nobs, z = isf(a*alpha+b) with "
                                 "an uninterpreted sqrt (SA.CIDefs.CExpr); ok = the row IS the model's (SA.CIDefs.ci_bridge: computes "
                                 "SA.binomialCI on every input); mismatch = another isf argument / axis / limits at a witness",
                         "item": it, "generated_theorem_axioms": res.get("theorems"), "lean_result_cached": res.get("lean_result_cached"),
                         "wall_s": res.get("wall_s")}
    return gate


def main(argv=None):
    import argparse
    ap = argparse.ArgumentParser()
    ap.add_argument("--repo", default=None)
    ap.add_argument("--json", default=None)
    ap.add_argument("--keep", action="store_true")
    ap.add_argument("-v", action="store_true")
    ap.add_argument("--quiet", action="store_true")
    a = ap.parse_args(argv)
    try:
        res = analyse(a.repo, keep=a.keep)
    except Exception as ex:  # noqa: BLE001
        import traceback
        res = {"status": "harness-problem", "problem": f"{type(ex).__name__}: {ex}", "traceback": traceback.format_exc()[-1500:]}
    if a.json:
        Path(a.json).write_text(json.dumps(res, indent=1, default=str))
    if a.quiet:
        return 0 if res["status"] == "ok" else 1
    print(f"cidefs: status={res['status']} {res.get('wall_s')} cached={res.get('lean_result_cached')}")
    for n, it in res.get("items", {}).items():
        print(f"{it['status']:9s} utils.{n} [{it.get('where')}]")
        if it.get("why"):
            print("          why:", it["why"])
        for m in it.get("mismatch", []):
            print("          MISMATCH", m)
        if a.v and "translated" in it:
            print("          translated:", json.dumps(it["translated"]))
    for e in res.get("lean_errors", [])[:5]:
        print("lean:", e)
    if res.get("problem"):
        print("problem:", res["problem"])
        print(res.get("traceback", ""))
    return 0 if res["status"] == "ok" else 1


if __name__ == "__main__":
    sys.exit(main())
