"""
C05, second tie: `ConfusionMatrix.one_vs_all` and the construction loop `ConfusionMatrix._assign_from_predictions`
regenerated from the source on every run.

    python harness/cmdefs.py [--repo DIR] [--json FILE] [--keep] [-v]

Reads the CURRENT `score_analysis/cm.py` under $SA_REPO (default /repo) with Python's `ast`.

(k) `one_vs_all`: a symbolic run of the method body.  `self.matrix` is an N x N matrix over an arbitrary leading shape;
    the values the body may form are expressions over FOUR generators of class j

        diag = self.matrix[..., j, j]     rowSum = np.sum(self.matrix[..., j, :], axis=-1)
        colSum = np.sum(self.matrix[..., :, j], axis=-1)     total = np.sum(self.matrix, axis=(-1, -2))

    with + / - and integer constants (IR `SA.CmDefs.OExpr`, lean/SA/Model/CmDefs.lean).  Both styles are followed: the
    loop `for j in range(self.nb_classes)` with writes `matrix[..., j, a, b] = e` into an `np.zeros((*dims, N, 2, 2))`
    buffer (or into a per-class `np.zeros((*dims, 2, 2))` buffer appended to a list that is `np.stack`ed along axis -3),
    and the vectorised style (`np.diagonal(self.matrix, axis1=-2, axis2=-1)`, `np.sum(self.matrix, axis=-1 | -2)`,
    writes `matrix[..., a, b] = v` with `v` of shape (..., N), `total[..., np.newaxis]`).  Reads of the buffer return what
    was stored (an unwritten cell of a zeros buffer is 0); a cell written twice, a view read before its cell is written,
    a broadcast of a (...) value against a (..., N) value, any other statement: `unknown`.
    Result: the four cells, the axis of the class index (-3), `binary=True` of the returned ConfusionMatrix.
(m) `_assign_from_predictions`: the body is run once per assignment of the three flags (classes is None, binary,
    weights is None); labels / predictions / weights / classes are symbolic arrays.  Recognised: the class list
    (given -> `np.asarray(classes)`; binary default `np.array([1, 0])`; inferred `np.unique(np.concatenate([np.unique(
    labels), np.unique(predictions)]))`, or `np.unique` of one of them), the index map `{c: i for i, c in enumerate(
    classes)}`, the weights (`np.asarray(weights)` after the length check / `np.ones_like(labels, dtype=int)`), the
    buffer `np.zeros((len(classes), len(classes)), ...)`, and the loop `for a, b, c in zip(labels, predictions,
    weights): matrix[idx[a]][idx[b]] += c` (also `matrix[idx[a], idx[b]]`, temporaries, `=`).  The row of data
    (`SA.CmDefs.ConsDef`) says which zip member indexes the ROW, which the COLUMN, `+=` or `=`, the initial value, the
    default weight, whether the length check is made.  Everything else (np.add.at, reduceat, Kahan, weights[k]): `unknown`.
    A value-level IR cannot see WHICH sample a weight belongs to beyond the zip position (seeded C05_13, `weights[k]`
    looked up by label, is out of reach: it comes out `unknown`, never `ok`).

A generated Lean file `.work/GeneratedC05Defs_<pid>.lean` defines both rows as data, prints the checker's report and states

    theorem generated_c05_ova_ok  : checkOva ova = ⟨axisOk, binaryOk, [verdicts]⟩ := by decide +kernel
    theorem generated_c05_cons_ok : checkCons cons = <verdict>                    := by decide +kernel

(verdicts read off the checker's own report, re-computed by the kernel).  `SA.CmDefs.checkOva_ok_sound` / `ova_bridge` /
`cons_bridge` / `cons_bridge_entries` (lean/SA/Theorems/C05Defs.lean, proved once for all rows) then give: an accepted
one-vs-all row IS `SA.oneVsAll` on every rational matrix of every size, an accepted construction row IS
`SA.fromPredictions`, so the C05 theorems apply to the translated code.

Outcome per item: ok | mismatch (definite: differs from the model on a named witness input: broken proof obligation) |
unknown (outside the fragment: NOT an alarm, evidence only).
TRUSTED BASE (this file): the reading of the NumPy idioms above.  Values only: dtypes, leading-axis bookkeeping beyond
the `...` prefix, warnings and result types remain with the sampled runs.
"""
from __future__ import annotations

import ast
import hashlib
import json
import os
import re
import subprocess
import sys
import time
from pathlib import Path

VERIF = Path(__file__).resolve().parent.parent
LEAN = VERIF / "lean"
WORK = VERIF / ".work"


class Unknown(Exception):
    """outside the fragment: `unknown` (never an alarm)"""


# --------------------------------------------------------------------------------------
# shared: Lean runs with a cache on the generated text
# --------------------------------------------------------------------------------------
def cached_lean(text: str, module: str, gen_x: str, tag: str, deps, cache_name: str, keep=False, timeout=600):
    h = hashlib.sha256()
    h.update(text.replace(module, gen_x).encode())
    for dep in list(deps) + [LEAN / "lean-toolchain", LEAN / "lake-manifest.json"]:
        if dep.exists():
            h.update(dep.read_bytes())
    cdir = WORK / cache_name
    cdir.mkdir(parents=True, exist_ok=True)
    cf = cdir / (h.hexdigest()[:32] + ".json")
    if cf.exists() and os.environ.get("VERIF_METRICDEFS_NOCACHE") != "1":
        try:
            c = json.loads(cf.read_text())
            return c["rc"], c["text"].replace(gen_x, module), 0.0, True
        except Exception:  # noqa: BLE001
            pass
    f = WORK / f"{module}{tag}.lean"
    f.write_text(text)
    t0 = time.time()
    try:
        p = subprocess.run(["lake", "env", "lean", str(f)], cwd=LEAN, capture_output=True, text=True, timeout=timeout)
        rc, out = p.returncode, p.stdout + p.stderr
    finally:
        if not keep:
            try:
                f.unlink()
            except OSError:
                pass
    t = time.time() - t0
    out = out.replace(str(f), "<generated>")
    try:
        tmp = cf.with_suffix(f".{os.getpid()}.tmp")
        tmp.write_text(json.dumps({"rc": rc, "text": out.replace(module, gen_x)}))
        tmp.replace(cf)
        old = sorted(cdir.glob("*.json"), key=lambda p_: p_.stat().st_mtime)
        for p_ in old[:-60]:
            p_.unlink()
    except OSError:
        pass
    return rc, out, t, False


def parse_axioms(text):
    axioms = {}
    for m in re.finditer(r"'([^']+)' depends on axioms: \[([^\]]*)\]", text, flags=re.S):
        axioms[m.group(1).split(".")[-1]] = [a.strip() for a in m.group(2).replace("\n", " ").split(",") if a.strip()]
    for m in re.finditer(r"'([^']+)' does not depend on any axioms", text):
        axioms[m.group(1).split(".")[-1]] = []
    return axioms


OK_AXIOMS = {"propext", "Classical.choice", "Quot.sound"}
KV = re.compile(r"(\w+)=(\[[^\]]*\]|\S*)")


# --------------------------------------------------------------------------------------
# (k) one_vs_all
# --------------------------------------------------------------------------------------
class S:
    """a scalar field: OExpr `e`, shape tag: lead = (...), cls = (..., N), lead1 = (..., 1)"""
    def __init__(self, e, shape):
        self.e, self.shape = e, shape


class Py:
    def __init__(self, v):
        self.v = v


class Tag:
    """SelfM, Self, NCls, Dims, J, Np, Classes, ShapeOf, RowJ, ColJ, RangeN, CMClass ..."""
    def __init__(self, kind, x=None):
        self.kind, self.x = kind, x


class Opq:
    def __init__(self, why):
        self.why = why


class Buf:
    def __init__(self, kind, init):
        self.kind = kind                                  # "N22" | "22"
        self.cells = [[init, init], [init, init]]         # OExpr | None (np.empty)
        self.written, self.viewread = set(), set()
        self.axis = -3

    def snapshot(self):
        b = Buf(self.kind, None)
        b.cells = [list(r) for r in self.cells]
        b.axis = self.axis
        return b


class Block:
    def __init__(self, cells):
        self.cells = cells


class ListAcc:
    def __init__(self):
        self.item = None
        self.static = 0


class Result:
    def __init__(self, buf, binary):
        self.buf, self.binary = buf, binary


def o_add(a, b):
    return ("add", a, b)


def o_sub(a, b):
    return ("sub", a, b)


def sum4(cells):
    for r in cells:
        for c in r:
            if c is None:
                raise Unknown("sum over an uninitialised (np.empty) buffer")
    return o_add(o_add(o_add(cells[0][0], cells[0][1]), cells[1][0]), cells[1][1])


class OvaTranslator:
    def __init__(self, fn: ast.FunctionDef, where):
        self.fn, self.where = fn, where
        self.in_loop = False

    # ---- helpers
    def scalar(self, v, what="operand"):
        if isinstance(v, S):
            return v
        if isinstance(v, Py) and isinstance(v.v, (int, float)) and not isinstance(v.v, bool) and float(v.v) == int(v.v):
            return S(("const", int(v.v)), "const")
        if isinstance(v, Opq):
            raise Unknown(v.why)
        raise Unknown(f"{what} is not a scalar field ({type(v).__name__}{':' + v.kind if isinstance(v, Tag) else ''})")

    @staticmethod
    def broadcast(a, b):
        if a == "const":
            return b
        if b == "const":
            return a
        if a == b:
            return a if a != "lead1" else "lead1"
        if {a, b} == {"lead1", "cls"}:
            return "cls"
        if {a, b} == {"lead1", "lead"}:
            raise Unknown("broadcast of a (..., 1) against a (...) value")
        raise Unknown("broadcast of a (...) value against a (..., N) value (depends on the leading shape)")

    def run(self):
        a = self.fn.args
        if len(a.args) != 1 or a.vararg or a.kwarg or a.kwonlyargs:
            raise Unknown("one_vs_all takes parameters besides self")
        env = {a.args[0].arg: Tag("Self")}
        res = self.body(self.fn.body, env)
        if not isinstance(res, Result):
            raise Unknown("no `return ConfusionMatrix(matrix=..., binary=...)`")
        buf = res.buf
        if buf.kind != "N22":
            raise Unknown("the returned matrix is not a (..., N, 2, 2) buffer")
        for r in buf.cells:
            for c in r:
                if c is None:
                    raise Unknown("a cell of an np.empty buffer is never written")
        return {"axis": buf.axis, "binary": bool(res.binary), "cells": [buf.cells[0][0], buf.cells[0][1], buf.cells[1][0],
                                                                      buf.cells[1][1]]}

    # ---- statements
    def body(self, stmts, env):
        for st in stmts:
            if isinstance(st, ast.Expr):
                v = st.value
                if isinstance(v, ast.Constant):
                    continue
                if (isinstance(v, ast.Call) and isinstance(v.func, ast.Attribute) and v.func.attr == "append"
                        and len(v.args) == 1 and not v.keywords):
                    tgt = self.eval(v.func.value, env)
                    if isinstance(tgt, ListAcc):
                        item = self.eval(v.args[0], env)
                        if not (isinstance(item, Buf) and item.kind == "22"):
                            raise Unknown("append of something that is not a (..., 2, 2) buffer")
                        if not self.in_loop or tgt.item is not None:
                            raise Unknown("list of per-class blocks not filled by exactly one append per class")
                        tgt.item = item.snapshot()
                        continue
                raise Unknown(f"statement `{ast.unparse(st)[:60]}`")
            if isinstance(st, ast.Pass):
                continue
            if isinstance(st, (ast.Assign, ast.AnnAssign, ast.AugAssign)):
                if isinstance(st, ast.Assign):
                    if len(st.targets) != 1:
                        raise Unknown("chained assignment")
                    tgt = st.targets[0]
                else:
                    tgt = st.target
                if st.value is None:
                    continue
                if isinstance(tgt, ast.Name):
                    if isinstance(st, ast.AugAssign):
                        raise Unknown(f"augmented assignment to {tgt.id}")
                    try:
                        env[tgt.id] = self.eval(st.value, env)
                    except Unknown as ex:
                        env[tgt.id] = Opq(f"{tgt.id} = {ast.unparse(st.value)[:50]}: {ex}")
                    continue
                if isinstance(tgt, ast.Subscript):
                    self.store(tgt, st.value, env, aug=st.op if isinstance(st, ast.AugAssign) else None)
                    continue
                raise Unknown(f"assignment `{ast.unparse(st)[:60]}`")
            if isinstance(st, ast.For):
                if self.in_loop or st.orelse or not isinstance(st.target, ast.Name):
                    raise Unknown("nested loop / loop with else / tuple target")
                it = self.eval(st.iter, env)
                if not (isinstance(it, Tag) and it.kind == "RangeN"):
                    raise Unknown(f"loop over `{ast.unparse(st.iter)[:40]}` (not range(number of classes))")
                assigned = {n.id for s_ in st.body for n in ast.walk(s_) if isinstance(n, ast.Name) and isinstance(n.ctx, ast.Store)}
                for n in assigned:
                    env.pop(n, None)            # a value carried from one class to the next is not followed
                env[st.target.id] = Tag("J")
                self.in_loop = True
                r = self.body(st.body, env)
                self.in_loop = False
                if r is not None:
                    raise Unknown("return inside the loop")
                for n in assigned | {st.target.id}:
                    env.pop(n, None)            # after the loop these hold the LAST class's values
                continue
            if isinstance(st, ast.Return):
                if self.in_loop or st.value is None:
                    raise Unknown("return")
                return self.eval(st.value, env)
            raise Unknown(f"statement `{type(st).__name__}`")
        return None

    def index(self, sl, env):
        elts = sl.elts if isinstance(sl, ast.Tuple) else [sl]
        if not elts or not (isinstance(elts[0], ast.Constant) and elts[0].value is Ellipsis):
            raise Unknown("index that does not start with `...`")
        out = []
        for x in elts[1:]:
            if isinstance(x, ast.Slice):
                if x.lower is None and x.upper is None and x.step is None:
                    out.append(":")
                else:
                    out.append(("slice", ast.unparse(x)))
                continue
            v = self.eval(x, env)
            if isinstance(v, Tag) and v.kind == "J":
                out.append("j")
            elif isinstance(v, Py) and v.v is None:
                out.append("newaxis")
            elif isinstance(v, Py) and isinstance(v.v, int) and not isinstance(v.v, bool) and -2 <= v.v <= 1:
                out.append(v.v % 2)
            else:
                raise Unknown(f"index `{ast.unparse(x)[:20]}`")
        return out

    def store(self, tgt, value, env, aug=None):
        base = self.eval(tgt.value, env)
        if not isinstance(base, Buf):
            raise Unknown(f"store into `{ast.unparse(tgt.value)[:30]}`")
        idx = self.index(tgt.slice, env)
        v = self.scalar(self.eval(value, env), "stored value")
        if base.kind == "N22":
            if self.in_loop:
                if len(idx) != 3 or idx[0] != "j" or idx[1] not in (0, 1) or idx[2] not in (0, 1):
                    raise Unknown(f"store `{ast.unparse(tgt)[:40]}` inside the loop (not [..., j, a, b])")
                if v.shape not in ("lead", "const"):
                    raise Unknown("stored value has a class axis inside the loop")
                a, b = idx[1], idx[2]
            else:
                if len(idx) != 2 or idx[0] not in (0, 1) or idx[1] not in (0, 1):
                    raise Unknown(f"store `{ast.unparse(tgt)[:40]}` outside the loop (not [..., a, b])")
                if v.shape not in ("cls", "const"):
                    raise Unknown("a (...) value stored into a (..., N) slot (depends on the leading shape)")
                a, b = idx
        else:
            if len(idx) != 2 or idx[0] not in (0, 1) or idx[1] not in (0, 1):
                raise Unknown(f"store `{ast.unparse(tgt)[:40]}`")
            if v.shape not in ("lead", "const") or not self.in_loop:
                raise Unknown("per-class block written outside the loop / with a class axis")
            a, b = idx
        if (a, b) in base.viewread:
            raise Unknown("a cell is written after a view of it was taken")
        if aug is not None:
            old = base.cells[a][b]
            if old is None or not isinstance(aug, (ast.Add, ast.Sub)):
                raise Unknown("augmented store")
            base.cells[a][b] = (o_add if isinstance(aug, ast.Add) else o_sub)(old, v.e)
            base.written.add((a, b))
            return
        if (a, b) in base.written:
            raise Unknown("a cell is written twice")
        base.cells[a][b] = v.e
        base.written.add((a, b))

    # ---- expressions
    def eval(self, e, env):
        if isinstance(e, ast.Constant):
            return Py(e.value)
        if isinstance(e, ast.Name):
            if e.id in env:
                return env[e.id]
            if e.id in ("np", "numpy"):
                return Tag("Np")
            if e.id in ("range", "len", "type", "int", "float"):
                return Tag("Builtin", e.id)
            if e.id == "ConfusionMatrix":
                return Tag("CMClass")
            raise Unknown(f"name {e.id}")
        if isinstance(e, ast.Starred):
            v = self.eval(e.value, env)
            if isinstance(v, Tag) and v.kind == "Dims":
                return Tag("StarDims")
            raise Unknown("starred expression")
        if isinstance(e, ast.Tuple):
            return Py(tuple(self.eval(x, env) for x in e.elts))
        if isinstance(e, ast.List):
            if not e.elts:
                return ListAcc()
            raise Unknown("list display")
        if isinstance(e, ast.UnaryOp) and isinstance(e.op, ast.USub):
            v = self.eval(e.operand, env)
            if isinstance(v, Py) and isinstance(v.v, (int, float)):
                return Py(-v.v)
            s = self.scalar(v)
            return S(o_sub(("const", 0), s.e), s.shape)
        if isinstance(e, ast.BinOp):
            a, b = self.eval(e.left, env), self.eval(e.right, env)
            if isinstance(e.op, ast.Add) and isinstance(a, Tag) and a.kind == "Dims" and isinstance(b, Py) and isinstance(b.v, tuple):
                return Py((Tag("StarDims"),) + b.v)
            if not isinstance(e.op, (ast.Add, ast.Sub)):
                raise Unknown(f"operator `{ast.unparse(e)[:40]}`")
            if isinstance(a, Py) and isinstance(b, Py) and all(isinstance(x.v, int) for x in (a, b)):
                return Py(a.v + b.v if isinstance(e.op, ast.Add) else a.v - b.v)
            sa, sb = self.scalar(a), self.scalar(b)
            return S((o_add if isinstance(e.op, ast.Add) else o_sub)(sa.e, sb.e), self.broadcast(sa.shape, sb.shape))
        if isinstance(e, ast.Attribute):
            base = self.eval(e.value, env)
            if isinstance(base, Tag):
                if base.kind == "Self":
                    if e.attr == "matrix":
                        return Tag("SelfM")
                    if e.attr == "nb_classes":
                        return Tag("NCls")
                    if e.attr == "classes":
                        return Tag("Classes")
                    if e.attr == "__class__":
                        return Tag("CMClass")
                    raise Unknown(f"self.{e.attr}")
                if base.kind == "SelfM" and e.attr == "shape":
                    return Tag("ShapeOf")
                if base.kind == "Np":
                    if e.attr == "newaxis":
                        return Py(None)
                    return Tag("NpFunc", e.attr)
            raise Unknown(f"attribute .{e.attr}")
        if isinstance(e, ast.Subscript):
            return self.subscript(e, env)
        if isinstance(e, ast.Call):
            return self.call(e, env)
        raise Unknown(f"expression `{type(e).__name__}`")

    def subscript(self, e, env):
        base = self.eval(e.value, env)
        if isinstance(base, Tag) and base.kind == "ShapeOf":
            sl = e.slice
            if isinstance(sl, ast.Slice) and sl.lower is None and sl.step is None:
                u = self.eval(sl.upper, env) if sl.upper is not None else None
                if isinstance(u, Py) and u.v == -2:
                    return Tag("Dims")
            else:
                v = self.eval(sl, env)
                if isinstance(v, Py) and v.v in (-1, -2):
                    return Tag("NCls")
            raise Unknown("use of self.matrix.shape")
        idx = self.index(e.slice, env)
        if isinstance(base, Tag) and base.kind == "SelfM":
            if idx == ["j", "j"]:
                return S(("diag",), "lead")
            if idx == ["j", ":"]:
                return Tag("RowJ")
            if idx == [":", "j"]:
                return Tag("ColJ")
            if idx in ([":", ":"], []):
                return base
            raise Unknown(f"self.matrix[{ast.unparse(e.slice)[:30]}]")
        if isinstance(base, Buf):
            def cell(a, b, view):
                c = base.cells[a][b]
                if c is None:
                    raise Unknown("read of an uninitialised (np.empty) cell")
                if view and (a, b) not in base.written:
                    base.viewread.add((a, b))
                return c
            if base.kind == "N22":
                if self.in_loop and len(idx) == 3 and idx[0] == "j":
                    if idx[1] in (0, 1) and idx[2] in (0, 1):
                        return S(cell(idx[1], idx[2], True), "lead")
                    if idx[1:] == [":", ":"]:
                        return Block([[cell(a, b, False) for b in (0, 1)] for a in (0, 1)])
                if not self.in_loop and len(idx) == 2 and idx[0] in (0, 1) and idx[1] in (0, 1):
                    return S(cell(idx[0], idx[1], True), "cls")
            elif len(idx) == 2 and idx[0] in (0, 1) and idx[1] in (0, 1):
                return S(cell(idx[0], idx[1], True), "lead")
            elif idx in ([":", ":"], []):
                return base
            raise Unknown(f"read `{ast.unparse(e)[:40]}` of the result buffer")
        if isinstance(base, S):
            if idx == ["newaxis"] and base.shape == "lead" and not self.in_loop:
                return S(base.e, "lead1")
            if idx == []:
                return base
            raise Unknown(f"index `{ast.unparse(e)[:40]}`")
        raise Unknown(f"subscript `{ast.unparse(e)[:40]}`")

    @staticmethod
    def axis_of(v):
        if isinstance(v, Py) and isinstance(v.v, int):
            return v.v
        if isinstance(v, Py) and isinstance(v.v, tuple) and all(isinstance(x, Py) and isinstance(x.v, int) for x in v.v):
            return tuple(sorted(x.v for x in v.v))
        return None

    def np_sum(self, x, args, kw):
        if set(kw) - {"axis", "keepdims", "dtype"} or len(args) > 1:
            raise Unknown("np.sum arguments")
        if "dtype" in kw:
            raise Unknown("np.sum with a dtype")
        ax = self.axis_of(args[0] if args else kw.get("axis"))
        keep = kw.get("keepdims")
        keep = bool(keep.v) if isinstance(keep, Py) else False
        if ax is None:
            raise Unknown("np.sum without a constant axis")
        if isinstance(x, Tag):
            if x.kind == "RowJ" and ax in (-1, (-1,)) and not keep:
                return S(("rowSum",), "lead")
            if x.kind == "ColJ" and ax in (-1, (-1,)) and not keep:
                return S(("colSum",), "lead")
            if x.kind == "SelfM":
                if ax == (-2, -1):
                    if keep:
                        raise Unknown("keepdims over both axes")
                    return S(("total",), "lead")
                if not self.in_loop and not keep and ax in (-1, (-1,)):
                    return S(("rowSum",), "cls")
                if not self.in_loop and not keep and ax in (-2, (-2,)):
                    return S(("colSum",), "cls")
            raise Unknown(f"np.sum(.., axis={ax})")
        if isinstance(x, Block) and ax == (-2, -1) and not keep:
            return S(sum4(x.cells), "lead")
        if isinstance(x, Buf) and ax == (-2, -1) and not keep:
            if x.kind == "22":
                return S(sum4(x.cells), "lead")
            if not self.in_loop:
                return S(sum4(x.cells), "cls")
        raise Unknown("np.sum of this value")

    def shape_tuple(self, v):
        if not (isinstance(v, Py) and isinstance(v.v, tuple)):
            return None
        out = []
        for x in v.v:
            if isinstance(x, Tag) and x.kind in ("StarDims", "NCls"):
                out.append(x.kind)
            elif isinstance(x, Py) and isinstance(x.v, int):
                out.append(x.v)
            else:
                return None
        return out

    def call(self, e, env):
        pos = [self.eval(a, env) for a in e.args]
        kw = {}
        for k in e.keywords:
            if k.arg is None:
                raise Unknown("**kwargs")
            try:
                kw[k.arg] = self.eval(k.value, env)
            except Unknown as ex:
                kw[k.arg] = Opq(str(ex))
        if isinstance(e.func, ast.Attribute) and e.func.attr == "sum":
            try:
                base = self.eval(e.func.value, env)
            except Unknown:
                base = None
            if isinstance(base, (Block, Buf)) or (isinstance(base, Tag) and base.kind in ("SelfM", "RowJ", "ColJ")):
                return self.np_sum(base, pos, kw)
        f = self.eval(e.func, env)
        if isinstance(f, Tag) and f.kind == "Builtin":
            if f.x == "range" and len(pos) == 1 and isinstance(pos[0], Tag) and pos[0].kind == "NCls":
                return Tag("RangeN")
            if f.x == "len" and len(pos) == 1 and isinstance(pos[0], Tag) and pos[0].kind == "Classes":
                return Tag("NCls")
            if f.x == "type" and len(pos) == 1 and isinstance(pos[0], Tag) and pos[0].kind == "Self":
                return Tag("CMClass")
            raise Unknown(f"{f.x}(...)")
        if isinstance(f, Tag) and f.kind == "CMClass":
            if pos or set(kw) - {"matrix", "binary"} or "matrix" not in kw:
                raise Unknown("ConfusionMatrix(...) arguments")
            m = kw["matrix"]
            if not isinstance(m, Buf):
                raise Unknown("ConfusionMatrix(matrix=<not the buffer>)")
            b = kw.get("binary", Py(False))
            if not (isinstance(b, Py) and isinstance(b.v, bool)):
                raise Unknown("binary= is not a constant")
            return Result(m, b.v)
        if isinstance(f, Tag) and f.kind == "NpFunc":
            nm = f.x
            if nm == "sum":
                if not pos:
                    raise Unknown("np.sum()")
                return self.np_sum(pos[0], pos[1:], kw)
            if nm in ("zeros", "empty"):
                if set(kw) - {"dtype", "shape"}:
                    raise Unknown(f"np.{nm} arguments")
                shp = self.shape_tuple(pos[0] if pos else kw.get("shape"))
                init = ("const", 0) if nm == "zeros" else None
                if shp == ["StarDims", "NCls", 2, 2]:
                    return Buf("N22", init)
                if shp == ["StarDims", 2, 2]:
                    return Buf("22", init)
                raise Unknown(f"np.{nm} with another shape")
            if nm == "diagonal":
                a1, a2 = self.axis_of(kw.get("axis1")), self.axis_of(kw.get("axis2"))
                off = kw.get("offset", Py(0))
                ok = (len(pos) == 1 and isinstance(pos[0], Tag) and pos[0].kind == "SelfM" and a1 is not None and a2 is not None
                      and sorted([a1, a2]) == [-2, -1] and isinstance(off, Py) and off.v == 0 and not set(kw) - {"axis1", "axis2", "offset"})
                if ok and not self.in_loop:
                    return S(("diag",), "cls")
                raise Unknown("np.diagonal arguments")
            if nm == "stack":
                ax = self.axis_of(pos[1] if len(pos) > 1 else kw.get("axis"))
                if len(pos) >= 1 and isinstance(pos[0], ListAcc) and pos[0].item is not None and not self.in_loop and ax is not None:
                    if not isinstance(ax, int) or ax >= 0:
                        raise Unknown("np.stack along a non-negative axis (position depends on the leading shape)")
                    b = Buf("N22", None)
                    b.cells = [list(r) for r in pos[0].item.cells]
                    b.written = {(0, 0), (0, 1), (1, 0), (1, 1)}
                    b.axis = ax
                    return b
                raise Unknown("np.stack arguments")
            if nm in ("asarray", "asanyarray", "ascontiguousarray") and len(pos) == 1 and not set(kw) - {"dtype"}:
                if "dtype" in kw:
                    raise Unknown(f"np.{nm} with a dtype")
                return pos[0]
            raise Unknown(f"np.{nm}(...)")
        raise Unknown(f"call `{ast.unparse(e.func)[:40]}(...)`")


# --------------------------------------------------------------------------------------
# (m) _assign_from_predictions
# --------------------------------------------------------------------------------------
class V:
    """symbolic values of the construction: kind + payload"""
    def __init__(self, kind, x=None, y=None):
        self.kind, self.x, self.y = kind, x, y

    def __repr__(self):
        return f"V({self.kind},{self.x},{self.y})"


class Raised(Exception):
    def __init__(self, name):
        self.name = name


class ConsTranslator:
    """one run per flag assignment; `self.facts` collects what the run shows"""
    def __init__(self, fn: ast.FunctionDef):
        self.fn = fn

    def run(self, classes_none, binary, weights_none):
        a = self.fn.args
        names = [x.arg for x in a.args]
        if a.vararg or a.kwarg or a.kwonlyargs:
            raise Unknown("signature")
        if names and names[0] in ("self", "cls"):
            names = names[1:]
        if names != ["labels", "predictions", "weights", "classes", "binary"]:
            raise Unknown(f"parameters {names}")
        env = {"labels": V("arr", "label"), "predictions": V("arr", "pred"),
               "weights": Py(None) if weights_none else V("arr", "weight"),
               "classes": Py(None) if classes_none else V("classes", "given"), "binary": Py(binary)}
        self.facts = {"length_check": False, "loop": None}
        self.loop_depth = 0
        res = self.body(self.fn.body, env)
        if not (isinstance(res, Py) and isinstance(res.v, tuple) and len(res.v) == 2):
            raise Unknown("does not return (matrix, classes)")
        m, c = res.v
        if not (isinstance(m, V) and m.kind == "matrix"):
            raise Unknown("the first returned value is not the accumulated matrix")
        if not (isinstance(c, V) and c.kind == "classes"):
            raise Unknown("the second returned value is not the class list")
        if m.x is not c:
            raise Unknown("the matrix is not sized by the returned class list")
        if self.facts["loop"] is None:
            raise Unknown("no accumulation loop found")
        return {"classes": c.x, "init": m.y, **self.facts}

    def body(self, stmts, env):
        for i, st in enumerate(stmts):
            if isinstance(st, ast.Expr) and isinstance(st.value, ast.Constant):
                continue
            if isinstance(st, ast.Pass):
                continue
            if isinstance(st, ast.Assign):
                if len(st.targets) != 1:
                    raise Unknown("chained assignment")
                t = st.targets[0]
                if isinstance(t, ast.Name):
                    env[t.id] = self.eval(st.value, env)
                    continue
                if isinstance(t, ast.Tuple) and all(isinstance(x, ast.Name) for x in t.elts):
                    v = self.eval(st.value, env)
                    if isinstance(v, Py) and isinstance(v.v, tuple) and len(v.v) == len(t.elts):
                        for x, y in zip(t.elts, v.v):
                            env[x.id] = y
                        continue
                    raise Unknown("tuple assignment")
                if isinstance(t, ast.Subscript):
                    self.store(t, st.value, env, None)
                    continue
                raise Unknown(f"assignment `{ast.unparse(st)[:50]}`")
            if isinstance(st, ast.AugAssign):
                if isinstance(st.target, ast.Subscript):
                    self.store(st.target, st.value, env, st.op)
                    continue
                raise Unknown(f"augmented assignment `{ast.unparse(st)[:50]}`")
            if isinstance(st, ast.If):
                t = self.eval(st.test, env)
                if isinstance(t, Py) and isinstance(t.v, bool):
                    r = self.body(st.body if t.v else st.orelse, env)
                    if r is not None:
                        return r
                    continue
                if isinstance(t, V) and t.kind == "lencheck":
                    # `if len(weights) != len(labels): raise ValueError(...)`: the raising branch is the length check
                    if len(st.body) == 1 and isinstance(st.body[0], ast.Raise) and self.raises(st.body[0]) == "ValueError":
                        self.facts["length_check"] = True
                        r = self.body(st.orelse, env)
                        if r is not None:
                            return r
                        continue
                raise Unknown(f"data-dependent `if {ast.unparse(st.test)[:40]}`")
            if isinstance(st, ast.Raise):
                raise Unknown("unconditional raise on this path")
            if isinstance(st, ast.For):
                self.loop(st, env)
                continue
            if isinstance(st, ast.Return):
                if st.value is None or self.loop_depth:
                    raise Unknown("return")
                return self.eval(st.value, env)
            raise Unknown(f"statement `{ast.unparse(st)[:50]}`")
        return None

    @staticmethod
    def raises(st):
        e = st.exc
        if isinstance(e, ast.Call):
            e = e.func
        return e.id if isinstance(e, ast.Name) else None

    def loop(self, st, env):
        if self.loop_depth or st.orelse or self.facts["loop"] is not None:
            raise Unknown("nested / second loop")
        it = self.eval(st.iter, env)
        if not (isinstance(it, V) and it.kind == "zip"):
            raise Unknown(f"loop over `{ast.unparse(st.iter)[:40]}`")
        tg = st.target
        if not (isinstance(tg, ast.Tuple) and all(isinstance(x, ast.Name) for x in tg.elts) and len(tg.elts) == len(it.x)):
            raise Unknown("loop target")
        members = set()
        for x, arr in zip(tg.elts, it.x):
            env[x.id] = V("elem", arr.x, arr.y)
            members.add(arr.x)
        if not {"label", "pred"} <= members:
            raise Unknown("the loop does not run over labels and predictions")
        self.facts["loop"] = {"stores": [], "zip": [a_.x for a_ in it.x]}
        self.loop_depth = 1
        r = self.body(st.body, env)
        self.loop_depth = 0
        if r is not None:
            raise Unknown("return inside the loop")
        if len(self.facts["loop"]["stores"]) != 1:
            raise Unknown("the loop body does not consist of exactly one update of the matrix")

    def store(self, t, value, env, op):
        # matrix[i][j] or matrix[i, j]
        if isinstance(t.value, ast.Subscript):
            base = self.eval(t.value.value, env)
            i, j = self.eval(t.value.slice, env), self.eval(t.slice, env)
        else:
            base = self.eval(t.value, env)
            ij = self.eval(t.slice, env)
            if not (isinstance(ij, Py) and isinstance(ij.v, tuple) and len(ij.v) == 2):
                raise Unknown(f"store `{ast.unparse(t)[:40]}`")
            i, j = ij.v
        if not (isinstance(base, V) and base.kind == "matrix") or not self.loop_depth:
            raise Unknown(f"store `{ast.unparse(t)[:40]}`")
        if not all(isinstance(x, V) and x.kind == "pos" and x.y is base.x for x in (i, j)):
            raise Unknown("matrix index that is not idx_map[<loop member>] of the matrix's own class list")
        w = self.eval(value, env)
        if not (isinstance(w, V) and w.kind == "elem" and w.x == "weight"):
            raise Unknown("the stored value is not the sample's weight")
        if op is not None and not isinstance(op, ast.Add):
            raise Unknown("update operator")
        self.facts["loop"]["stores"].append({"row": i.x, "col": j.x, "upd": "addAssign" if op is not None else "assign",
                                             "weight_default": w.y})

    def eval(self, e, env):
        if isinstance(e, ast.Constant):
            return Py(e.value)
        if isinstance(e, ast.Name):
            if e.id in env:
                return env[e.id]
            if e.id in ("np", "numpy"):
                return Tag("Np")
            if e.id in ("len", "zip", "enumerate", "int", "float", "list", "sorted", "set"):
                return Tag("Builtin", e.id)
            raise Unknown(f"name {e.id}")
        if isinstance(e, ast.Tuple):
            return Py(tuple(self.eval(x, env) for x in e.elts))
        if isinstance(e, ast.List):
            return Py([self.eval(x, env) for x in e.elts])
        if isinstance(e, ast.UnaryOp) and isinstance(e.op, ast.Not):
            v = self.eval(e.operand, env)
            if isinstance(v, Py) and isinstance(v.v, bool):
                return Py(not v.v)
            raise Unknown("not")
        if isinstance(e, ast.Compare) and len(e.ops) == 1:
            a, b = self.eval(e.left, env), self.eval(e.comparators[0], env)
            op = e.ops[0]
            if isinstance(op, (ast.Is, ast.IsNot)) and isinstance(b, Py) and b.v is None:
                r = isinstance(a, Py) and a.v is None
                return Py(r if isinstance(op, ast.Is) else not r)
            if isinstance(op, ast.NotEq) and all(isinstance(x, V) and x.kind == "len" for x in (a, b)):
                if {a.x, b.x} == {"weight", "label"}:
                    return V("lencheck")
            raise Unknown(f"comparison `{ast.unparse(e)[:40]}`")
        if isinstance(e, ast.Attribute):
            base = self.eval(e.value, env)
            if isinstance(base, Tag) and base.kind == "Np":
                return Tag("NpFunc", e.attr)
            if isinstance(base, V) and e.attr == "dtype":
                return V("dtype")
            raise Unknown(f"attribute .{e.attr}")
        if isinstance(e, ast.Subscript):
            base = self.eval(e.value, env)
            if isinstance(base, V) and base.kind == "map":
                k = self.eval(e.slice, env)
                if isinstance(k, V) and k.kind == "elem" and k.x in ("label", "pred"):
                    return V("pos", k.x, base.x)
                raise Unknown("idx_map looked up with something that is not a loop member")
            if isinstance(base, V) and base.kind == "arr" and isinstance(e.slice, ast.Slice):
                return V("slice")
            raise Unknown(f"subscript `{ast.unparse(e)[:40]}`")
        if isinstance(e, ast.DictComp):
            # {c: i for i, c in enumerate(classes)}
            if len(e.generators) == 1 and not e.generators[0].ifs:
                g = e.generators[0]
                it = self.eval(g.iter, env)
                tg = g.target
                if (isinstance(it, V) and it.kind == "enumerate" and isinstance(tg, ast.Tuple) and len(tg.elts) == 2
                        and all(isinstance(x, ast.Name) for x in tg.elts) and isinstance(e.key, ast.Name)
                        and isinstance(e.value, ast.Name) and e.key.id == tg.elts[1].id and e.value.id == tg.elts[0].id):
                    return V("map", it.x)
            raise Unknown("index map that is not {c: i for i, c in enumerate(classes)}")
        if isinstance(e, ast.Call):
            return self.call(e, env)
        raise Unknown(f"expression `{type(e).__name__}`")

    def call(self, e, env):
        f = self.eval(e.func, env)
        pos = [self.eval(a, env) for a in e.args]
        kw = {}
        for k in e.keywords:
            try:
                kw[k.arg] = self.eval(k.value, env)
            except Unknown:
                kw[k.arg] = V("opaque")
        if isinstance(f, Tag) and f.kind == "Builtin":
            if f.x == "len" and len(pos) == 1 and isinstance(pos[0], V):
                if pos[0].kind == "arr":
                    return V("len", pos[0].x)
                if pos[0].kind == "classes":
                    return V("nclasses", pos[0])
            if f.x == "zip" and all(isinstance(p, V) and p.kind == "arr" for p in pos) and len(pos) >= 2:
                return V("zip", pos)
            if f.x == "enumerate" and len(pos) == 1 and isinstance(pos[0], V) and pos[0].kind == "classes":
                return V("enumerate", pos[0])
            raise Unknown(f"{f.x}(...)")
        if isinstance(f, Tag) and f.kind == "NpFunc":
            nm = f.x
            if nm in ("asarray", "asanyarray", "array") and len(pos) == 1:
                p = pos[0]
                if isinstance(p, V) and p.kind in ("arr", "classes") and not set(kw) - {"dtype"}:
                    if "dtype" in kw:
                        raise Unknown(f"np.{nm} with a dtype")
                    return p
                if isinstance(p, Py) and isinstance(p.v, list) and all(isinstance(x, Py) and isinstance(x.v, int) for x in p.v) and not kw:
                    return V("classes", ("const", [x.v for x in p.v]))
                raise Unknown(f"np.{nm}(...)")
            if nm == "unique" and len(pos) == 1 and not kw:
                p = pos[0]
                if isinstance(p, V) and p.kind == "arr" and p.x in ("label", "pred"):
                    return V("uniq", frozenset([p.x]))
                if isinstance(p, V) and p.kind == "uniq":
                    return V("classes", ("unique", p.x))
                raise Unknown("np.unique(...)")
            if nm == "concatenate" and len(pos) == 1 and not set(kw) - {"axis"}:
                p = pos[0]
                items = p.v if isinstance(p, Py) and isinstance(p.v, (list, tuple)) else None
                if items and all(isinstance(x, V) and x.kind in ("uniq", "arr") and (x.kind == "uniq" or x.x in ("label", "pred")) for x in items):
                    s = frozenset()
                    for x in items:
                        s |= x.x if x.kind == "uniq" else frozenset([x.x])
                    return V("uniq", s)
                raise Unknown("np.concatenate(...)")
            if nm == "union1d" and len(pos) == 2 and not kw and all(isinstance(x, V) and x.kind in ("uniq", "arr") for x in pos):
                s = frozenset()
                for x in pos:
                    s |= x.x if x.kind == "uniq" else frozenset([x.x])
                return V("classes", ("unique", s))
            if nm == "ones_like" and len(pos) == 1 and isinstance(pos[0], V) and pos[0].kind == "arr" and pos[0].x == "label":
                return V("arr", "weight", 1)
            if nm == "ones" and len(pos) == 1 and isinstance(pos[0], V) and pos[0].kind == "len" and pos[0].x == "label":
                return V("arr", "weight", 1)
            if nm == "full" and len(pos) == 2 and isinstance(pos[0], V) and pos[0].kind == "len" and pos[0].x == "label" \
                    and isinstance(pos[1], Py) and isinstance(pos[1].v, int):
                return V("arr", "weight", pos[1].v)
            if nm == "zeros" and len(pos) == 1 and isinstance(pos[0], Py) and isinstance(pos[0].v, tuple) and len(pos[0].v) == 2:
                a, b = pos[0].v
                if all(isinstance(x, V) and x.kind == "nclasses" for x in (a, b)) and a.x is b.x:
                    return V("matrix", a.x, 0)
                raise Unknown("np.zeros with another shape")
            if nm == "sum":
                return V("opaque")
            raise Unknown(f"np.{nm}(...)")
        raise Unknown(f"call `{ast.unparse(e.func)[:40]}(...)`")


def translate_cons(fn):
    """-> ConsDef row (dict) ; raises Unknown"""
    tr = ConsTranslator(fn)
    runs = {}
    for cn in (True, False):
        for b in (True, False):
            for wn in (True, False):
                runs[(cn, b, wn)] = tr.run(cn, b, wn)
    def one(values, what):
        vs = {json.dumps(v, sort_keys=True, default=str) for v in values}
        if len(vs) != 1:
            raise Unknown(f"{what} depends on the flags: {sorted(vs)}")
        return values[0]
    stores = [r["loop"]["stores"][0] for r in runs.values()]
    row = one([s["row"] for s in stores], "row index")
    col = one([s["col"] for s in stores], "column index")
    upd = one([s["upd"] for s in stores], "update")
    init = one([r["init"] for r in runs.values()], "initial value")
    inferred = one([list(map(str, sorted(runs[(True, False, wn)]["classes"][1]))) if runs[(True, False, wn)]["classes"][0] == "unique"
                    else runs[(True, False, wn)]["classes"] for wn in (True, False)], "inferred classes")
    src = {("label", "pred"): "uniqueBoth", ("label",): "uniqueLabels", ("pred",): "uniquePreds"}.get(tuple(inferred)) \
        if isinstance(inferred, list) else None
    if src is None:
        raise Unknown(f"inferred class list {inferred!r}")
    bd = one([runs[(True, True, wn)]["classes"] for wn in (True, False)], "binary default")
    if not (isinstance(bd, tuple) and bd[0] == "const"):
        raise Unknown(f"binary default {bd!r}")
    given = one([runs[(False, b, wn)]["classes"] for b in (True, False) for wn in (True, False)], "given classes")
    dw = one([runs[(cn, b, True)]["loop"]["stores"][0]["weight_default"] for cn in (True, False) for b in (True, False)], "default weight")
    if dw is None:
        raise Unknown("weights=None does not give constant default weights")
    gw = one([runs[(cn, b, False)]["loop"]["stores"][0]["weight_default"] for cn in (True, False) for b in (True, False)], "given weights")
    if gw is not None:
        raise Unknown("given weights are replaced")
    lc = one([runs[(cn, b, False)]["length_check"] for cn in (True, False) for b in (True, False)], "length check")
    zp = one([r["loop"]["zip"] for r in runs.values()], "zip order")
    return {"inferred": src, "binaryDefault": list(bd[1]), "givenAsIs": given == "given", "enumerateMap": True, "rowBy": row,
            "colBy": col, "upd": upd, "init": int(init), "defaultWeight": int(dw), "lengthCheck": bool(lc), "zip": zp}


# --------------------------------------------------------------------------------------
# Lean text
# --------------------------------------------------------------------------------------
def lean_oexpr(e):
    k = e[0]
    if k in ("diag", "rowSum", "colSum", "total"):
        return f".{k}"
    if k == "const":
        return f"(.const {e[1]})" if e[1] >= 0 else f"(.const ({e[1]}))"
    return f"(.{k} {lean_oexpr(e[1])} {lean_oexpr(e[2])})"


def show_oexpr(e):
    k = e[0]
    if k == "diag":
        return "M[j,j]"
    if k in ("rowSum", "colSum", "total"):
        return {"rowSum": "rowsum_j", "colSum": "colsum_j", "total": "total"}[k]
    if k == "const":
        return str(e[1])
    return f"({show_oexpr(e[1])} {'+' if k == 'add' else '-'} {show_oexpr(e[2])})"


GENS = ["M[j,j]", "rowsum_j", "colsum_j", "total", "1"]


def show_olin(txt):
    try:
        cs = [int(x) for x in txt.split(",")]
    except ValueError:
        return txt
    parts = []
    for c, v in zip(cs, GENS):
        if c == 0:
            continue
        t = v if abs(c) == 1 and v != "1" else (str(abs(c)) if v == "1" else f"{abs(c)}*{v}")
        parts.append((" - " if c < 0 else " + ") + t)
    s = "".join(parts)
    s = s[3:] if s.startswith(" + ") else ("-" + s[3:] if s.startswith(" - ") else s)
    return s or "0"


def lean_int(i):
    return str(i) if i >= 0 else f"({i})"


def lean_cons(c):
    f = {"label": ".label", "pred": ".pred"}
    return (f"⟨.{c['inferred']}, [{', '.join(str(x) for x in c['binaryDefault'])}], {str(c['givenAsIs']).lower()}, "
            f"{str(c['enumerateMap']).lower()}, {f[c['rowBy']]}, {f[c['colBy']]}, .{c['upd']}, {lean_int(c['init'])}, "
            f"{lean_int(c['defaultWeight'])}, {str(c['lengthCheck']).lower()}⟩")


def lean_verdict(v):
    return ".ok" if v == "ok" else f"(.mismatch {v.split(':')[1]})" if v.startswith("mismatch") else ".undecided"


GEN_X = "GeneratedC05Defs_X"
DEPS = [LEAN / "SA" / "Model" / "CmDefs.lean", LEAN / "SA" / "Model" / "Multiclass.lean"]


def lean_text(repo, module, ova, cons, theorem=None):
    lines = [f"-- GENERATED by harness/cmdefs.py from {repo}/score_analysis/cm.py; do not edit",
             "import SA.Model.CmDefs", "set_option maxRecDepth 100000", "open SA.CmDefs", f"namespace SA.{module}", ""]
    rep = []
    if ova is not None:
        lines.append("/-- one_vs_all: " + "; ".join(f"[{a},{b}] = {show_oexpr(e)}" for (a, b), e in
                                                    zip(((0, 0), (0, 1), (1, 0), (1, 1)), ova["cells"])) + " -/")
        lines.append(f"def ova : OvaDef := ⟨{lean_int(ova['axis'])}, {str(ova['binary']).lower()}, "
                     + ", ".join(lean_oexpr(e) for e in ova["cells"]) + "⟩")
        rep.append("ovaReportLines ova")
    if cons is not None:
        lines.append(f"def cons : ConsDef := {lean_cons(cons)}")
        rep.append("consReportLines cons")
    if rep:
        lines.append('#eval IO.println ("\\n".intercalate (' + " ++ ".join(rep) + "))")
    if theorem is not None:
        if ova is not None and theorem.get("ova"):
            t = theorem["ova"]
            lines.append("/-- (class axis = -3, binary result, verdicts of the cells [0,0] [0,1] [1,0] [1,1]); all ok: by")
            lines.append("`SA.CmDefs.checkOva_ok_sound` / `ova_bridge` the block IS `SA.oneVsAll` on every rational matrix of every size -/")
            lines.append(f"theorem generated_c05_ova_ok : checkOva ova = ⟨{t['axisok']}, {t['binaryok']}, ["
                         + ", ".join(lean_verdict(v) for v in t["cells"]) + "]⟩ := by decide +kernel")
            lines.append("#print axioms generated_c05_ova_ok")
        if cons is not None and theorem.get("cons"):
            lines.append("/-- ok: by `SA.CmDefs.cons_bridge` / `cons_bridge_entries` the construction IS `SA.fromPredictions` -/")
            lines.append(f"theorem generated_c05_cons_ok : checkCons cons = {lean_verdict(theorem['cons'])} := by decide +kernel")
            lines.append("#print axioms generated_c05_cons_ok")
    lines.append(f"end SA.{module}")
    return "\n".join(lines) + "\n"


def find_method(tree, cls, name):
    for st in tree.body:
        if isinstance(st, ast.ClassDef) and st.name == cls:
            out = None
            for m in st.body:
                if isinstance(m, ast.FunctionDef) and m.name == name:
                    out = m
            return out
    return None


def analyse(repo: Path = None, keep=False):
    repo = Path(repo or os.environ.get("SA_REPO", "/repo")).resolve()
    WORK.mkdir(exist_ok=True)
    module = f"GeneratedC05Defs_{os.getpid()}"
    t0 = time.time()
    path = repo / "score_analysis" / "cm.py"
    tree = ast.parse(path.read_text())
    items = {}
    ova = cons = None
    fn = find_method(tree, "ConfusionMatrix", "one_vs_all")
    if fn is None:
        items["one_vs_all"] = {"status": "unknown", "why": "no ConfusionMatrix.one_vs_all in cm.py"}
    else:
        where = f"score_analysis/cm.py:{fn.lineno}"
        try:
            ova = OvaTranslator(fn, where).run()
            items["one_vs_all"] = {"status": "?", "where": where, "translated": {
                f"[..., j, {a}, {b}]": show_oexpr(e) for (a, b), e in zip(((0, 0), (0, 1), (1, 0), (1, 1)), ova["cells"])},
                "class_axis": ova["axis"], "binary": ova["binary"]}
        except Unknown as ex:
            items["one_vs_all"] = {"status": "unknown", "where": where, "why": str(ex)}
        except RecursionError:
            items["one_vs_all"] = {"status": "unknown", "where": where, "why": "translator recursion limit"}
    fn2 = find_method(tree, "ConfusionMatrix", "_assign_from_predictions")
    if fn2 is None:
        items["_assign_from_predictions"] = {"status": "unknown", "why": "no ConfusionMatrix._assign_from_predictions in cm.py"}
    else:
        where = f"score_analysis/cm.py:{fn2.lineno}"
        try:
            cons = translate_cons(fn2)
            items["_assign_from_predictions"] = {"status": "?", "where": where, "translated": cons}
        except Unknown as ex:
            items["_assign_from_predictions"] = {"status": "unknown", "where": where, "why": str(ex)}
        except RecursionError:
            items["_assign_from_predictions"] = {"status": "unknown", "where": where, "why": "translator recursion limit"}
    t_translate = time.time() - t0
    res = {"repo": str(repo), "items": items, "theorems": {}, "bad_axioms": [], "lean_errors": []}
    if ova is None and cons is None:
        res["status"] = "unknown"
        res["wall_s"] = {"translate": round(t_translate, 2), "lean": 0.0}
        return res
    rc1, out1, t1, c1 = cached_lean(lean_text(repo, module, ova, cons), module, GEN_X, "_report", DEPS, "cmdefs_cache", keep)
    stated = {}
    ova_line = [ln for ln in out1.splitlines() if ln.startswith("OVA ")]
    cell_lines = [ln for ln in out1.splitlines() if ln.startswith("OVACELL ")]
    cons_line = [ln for ln in out1.splitlines() if ln.startswith("CONS ")]
    if rc1 != 0 or (ova is not None and (len(ova_line) != 1 or len(cell_lines) != 4)) or (cons is not None and len(cons_line) != 1):
        return {"status": "harness-problem", "repo": str(repo), "items": items,
                "problem": "the checker's report could not be read: " + "; ".join(ln for ln in out1.splitlines() if "error" in ln)[:400]}
    if ova is not None:
        d = dict(KV.findall(ova_line[0][4:]))
        cells = [dict(KV.findall(ln[8:])) for ln in cell_lines]
        stated["ova"] = {"axisok": "true" if d["axisok"] == "1" else "false", "binaryok": "true" if d["binaryok"] == "1" else "false",
                         "cells": [c["verdict"] for c in cells]}
        it = items["one_vs_all"]
        it["cells"] = {}
        bad = []
        for c in cells:
            pos = f"[..., j, {c['pos'][0]}, {c['pos'][1]}]"
            ent = {"verdict": c["verdict"], "normal_form": show_olin(c["nf"]), "model": show_olin(c["model"])}
            if c["verdict"].startswith("mismatch"):
                ent["witness"] = {"n": int(c["n"]), "matrix_row_major": c["matrix"], "j": int(c["j"]), "translated": c["got"], "model": c["want"]}
                bad.append(f"cell {pos}: the source computes {it['translated'][pos]} = {ent['normal_form']}, the model's one_vs_all has "
                           f"{ent['model']}; on the {c['n']}x{c['n']} matrix [{c['matrix']}] (row by row), class j={c['j']}, they are "
                           f"{c['got']} and {c['want']}")
            it["cells"][pos] = ent
        if d["axisok"] != "1":
            bad.append(f"the class index sits at axis {ova['axis']} of the result, the model (and every caller) expects [..., j, a, b] (axis -3)")
        if d["binaryok"] != "1":
            bad.append("the result is not built with binary=True")
        undecided = [c for c in cells if c["verdict"] == "undecided"]
        it["status"] = "mismatch" if bad else "unknown" if undecided else "ok"
        if bad:
            it["mismatch"] = bad
        if undecided and not bad:
            it["why"] = "normal forms differ but no witness separates them"
    if cons is not None:
        d = dict(KV.findall(cons_line[0][5:]))
        stated["cons"] = d["verdict"]
        it = items["_assign_from_predictions"]
        if d["verdict"] == "ok":
            it["status"] = "ok"
        elif d["verdict"].startswith("mismatch"):
            it["status"] = "mismatch"
            if "got" in d:
                it["witness"] = {k: d.get(k) for k in ("classes", "labels", "predictions", "weights", "got", "want")}
                it["mismatch"] = [f"the construction loop as translated ({describe_cons(cons)}) and the model's accumulate differ: with "
                                  f"classes={d.get('classes')} labels={d.get('labels')} predictions={d.get('predictions')} "
                                  f"weights={d.get('weights')} the source's loop gives {d.get('got')}, the model {d.get('want')}"]
            else:
                it["mismatch"] = [f"the construction as translated ({describe_cons(cons)}) differs from the model's in the binary default "
                                  f"class list / the use of the given class list"]
        else:
            it["status"] = "unknown"
            it["why"] = "rows differ as data but no witness input separates them"
    rc2, out2, t2, c2 = cached_lean(lean_text(repo, module, ova, cons, theorem=stated), module, GEN_X, "", DEPS, "cmdefs_cache", keep)
    axioms = parse_axioms(out2)
    errors = [ln for ln in out2.splitlines() if "error:" in ln][:6]
    proved = rc2 == 0
    for nm, present in (("generated_c05_ova_ok", ova is not None), ("generated_c05_cons_ok", cons is not None)):
        if present:
            ax = axioms.get(nm)
            res["theorems"][nm] = ax
            if ax is None or set(ax) - OK_AXIOMS:
                proved = False
                res["bad_axioms"] += sorted(set(ax or []) - OK_AXIOMS)
    res.update({"lean_rc": rc2, "lean_errors": errors, "stated": stated,
                "wall_s": {"translate": round(t_translate, 2), "lean": round(t1 + t2, 2)}, "lean_result_cached": bool(c1 and c2),
                "generated_lean": lean_text(repo, module, ova, cons, theorem=stated) if keep else None})
    if not proved:
        res["status"] = "harness-problem"
        res["problem"] = "the generated theorems were not accepted: " + ("; ".join(errors)[:300] or out2[-300:])
    elif any(i["status"] == "mismatch" for i in items.values()):
        res["status"] = "mismatch"
    elif all(i["status"] == "ok" for i in items.values()):
        res["status"] = "ok"
    else:
        res["status"] = "partial"
    return res


def describe_cons(c):
    return (f"row by {c['rowBy']}, column by {c['colBy']}, update {'+=' if c['upd'] == 'addAssign' else '='}, zeros({c['init']}), "
            f"default weight {c['defaultWeight']}, inferred classes {c['inferred']}, binary default {c['binaryDefault']}, "
            f"length check {c['lengthCheck']}")


# --------------------------------------------------------------------------------------
# integration in ./check C05
# --------------------------------------------------------------------------------------
def start(repo: Path):
    WORK.mkdir(exist_ok=True)
    out = WORK / f"cmdefs_result_{os.getpid()}.json"
    p = subprocess.Popen([sys.executable, str(Path(__file__).resolve()), "--repo", str(repo), "--json", str(out), "--quiet"],
                         stdout=subprocess.PIPE, stderr=subprocess.STDOUT, text=True)
    return p, out


def finish(handle, timeout=900):
    p, out = handle
    try:
        log, _ = p.communicate(timeout=timeout)
    except subprocess.TimeoutExpired:
        p.kill()
        return {"status": "harness-problem", "problem": "translation of cm.py timed out"}
    try:
        res = json.loads(out.read_text())
        out.unlink()
        return res
    except Exception as ex:  # noqa: BLE001
        return {"status": "harness-problem", "problem": f"translation of cm.py produced no result ({type(ex).__name__}): {log[-400:]}"}


THEOREMS = {"one_vs_all": "generated_c05_ova_ok (regenerated from the source by harness/cmdefs.py on this run)",
            "_assign_from_predictions": "generated_c05_cons_ok (regenerated from the source by harness/cmdefs.py on this run)"}
AXIOM_KEY = {"one_vs_all": "generated_c05_ova_ok", "_assign_from_predictions": "generated_c05_cons_ok"}


def gate_result(res):
    out = {"problems": [], "theorems": {}, "obligations": 0, "discharged": 0, "notes": [], "evidence_key": "generated_definitions"}
    st = res.get("status")
    if st == "harness-problem":
        why = res.get("problem") or "report mismatch"
        out["notes"].append(f"GENERATED-DEFINITIONS-PROBLEM one_vs_all / the construction loop could not be regenerated / checked on this "
                            f"tree ({why[:300]}); the sampled runs remain the only tie")
        out["evidence"] = {"status": "not evaluated (harness problem)", "detail": why[:600]}
        return out
    items = res.get("items", {})
    for name, it in items.items():
        if it["status"] in ("ok", "mismatch"):
            out["obligations"] += 1
        if it["status"] == "ok":
            out["discharged"] += 1
            out["theorems"][THEOREMS[name]] = (res.get("theorems") or {}).get(AXIOM_KEY[name])
        for m in it.get("mismatch", []):
            out["problems"].append(f"regenerated from the source: definite mismatch with the model in ConfusionMatrix.{name} "
                                   f"[{it.get('where')}]: {m}")
    out["evidence"] = {
        "status": st,
        "what": "Python ast -> (k) the four cells of ConfusionMatrix.one_vs_all as expressions over M[j,j], rowsum_j, colsum_j, total "
                "(SA.CmDefs.OExpr), normal forms compared with the model's by the Lean kernel; soundness SA.CmDefs.normalize_sound / "
                "checkOva_ok_sound / ova_bridge: an accepted row IS SA.oneVsAll on every rational matrix of every size; (m) the "
                "construction loop of _assign_from_predictions as a row of data (SA.CmDefs.ConsDef) compared with the model's; "
                "soundness SA.CmDefs.cons_bridge / cons_bridge_entries (lean/SA/Theorems/C05Defs.lean)",
        "items": items,
        "not_covered_by_the_generated_definitions": {n: i.get("why") for n, i in items.items() if i["status"] == "unknown"},
        "generated_theorem_axioms": res.get("theorems"),
        "lean_result_cached": res.get("lean_result_cached"), "wall_s": res.get("wall_s"),
    }
    return out


def main(argv=None):
    import argparse
    ap = argparse.ArgumentParser()
    ap.add_argument("--repo", default=None)
    ap.add_argument("--json", default=None)
    ap.add_argument("--keep", action="store_true")
    ap.add_argument("-v", action="store_true")
    ap.add_argument("--quiet", action="store_true")
    a = ap.parse_args(argv)
    try:
        res = analyse(a.repo, keep=a.keep)
    except Exception as ex:  # noqa: BLE001
        import traceback
        res = {"status": "harness-problem", "problem": f"{type(ex).__name__}: {ex}", "traceback": traceback.format_exc()[-1500:]}
    if a.json:
        Path(a.json).write_text(json.dumps(res, indent=1, default=str))
    if a.quiet:
        return 0 if res["status"] == "ok" else 1
    print(f"cmdefs: status={res['status']} {res.get('wall_s')} cached={res.get('lean_result_cached')}")
    for n, it in res.get("items", {}).items():
        print(f"{it['status']:9s} ConfusionMatrix.{n} [{it.get('where')}]")
        if it["status"] == "unknown":
            print("          why:", it.get("why"))
        for m in it.get("mismatch", []):
            print("          MISMATCH", m)
        if a.v and "translated" in it:
            print("          translated:", json.dumps(it["translated"]))
            for pos, c in it.get("cells", {}).items():
                print(f"          {pos}: {c['verdict']}  nf = {c['normal_form']}   model = {c['model']}")
    for e in res.get("lean_errors", [])[:5]:
        print("lean:", e)
    if res.get("problem"):
        print("problem:", res["problem"])
        print(res.get("traceback", ""))
    return 0 if res["status"] == "ok" else 1


if __name__ == "__main__":
    sys.exit(main())
