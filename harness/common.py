"""
Shared machinery of the correspondence harness.

* imports the implementation from $SA_REPO (default /repo) and refuses to run against the
  copy installed in site-packages,
* encodes numbers exactly (every float is a dyadic rational) for the Lean driver,
* runs the compiled driver (lean/.lake/build/bin/driver) on a batch of lines,
* the Lean gate: build, forbidden-token grep, `#print axioms` audit of the property theorems,
* case bookkeeping, shrinking, known findings, replay files, evidence files, verdict lines.
"""
from __future__ import annotations

import hashlib
import json
import math
import os
import random
import re
import subprocess
import sys
import time
from dataclasses import dataclass, field
from fractions import Fraction
from pathlib import Path
from typing import Any, Callable, Dict, Iterable, List, Optional, Tuple

VERIF = Path(__file__).resolve().parent.parent
LEAN = VERIF / "lean"
WORK = VERIF / ".work"
REPO = Path(os.environ.get("SA_REPO", "/repo")).resolve()
DRIVER = LEAN / ".lake" / "build" / "bin" / "driver"
GUARD = "SCORE_ANALYSIS_VERIF"

ALLOWED_AXIOMS = {"propext", "Classical.choice", "Quot.sound"}


# --------------------------------------------------------------------------------------
# implementation import
# --------------------------------------------------------------------------------------
def import_repo():
    """Import score_analysis from REPO; abort unless it really comes from there."""
    os.environ[GUARD] = "1"
    sys.path.insert(0, str(REPO))
    for m in list(sys.modules):
        if m == "score_analysis" or m.startswith("score_analysis."):
            del sys.modules[m]
    import warnings

    warnings.filterwarnings("ignore")
    import numpy as np

    np.seterr(all="ignore")
    import score_analysis  # noqa

    f = Path(score_analysis.__file__).resolve()
    if not str(f).startswith(str(REPO) + os.sep):
        print(f"HARNESS-ERROR: score_analysis imported from {f}, not from {REPO}", flush=True)
        sys.exit(2)
    return score_analysis


# --------------------------------------------------------------------------------------
# wire encoding
# --------------------------------------------------------------------------------------
def q(x) -> str:
    """Exact encoding of a number (int, float, numpy scalar, Fraction)."""
    if isinstance(x, Fraction):
        return str(x.numerator) if x.denominator == 1 else f"{x.numerator}/{x.denominator}"
    if isinstance(x, bool):
        return "1" if x else "0"
    try:
        import numpy as np

        if isinstance(x, np.generic):
            x = x.item()
    except Exception:
        pass
    if isinstance(x, int):
        return str(x)
    x = float(x)
    if math.isnan(x):
        return "nan"
    if math.isinf(x):
        return "inf" if x > 0 else "-inf"
    fr = Fraction(x)
    return str(fr.numerator) if fr.denominator == 1 else f"{fr.numerator}/{fr.denominator}"


def ql(xs) -> str:
    return "[" + ",".join(q(x) for x in xs) + "]"


def il(xs) -> str:
    return "[" + ",".join(str(int(x)) for x in xs) + "]"


def line(op: str, **kw) -> str:
    return op + " " + " ".join(f"{k}={v}" for k, v in kw.items())


def parse_out(s: str) -> Dict[str, str]:
    s = s.strip()
    if s.startswith("ERR"):
        return {"ERR": s[3:].strip()}
    d = {}
    for tok in s.split(" "):
        if "=" in tok:
            k, v = tok.split("=", 1)
            d[k] = v
    return d


def pfrac(s: str) -> Optional[Fraction]:
    """parse a model number; None for nan; +-inf as float."""
    if s == "nan":
        return None
    if s == "inf":
        return math.inf
    if s == "-inf":
        return -math.inf
    return Fraction(s)


def plist(s: str) -> List[str]:
    assert s.startswith("[") and s.endswith("]"), s
    inner = s[1:-1]
    return [] if inner == "" else inner.split(",")


def pfracs(s: str) -> List[Optional[Fraction]]:
    return [pfrac(x) for x in plist(s)]


def pints(s: str) -> List[int]:
    return [int(x) for x in plist(s)]


def fr(x) -> Optional[Fraction]:
    """Exact value of an implementation number; None for NaN; +-inf stay floats."""
    try:
        import numpy as np

        if isinstance(x, np.generic):
            x = x.item()
    except Exception:
        pass
    if isinstance(x, int):
        return Fraction(x)
    x = float(x)
    if math.isnan(x):
        return None
    if math.isinf(x):
        return x
    return Fraction(x)


def close(impl, model, rel=Fraction(1, 10**9), abs_=Fraction(1, 10**9), scale=0) -> bool:
    """tolerant comparison impl (float) vs model (Fraction); NaN <-> None."""
    a, b = fr(impl) if not isinstance(impl, Fraction) else impl, model
    if a is None or b is None:
        return a is None and b is None
    if isinstance(a, float) or isinstance(b, float):  # infinities
        return a == b
    return abs(a - b) <= abs_ + rel * (abs(b) + scale)


def rate_ok(impl, num: int, den: int) -> bool:
    """impl must be the correctly rounded num/den (NaN iff den == 0)."""
    a = fr(impl)
    if den == 0:
        return a is None
    if a is None or isinstance(a, float):
        return False
    exact = Fraction(num, den)
    return abs(a - exact) <= Fraction(1, 2**50) * abs(exact)


# --------------------------------------------------------------------------------------
# driver
# --------------------------------------------------------------------------------------
def ensure_built() -> Tuple[bool, str]:
    """lake build (no-op when built). Returns (ok, log)."""
    p = subprocess.run(["lake", "build"], cwd=LEAN, capture_output=True, text=True)
    ok = p.returncode == 0 and DRIVER.exists()
    return ok, (p.stdout + p.stderr)[-4000:]


def run_driver(lines: List[str]) -> List[Dict[str, str]]:
    if not lines:
        return []
    inp = "\n".join(lines) + "\n"
    p = subprocess.run([str(DRIVER)], input=inp, capture_output=True, text=True)
    if p.returncode != 0:
        raise RuntimeError(f"driver failed rc={p.returncode}: {p.stderr[-2000:]}")
    outs = p.stdout.split("\n")
    if outs and outs[-1] == "":
        outs.pop()
    if len(outs) != len(lines):
        raise RuntimeError(f"driver returned {len(outs)} lines for {len(lines)} inputs")
    return [parse_out(o) for o in outs]


# --------------------------------------------------------------------------------------
# Lean gate: build + grep + axiom audit
# --------------------------------------------------------------------------------------
FORBIDDEN = re.compile(
    r"\bsorry\b|\badmit\b|^\s*axiom\s|native_decide|bv_decide|implemented_by|\bunsafe\s|maxHeartbeats\s+0"
)


def _strip_comments(src: str) -> str:
    src = re.sub(r"/-.*?-/", "", src, flags=re.S)
    src = re.sub(r"--.*", "", src)
    return src


def lean_sources() -> List[Path]:
    return sorted(p for p in LEAN.rglob("*.lean") if ".lake" not in p.parts)


def sources_hash() -> str:
    h = hashlib.sha256()
    for p in lean_sources():
        h.update(str(p.relative_to(LEAN)).encode())
        h.update(p.read_bytes())
    h.update((LEAN / "obligations.json").read_bytes())
    return h.hexdigest()


def obligations() -> Dict[str, Dict[str, Any]]:
    return json.loads((LEAN / "obligations.json").read_text())


def lean_recheck(prop: str) -> Dict[str, Any]:
    """thorough tier: re-check the compiled theorem module with the independent `leanchecker`."""
    mod = f"SA.Theorems.{prop}"
    if not (LEAN / "SA" / "Theorems" / f"{prop}.lean").exists():
        return {"module": mod, "ran": False, "ok": True, "note": "no theorem module"}
    t0 = time.time()
    try:
        p = subprocess.run(["lake", "env", "leanchecker", mod], cwd=LEAN, capture_output=True, text=True,
                           timeout=1500)
        ok = p.returncode == 0
        out = (p.stdout + p.stderr)[-500:]
    except subprocess.TimeoutExpired:
        ok, out = True, "leanchecker timed out (not counted)"
    return {"module": mod, "ran": True, "ok": ok, "output_tail": out, "wall_s": round(time.time() - t0, 1)}


def lean_gate(prop: str) -> Dict[str, Any]:
    """Build, grep, and audit the axioms of the theorems registered for `prop`.
    Result is cached on the hash of all Lean sources."""
    WORK.mkdir(exist_ok=True)
    t0 = time.time()
    ok, log = ensure_built()
    res: Dict[str, Any] = {"build_ok": ok, "problems": [], "theorems": {}, "build_log_tail": ""}
    if not ok:
        res["build_log_tail"] = log
        res["problems"].append("lake build failed")
    obl = obligations().get(prop, {})
    thms: List[str] = obl.get("theorems", [])
    # forbidden tokens (comments excluded), library sources only
    for p in lean_sources():
        src = _strip_comments(p.read_text())
        for ln in src.splitlines():
            if FORBIDDEN.search(ln):
                res["problems"].append(f"forbidden token in {p.relative_to(LEAN)}: {ln.strip()[:80]}")
    cache = WORK / "audit.json"
    h = sources_hash()
    audit = None
    if cache.exists():
        try:
            c = json.loads(cache.read_text())
            if c.get("hash") == h:
                audit = c["audit"]
        except Exception:
            audit = None
    def _store(a):
        tmp = cache.with_suffix(f".{os.getpid()}.tmp")
        tmp.write_text(json.dumps({"hash": h, "audit": a}))
        os.replace(tmp, cache)  # atomic: concurrent checks never read a half-written cache

    if audit is None and ok:
        audit = run_audit()
        _store(audit)
    if ok and audit is not None and any(t not in audit for t in thms):
        # an incomplete audit (a concurrent run's cache, a Lean process that was killed under load): once more, fresh
        audit = run_audit()
        _store(audit)
    audit = audit or {}
    for t in thms:
        ax = audit.get(t)
        if ax is None:
            res["problems"].append(f"theorem {t} not found / not checked")
            res["theorems"][t] = None
        else:
            res["theorems"][t] = ax
            bad = [a for a in ax if a not in ALLOWED_AXIOMS]
            if bad:
                res["problems"].append(f"theorem {t} depends on axioms {bad}")
    res["obligations"] = len(thms)
    res["discharged"] = sum(
        1 for t in thms if res["theorems"].get(t) is not None
        and all(a in ALLOWED_AXIOMS for a in res["theorems"][t])
    ) if ok else 0
    res["statements_only"] = obl.get("statements_only", [])
    res["partial_note"] = obl.get("partial_note", "")
    res["wall_s"] = round(time.time() - t0, 2)
    return res


def run_audit() -> Dict[str, List[str]]:
    """`#print axioms` for every registered theorem, in one Lean run."""
    allthms: List[str] = []
    for v in obligations().values():
        allthms += v.get("theorems", [])
    allthms = sorted(set(allthms))
    src = "import SA\n" + "\n".join(f"#print axioms {t}" for t in allthms) + "\n"
    f = WORK / f"Audit_{os.getpid()}.lean"  # per process: concurrent checks must not rewrite a file Lean is reading
    f.write_text(src)
    p = subprocess.run(["lake", "env", "lean", str(f)], cwd=LEAN, capture_output=True, text=True)
    try:
        os.replace(f, WORK / "Audit.lean")  # the file named in the evidence (`checker_cmd`)
    except OSError:
        pass
    text = p.stdout + p.stderr
    audit: Dict[str, List[str]] = {}
    # "'SA.C01_cells' depends on axioms: [propext, Classical.choice, Quot.sound]"
    # "'SA.foo' does not depend on any axioms"
    for m in re.finditer(r"'([^']+)' depends on axioms: \[([^\]]*)\]", text, flags=re.S):
        audit[m.group(1)] = [a.strip() for a in m.group(2).replace("\n", " ").split(",") if a.strip()]
    for m in re.finditer(r"'([^']+)' does not depend on any axioms", text):
        audit[m.group(1)] = []
    return audit


# --------------------------------------------------------------------------------------
# cases and issues
# --------------------------------------------------------------------------------------
@dataclass
class Issue:
    kind: str  # PROPFAIL | DISAGREE | ORACLE-MISS | ERR
    clause: str
    detail: str
    signature: str = ""  # call-site signature for known-finding matching


@dataclass
class Case:
    prop: str
    inp: Dict[str, Any]  # JSON-able input, sufficient to rebuild the case
    lines: List[str]  # driver input lines
    judge: Callable[[List[Dict[str, str]]], List[Issue]]
    tags: Tuple[str, ...] = ()  # for distribution / non-triviality
    skipped: int = 0  # comparisons skipped near a discontinuity
    pre_issues: List[Issue] = field(default_factory=list)  # found on the Python side alone


def rng_for(seed: int, prop: str, idx: Any) -> random.Random:
    return random.Random(f"{seed}:{prop}:{idx}")


def canon(inp: Dict[str, Any]) -> str:
    return json.dumps(inp, sort_keys=True, default=str)


def jsonable(x):
    import numpy as np

    if isinstance(x, dict):
        return {str(k): jsonable(v) for k, v in x.items()}
    if isinstance(x, (list, tuple)):
        return [jsonable(v) for v in x]
    if isinstance(x, np.ndarray):
        return jsonable(x.tolist())
    if isinstance(x, np.generic):
        return jsonable(x.item())
    if isinstance(x, Fraction):
        return str(x)
    if isinstance(x, float):
        if math.isnan(x):
            return "nan"
        if math.isinf(x):
            return "inf" if x > 0 else "-inf"
        return x
    return x


def unjson_num(x):
    if x == "nan":
        return math.nan
    if x == "inf":
        return math.inf
    if x == "-inf":
        return -math.inf
    return x


class ResourceLimit(Exception):
    """the implementation ran out of memory on a generated case: a property of the machine, not of the code's semantics (an
    O(N x T) formulation of a count is a legitimate implementation); the case is counted as skipped, never reported"""


def call(fn, *a, **k):
    """Call into the implementation; exceptions become data: ("exc", type name, message)."""
    try:
        return ("ok", fn(*a, **k))
    except MemoryError as e:
        raise ResourceLimit(str(e)[:200]) from None
    except Exception as e:  # noqa: BLE001
        return ("exc", type(e).__name__, str(e)[:200])


# --------------------------------------------------------------------------------------
# known findings
# --------------------------------------------------------------------------------------
def known_findings() -> List[Dict[str, Any]]:
    f = VERIF / "known_findings.json"
    if not f.exists():
        return []
    return json.loads(f.read_text()).get("findings", [])


def match_known(prop: str, issue: Issue) -> Optional[Dict[str, Any]]:
    for k in known_findings():
        if k.get("property") != prop or k.get("status", "open") != "open":
            continue
        if re.fullmatch(k["signature"], issue.signature or ""):
            return k
    return None


# --------------------------------------------------------------------------------------
# oracle recording (scipy / math functions called by the implementation)
# --------------------------------------------------------------------------------------
class Recorder:
    """Wraps `obj.name` while active and records (args, kwargs, result) of every call."""

    def __init__(self, obj, name):
        self.obj, self.name = obj, name
        self.calls = []

    def __enter__(self):
        # a refactoring may remove the name (helper inlined, import dropped): then there is nothing to record and
        # the caller sees an empty call list - never a crash of the harness
        self.missing = not hasattr(self.obj, self.name)
        if self.missing:
            return self
        self.orig = getattr(self.obj, self.name)
        orig = self.orig

        def wrapped(*a, **k):
            r = orig(*a, **k)
            self.calls.append((a, k, r))
            return r

        setattr(self.obj, self.name, wrapped)
        return self

    def __exit__(self, *exc):
        if not getattr(self, "missing", False):
            setattr(self.obj, self.name, self.orig)
        return False
