"""
Decision tables of `Scores` / `roc_curve` regenerated from the source on every run (C01 / C02 / C03 / C08 / C09 / C15).

A small PARTIAL EVALUATOR over the Python `ast` of `$SA_REPO/score_analysis/scores.py` and `roc_curve.py`:
the flags (`score_class`, `equal_class`, `increasing`, `ratio_class`, `method`, `left_continuous`, `x_axis`) are
concrete, everything else (score arrays, thresholds, targets, easy counts) is a symbolic expression tree (`Sym`).
User functions (methods, properties, module-level helpers, closures, lambdas, lookup tables) are followed by
inlining.  The symbolic result of each function is then NORMALISED into a row of a tiny IR
(`lean/SA/Model/DecTables.lean`); whatever does not fit the IR is `unknown` for that row ("not covered", never an
alarm).  The rows are written to a generated Lean file under `.work/` whose theorem

    theorem generated_dectables_ok : checkTables translated = <true, [], covered> := by decide +kernel

is checked by the kernel (cached on the generated text).  `SA/Theorems/DecTables.lean` proves that a row equal to
the model's row denotes the model's function for ALL inputs.  A definite mismatch (a row that fits the IR and
differs from the model's; for the rescaling expressions: differs at a probe point evaluated by the kernel) is a
broken proof obligation.

    python harness/dectables.py [-v] [--repo DIR] [--json OUT] [--keep]
"""
from __future__ import annotations

import ast
import hashlib
import json
import os
import re
import subprocess
import sys
import time
from pathlib import Path

VERIF = Path(__file__).resolve().parent.parent
LEAN = VERIF / "lean"
WORK = VERIF / ".work"


# --------------------------------------------------------------------------------------
# values
# --------------------------------------------------------------------------------------
class GiveUp(Exception):
    """the evaluator cannot go on: the row is `unknown`"""


class Sym:
    """immutable symbolic expression"""
    __slots__ = ("op", "args", "_h")

    def __init__(self, op, *args):
        self.op = op
        self.args = tuple(args)
        self._h = None

    def key(self):
        return (self.op,) + tuple(_key(a) for a in self.args)

    def __repr__(self):
        if not self.args:
            return str(self.op)
        return f"{self.op}({', '.join(show(a) for a in self.args)})"


def _key(v):
    if isinstance(v, Sym):
        return ("S",) + v.key()
    if isinstance(v, Label):
        return ("L", v.value)
    if isinstance(v, (tuple, list)):
        return ("T",) + tuple(_key(x) for x in v)
    if isinstance(v, dict):
        return ("D",) + tuple(sorted((repr(_key(k)), _key(x)) for k, x in v.items()))
    if isinstance(v, (bool, int, float, str)) or v is None or v is Ellipsis:
        return (type(v).__name__, v)
    return ("O", id(v))


def same(a, b):
    try:
        return _key(a) == _key(b)
    except Exception:  # noqa: BLE001
        return a is b


def show(v):
    if isinstance(v, str):
        return repr(v)
    if isinstance(v, tuple):
        return "(" + ", ".join(show(x) for x in v) + ")"
    if isinstance(v, list):
        return "[" + ", ".join(show(x) for x in v) + "]"
    return repr(v)


class Label:
    """a member of BinaryLabel"""
    def __init__(self, value):
        self.value = value

    def __repr__(self):
        return f"BinaryLabel.{self.value}"


class Undefined:
    def __repr__(self):
        return "<undefined>"


UNDEF = Undefined()


class Matrix:
    """np.empty(...) filled cell by cell"""
    def __init__(self):
        self.cells = {}

    def __repr__(self):
        return f"Matrix({self.cells})"


class Func:
    def __init__(self, node, env, module, self_obj=None, name=None, kind="function"):
        self.node, self.env, self.module, self.self_obj, self.kind = node, env, module, self_obj, kind
        self.name = name or getattr(node, "name", "<lambda>")


class Builtin:
    def __init__(self, name, fn):
        self.name, self.fn = name, fn

    def __repr__(self):
        return f"<{self.name}>"


class Namespace:
    def __init__(self, name, table=None):
        self.name, self.table = name, table or {}


class ClassVal:
    def __init__(self, name, node, module):
        self.name, self.node, self.module = name, node, module
        self.methods, self.attrs = {}, {}


class Obj:
    """the Scores object: symbolic fields, concrete flags"""
    def __init__(self, cls, score_class, equal_class, tag="self"):
        self.cls, self.tag = cls, tag
        self.flags = {"score_class": Label(score_class), "equal_class": Label(equal_class)}


FIELDS = ("pos", "neg", "nb_easy_pos", "nb_easy_neg")


def is_sym(v):
    return isinstance(v, Sym)


def concrete(v):
    return isinstance(v, (bool, int, float, str, Label)) or v is None


# --------------------------------------------------------------------------------------
# module loading
# --------------------------------------------------------------------------------------
_AST_CACHE = {}


class Module:
    def __init__(self, name, src, interp):
        self.name, self.src, self.interp = name, src, interp
        self.tree = _AST_CACHE.get(src) or _AST_CACHE.setdefault(src, ast.parse(src))
        self.globals = {}
        self.pending = {}
        for st in self.tree.body:
            if isinstance(st, ast.FunctionDef):
                self.globals[st.name] = Func(st, None, self)
            elif isinstance(st, ast.ClassDef):
                cv = ClassVal(st.name, st, self)
                for s2 in st.body:
                    if isinstance(s2, ast.FunctionDef):
                        decs = {d.id if isinstance(d, ast.Name) else getattr(d, "attr", "") for d in s2.decorator_list}
                        kind = "property" if "property" in decs else "static" if "staticmethod" in decs else \
                            "classmethod" if "classmethod" in decs else "method"
                        cv.methods[s2.name] = (s2, kind)
                    elif isinstance(s2, ast.Assign) and len(s2.targets) == 1 and isinstance(s2.targets[0], ast.Name):
                        cv.attrs[s2.targets[0].id] = s2.value
                self.globals[st.name] = cv
            elif isinstance(st, ast.Assign) and len(st.targets) == 1 and isinstance(st.targets[0], ast.Name):
                self.pending[st.targets[0].id] = st.value
            elif isinstance(st, ast.AnnAssign) and isinstance(st.target, ast.Name) and st.value is not None:
                self.pending[st.target.id] = st.value
            elif isinstance(st, (ast.Import, ast.ImportFrom)):
                for al in st.names:
                    nm = al.asname or al.name.split(".")[0]
                    self.globals[nm] = interp.import_name(self, st, al)

    def lookup(self, name):
        if name in self.globals:
            return self.globals[name]
        if name in self.pending:
            node = self.pending.pop(name)
            v = self.interp.eval(node, Env(self, {}))
            self.globals[name] = v
            return v
        raise KeyError(name)


class Env:
    def __init__(self, module, vars_, parent=None):
        self.module, self.vars, self.parent = module, vars_, parent

    def get(self, name):
        e = self
        while e is not None:
            if name in e.vars:
                v = e.vars[name]
                if v is UNDEF:
                    raise GiveUp(f"variable {name} possibly undefined")
                return v
            e = e.parent
        try:
            return self.module.lookup(name)
        except KeyError:
            pass
        if name in BUILTINS:
            return BUILTINS[name]
        raise GiveUp(f"unknown name {name}")

    def set(self, name, v):
        self.vars[name] = v

    def fork(self):
        return Env(self.module, dict(self.vars), self.parent)


# --------------------------------------------------------------------------------------
# numpy / builtins on symbolic values
# --------------------------------------------------------------------------------------
COMM = {"add", "mul", "max", "min"}


def mk(op, *args):
    if op in COMM and len(args) == 2:
        a, b = args
        if repr(_key(a)) > repr(_key(b)):
            args = (b, a)
    return Sym(op, *args)


def arith(op, a, b):
    if isinstance(a, (bool, int, float)) and isinstance(b, (bool, int, float)):
        try:
            return {"add": lambda: a + b, "sub": lambda: a - b, "mul": lambda: a * b, "div": lambda: a / b,
                    "floordiv": lambda: a // b, "mod": lambda: a % b, "pow": lambda: a ** b,
                    "xor": lambda: a ^ b, "bitand": lambda: a & b, "bitor": lambda: a | b}[op]()
        except Exception as ex:  # noqa: BLE001
            raise GiveUp(f"arithmetic {op}: {ex}")
    if op == "add" and isinstance(a, (tuple, list)) and type(a) is type(b):
        return a + b
    if op == "mul" and isinstance(a, (tuple, list)) and isinstance(b, int):
        return a * b
    if not (is_sym(a) or isinstance(a, (bool, int, float))) or not (is_sym(b) or isinstance(b, (bool, int, float))):
        raise GiveUp(f"arithmetic {op} on {type(a).__name__}, {type(b).__name__}")
    return mk(op, a, b)


def np_len(x):
    if isinstance(x, (tuple, list, dict, set, str)):
        return len(x)
    if is_sym(x):
        return Sym("len", x)
    if isinstance(x, Matrix):
        return Sym("len", Sym("matrix"))
    raise GiveUp("len of " + type(x).__name__)


def _kw(kwargs, name, default=None):
    return kwargs.get(name, default)


def np_searchsorted(a, v, side="left", sorter=None, **kw):
    if sorter is not None or kw:
        return Sym("call", "np.searchsorted?", a, v)
    return Sym("searchsorted", a, v, side)


def np_asarray(x, *a, **kw):
    return x


def np_where(*a, **kw):
    if len(a) == 3 and not kw:
        return Sym("where", *a)
    return Sym("call", "np.where", *a)


def np_clip(x, lo=None, hi=None, **kw):
    if kw or lo is None or hi is None:
        return Sym("call", "np.clip", x, lo, hi)
    return Sym("clip", x, lo, hi)


def np_concatenate(xs, *a, **kw):
    if isinstance(xs, (list, tuple)) and not a and not kw:
        return Sym("concat", tuple(xs))
    return Sym("call", "np.concatenate", xs)


def np_empty(*a, **kw):
    return Matrix()


def np_float(x=0.0, *a):
    if isinstance(x, (bool, int, float)):
        return float(x)
    return x


def py_int(x=0, *a):
    if isinstance(x, (bool, int)):
        return int(x)
    if isinstance(x, float) and x == int(x):
        return int(x)
    if is_sym(x):
        return Sym("int", x)
    raise GiveUp("int()")


def py_bool(x=False):
    if concrete(x) and not isinstance(x, Label):
        return bool(x)
    if is_sym(x):
        return x
    raise GiveUp("bool()")


def py_range(*a):
    if all(isinstance(x, int) for x in a):
        return list(range(*a))
    raise GiveUp("range over a symbolic bound")


def py_enumerate(xs, start=0):
    if isinstance(xs, (list, tuple)):
        return [(i + start, x) for i, x in enumerate(xs)]
    raise GiveUp("enumerate")


def py_zip(*xs):
    if all(isinstance(x, (list, tuple)) for x in xs):
        return [tuple(t) for t in zip(*xs)]
    raise GiveUp("zip")


def py_minmax(op):
    def f(*a, **kw):
        if kw:
            raise GiveUp("min/max with keywords")
        if len(a) == 1 and isinstance(a[0], (list, tuple)):
            a = tuple(a[0])
        if all(isinstance(x, (bool, int, float)) for x in a):
            return (min if op == "min" else max)(a)
        if len(a) == 2:
            return mk(op, a[0], a[1])
        raise GiveUp("min/max")
    return f


def _opq(name):
    return lambda *a, **kw: Sym("call", name, *a, *[Sym("kw", k, v) for k, v in sorted(kw.items())])


NP = {
    "searchsorted": np_searchsorted, "asarray": np_asarray, "array": _opq("np.array"), "where": np_where,
    "clip": np_clip, "concatenate": np_concatenate, "empty": np_empty,
    "maximum": lambda a, b, **kw: mk("max", a, b), "minimum": lambda a, b, **kw: mk("min", a, b),
    "floor": lambda x: Sym("floor", x), "ceil": lambda x: Sym("ceil", x),
    "nextafter": lambda a, b: Sym("nextafter", a, b),
    "sort": lambda x, *a, **kw: Sym("sort", x) if not a and not kw else Sym("call", "np.sort?", x),
    "float64": np_float, "inf": float("inf"), "nan": Sym("nan"),
    "logical_not": lambda x: neg(x), "logical_xor": lambda a, b: arith("xor", a, b),
    "subtract": lambda a, b: arith("sub", a, b), "add": lambda a, b: arith("add", a, b),
    "multiply": lambda a, b: arith("mul", a, b), "divide": lambda a, b: arith("div", a, b),
    "true_divide": lambda a, b: arith("div", a, b),
    "flip": lambda x, *a, **kw: Sym("rev", x) if not a and not kw else Sym("call", "np.flip?", x),
    "int64": int, "int32": Sym("dtype", "int32"), "intp": int, "float32": Sym("dtype", "float32"),
    "ndarray": Sym("type", "ndarray"), "newaxis": None,
}


def neg(x):
    if isinstance(x, bool) or x is None or isinstance(x, (int, float, str)):
        return not x
    if is_sym(x):
        if x.op == "not":
            return x.args[0]
        return Sym("not", x)
    raise GiveUp("not on " + type(x).__name__)


CMP = {ast.Eq: "eq", ast.NotEq: "ne", ast.Lt: "lt", ast.LtE: "le", ast.Gt: "gt", ast.GtE: "ge"}
PYCMP = {"eq": lambda a, b: a == b, "ne": lambda a, b: a != b, "lt": lambda a, b: a < b, "le": lambda a, b: a <= b,
         "gt": lambda a, b: a > b, "ge": lambda a, b: a >= b}


def compare(op, a, b):
    if isinstance(a, Label) or isinstance(b, Label):
        # BinaryLabel.__eq__: self.value == BinaryLabel(other).value
        av = a.value if isinstance(a, Label) else a
        bv = b.value if isinstance(b, Label) else b
        if isinstance(av, str) and isinstance(bv, str) and op in ("eq", "ne"):
            if av not in ("pos", "neg") or bv not in ("pos", "neg"):
                raise GiveUp("BinaryLabel(...) of an invalid value")
            return (av == bv) if op == "eq" else (av != bv)
        raise GiveUp("comparison of a label with a non-label")
    if is_sym(a) or is_sym(b):
        return Sym(op, a, b)
    try:
        return PYCMP[op](a, b)
    except Exception as ex:  # noqa: BLE001
        raise GiveUp(f"comparison: {ex}")


BINOP = {ast.Add: "add", ast.Sub: "sub", ast.Mult: "mul", ast.Div: "div", ast.FloorDiv: "floordiv", ast.Mod: "mod",
         ast.Pow: "pow", ast.BitXor: "xor", ast.BitAnd: "bitand", ast.BitOr: "bitor"}

OPERATOR = {"ge": lambda a, b: compare("ge", a, b), "gt": lambda a, b: compare("gt", a, b),
            "le": lambda a, b: compare("le", a, b), "lt": lambda a, b: compare("lt", a, b),
            "eq": lambda a, b: compare("eq", a, b), "ne": lambda a, b: compare("ne", a, b),
            "not_": neg, "add": lambda a, b: arith("add", a, b), "sub": lambda a, b: arith("sub", a, b),
            "mul": lambda a, b: arith("mul", a, b), "truediv": lambda a, b: arith("div", a, b),
            "xor": lambda a, b: arith("xor", a, b)}

BUILTINS = {
    "len": Builtin("len", np_len), "int": Builtin("int", py_int), "float": Builtin("float", np_float),
    "bool": Builtin("bool", py_bool), "range": Builtin("range", py_range), "enumerate": Builtin("enumerate", py_enumerate),
    "zip": Builtin("zip", py_zip), "min": Builtin("min", py_minmax("min")), "max": Builtin("max", py_minmax("max")),
    "tuple": Builtin("tuple", lambda x=(): tuple(x) if isinstance(x, (list, tuple)) else _raise("tuple()")),
    "list": Builtin("list", lambda x=(): list(x) if isinstance(x, (list, tuple)) else _raise("list()")),
    "dict": Builtin("dict", lambda **kw: dict(kw)),
    "isinstance": Builtin("isinstance", _opq("isinstance")), "getattr": Builtin("getattr", _opq("getattr")),
    "str": Builtin("str", lambda x="": x if isinstance(x, str) else x.value if isinstance(x, Label) and False else _raise("str()")),
    "reversed": Builtin("reversed", lambda x: list(reversed(x)) if isinstance(x, (list, tuple)) else Sym("rev", x)),
    "sum": Builtin("sum", lambda xs, start=0: _pysum(xs, start)), "abs": Builtin("abs", _opq("abs")),
    "True": True, "False": False, "None": None,
    "ValueError": Builtin("ValueError", lambda *a, **k: Sym("exc", "ValueError")),
    "TypeError": Builtin("TypeError", lambda *a, **k: Sym("exc", "TypeError")),
    "KeyError": Builtin("KeyError", lambda *a, **k: Sym("exc", "KeyError")),
    "ZeroDivisionError": Builtin("ZeroDivisionError", lambda *a, **k: Sym("exc", "ZeroDivisionError")),
    "NotImplementedError": Builtin("NotImplementedError", lambda *a, **k: Sym("exc", "NotImplementedError")),
}


def _raise(msg):
    raise GiveUp(msg)


def _pysum(xs, start):
    if not isinstance(xs, (list, tuple)):
        raise GiveUp("sum()")
    acc = start
    for x in xs:
        acc = arith("add", acc, x)
    return acc


# --------------------------------------------------------------------------------------
# the interpreter
# --------------------------------------------------------------------------------------
class Interp:
    MAX_DEPTH = 24

    def __init__(self, repo: Path):
        self.repo = Path(repo)
        self.modules = {}
        self.anchors = {}      # qualified name -> callable(bound arguments) -> value   (calls that are NOT followed)
        self.depth = 0
        self.sym_depth = 0     # > 0 while executing a branch of an `if` on a symbolic condition
        self.guards = []       # (condition, exception name) of `if cond: raise` passed on the way
        self.steps = 0
        for name in ("scores", "roc_curve"):
            src = (self.repo / "score_analysis" / f"{name}.py").read_text()
            self.modules[name] = None
        self.src = {n: (self.repo / "score_analysis" / f"{n}.py").read_text() for n in self.modules}
        for name in ("scores", "roc_curve"):
            self.modules[name] = Module(name, self.src[name], self)

    # ---- imports -------------------------------------------------------------------
    def import_name(self, module, st, al):
        if isinstance(st, ast.Import):
            if al.name == "numpy":
                return Namespace("np", NP)
            if al.name == "operator":
                return Namespace("operator", {k: Builtin(k, v) for k, v in OPERATOR.items()})
            if al.name == "math":
                return Namespace("math", {"inf": float("inf"), "floor": Builtin("floor", lambda x: Sym("floor", x)),
                                          "ceil": Builtin("ceil", lambda x: Sym("ceil", x))})
            return Namespace(al.name)
        mod = st.module or ""
        if mod == "scores" or mod.endswith(".scores"):
            m = self.modules.get("scores")
            if m is None:
                raise GiveUp("scores module not loaded")
            try:
                return m.lookup(al.name)
            except KeyError:
                return Namespace(al.name)
        if mod == "operator":
            return Builtin(al.name, OPERATOR[al.name]) if al.name in OPERATOR else Namespace(al.name)
        if mod == "numpy" or mod.startswith("numpy"):
            v = NP.get(al.name)
            return Builtin(al.name, v) if callable(v) else (v if v is not None else Namespace(al.name))
        return Namespace(al.name)

    # ---- expressions ---------------------------------------------------------------
    def eval(self, n, env):
        self.steps += 1
        if self.steps > 400000:
            raise GiveUp("step budget exhausted")
        m = getattr(self, "e_" + type(n).__name__, None)
        if m is None:
            raise GiveUp(f"unsupported expression {type(n).__name__}")
        return m(n, env)

    def e_Constant(self, n, env):
        return n.value

    def e_Name(self, n, env):
        return env.get(n.id)

    def e_Tuple(self, n, env):
        return tuple(self.elts(n.elts, env))

    def e_List(self, n, env):
        return list(self.elts(n.elts, env))

    def e_Set(self, n, env):
        vs = self.elts(n.elts, env)
        if not all(isinstance(v, (str, int, float, bool)) for v in vs):
            raise GiveUp("set of non-constants")
        return set(vs)

    def elts(self, elts, env):
        out = []
        for e in elts:
            if isinstance(e, ast.Starred):
                v = self.eval(e.value, env)
                if isinstance(v, (list, tuple)):
                    out += list(v)
                else:
                    out.append(Sym("star", v))
            else:
                out.append(self.eval(e, env))
        return out

    def e_Dict(self, n, env):
        d = {}
        for k, v in zip(n.keys, n.values):
            if k is None:
                raise GiveUp("dict unpacking")
            kv = self.eval(k, env)
            kv = self.hashable(kv)
            d[kv] = self.eval(v, env)
        return d

    def hashable(self, k):
        if isinstance(k, (str, int, float, bool)) or k is None:
            return k
        if isinstance(k, tuple):
            return tuple(self.hashable(x) for x in k)
        if isinstance(k, Label):
            raise GiveUp("BinaryLabel used as a dictionary key (unhashable in the real code)")
        raise GiveUp("symbolic dictionary key")

    def e_JoinedStr(self, n, env):
        return Sym("fstring")

    def e_UnaryOp(self, n, env):
        v = self.eval(n.operand, env)
        if isinstance(n.op, ast.Not):
            return neg(v)
        if isinstance(n.op, ast.USub):
            if isinstance(v, (int, float)):
                return -v
            return Sym("neg", v)
        if isinstance(n.op, ast.Invert):
            if isinstance(v, bool):
                raise GiveUp("~ on a Python bool")
            if is_sym(v):
                return neg(v)
        if isinstance(n.op, ast.UAdd):
            return v
        raise GiveUp("unary operator")

    def e_BinOp(self, n, env):
        op = BINOP.get(type(n.op))
        if op is None:
            raise GiveUp("binary operator")
        return arith(op, self.eval(n.left, env), self.eval(n.right, env))

    def e_BoolOp(self, n, env):
        is_and = isinstance(n.op, ast.And)
        acc = None
        for i, e in enumerate(n.values):
            v = self.eval(e, env)
            if not is_sym(v):
                t = self.truth(v)
                if is_and and not t:
                    return v if acc is None else False
                if not is_and and t:
                    return v if acc is None else True
                if i == len(n.values) - 1 and acc is None:
                    return v
                continue
            acc = v if acc is None else Sym("and" if is_and else "or", acc, v)
        if acc is None:
            return is_and
        return acc

    def truth(self, v):
        if isinstance(v, Label):
            return True
        if isinstance(v, (bool, int, float, str, tuple, list, dict, set)) or v is None:
            return bool(v)
        if isinstance(v, (Func, Builtin, Obj, Matrix, ClassVal, Namespace)):
            return True
        raise GiveUp("truth value of " + type(v).__name__)

    def e_Compare(self, n, env):
        left = self.eval(n.left, env)
        acc = True
        for op, rn in zip(n.ops, n.comparators):
            right = self.eval(rn, env)
            if isinstance(op, (ast.Is, ast.IsNot)):
                if right is None or left is None:
                    if is_sym(left) or is_sym(right):
                        r = Sym("isnone", left if is_sym(left) else right)
                        r = r if isinstance(op, ast.Is) else Sym("not", r)
                    else:
                        r = (left is right) if isinstance(op, ast.Is) else (left is not right)
                elif isinstance(left, bool) and isinstance(right, bool):
                    r = (left is right) if isinstance(op, ast.Is) else (left is not right)
                else:
                    raise GiveUp("`is` on non-None values")
            elif isinstance(op, (ast.In, ast.NotIn)):
                if isinstance(right, (set, dict, list, tuple)) and not is_sym(left):
                    if isinstance(left, Label):
                        raise GiveUp("label membership test")
                    try:
                        r = self.hashable(left) in right if isinstance(right, (set, dict)) else any(
                            same(left, x) for x in right)
                    except TypeError:
                        raise GiveUp("membership test")
                    if isinstance(op, ast.NotIn):
                        r = not r
                else:
                    r = Sym("in", left, Sym("coll"))
                    if isinstance(op, ast.NotIn):
                        r = Sym("not", r)
            else:
                r = compare(CMP[type(op)], left, right)
            if is_sym(r):
                acc = r if acc is True else Sym("and", acc, r)
            elif not r:
                return False
            left = right
        return acc

    def e_IfExp(self, n, env):
        c = self.eval(n.test, env)
        if is_sym(c):
            a, b = self.eval(n.body, env), self.eval(n.orelse, env)
            if same(a, b):
                return a
            return Sym("ite", c, a, b)
        return self.eval(n.body if self.truth(c) else n.orelse, env)

    def e_Lambda(self, n, env):
        return Func(n, env, env.module, name="<lambda>")

    def e_Attribute(self, n, env):
        v = self.eval(n.value, env)
        return self.getattr(v, n.attr)

    def getattr(self, v, a):
        if isinstance(v, Namespace):
            if a in v.table:
                x = v.table[a]
                return Builtin(f"{v.name}.{a}", x) if callable(x) and not isinstance(x, (Builtin, Sym)) else x
            return Builtin(f"{v.name}.{a}", _opq(f"{v.name}.{a}"))
        if isinstance(v, Obj):
            if a in v.flags:
                return v.flags[a]
            if a in FIELDS:
                return Sym("field", v.tag, a)
            if a == "__dict__":
                raise GiveUp("self.__dict__")
            if a in v.cls.methods:
                node, kind = v.cls.methods[a]
                f = Func(node, None, v.cls.module, self_obj=None if kind == "static" else v, name=f"{v.cls.name}.{a}",
                         kind=kind)
                if kind == "property":
                    return self.call(f, [], {})
                return f
            if a in v.cls.attrs:
                node = v.cls.attrs[a]
                if isinstance(node, ast.Name) and node.id in v.cls.methods:
                    return self.getattr(v, node.id)
                return self.eval(node, Env(v.cls.module, {}))
            return Sym("field", v.tag, a)
        if isinstance(v, ClassVal):
            if v.name == "BinaryLabel" and a in ("pos", "neg"):
                return Label(a)
            if a in v.methods:
                node, kind = v.methods[a]
                return Func(node, None, v.module, name=f"{v.name}.{a}", kind="static" if kind == "static" else "unbound")
            if a in v.attrs:
                return self.eval(v.attrs[a], Env(v.module, {}))
            raise GiveUp(f"class attribute {v.name}.{a}")
        if isinstance(v, Label):
            if a == "value" or a == "name":
                return v.value
            raise GiveUp("label attribute " + a)
        if is_sym(v):
            if a == "T":
                return Sym("transpose", v)
            return Sym("attr", v, a)
        if isinstance(v, (list, dict, str, tuple, set, Matrix)):
            return Builtin("method." + a, lambda *args, _v=v, _a=a, **kw: self.pymethod(_v, _a, args, kw))
        raise GiveUp(f"attribute {a} of {type(v).__name__}")

    def pymethod(self, v, a, args, kw):
        if isinstance(v, list) and a in ("append", "extend", "insert", "reverse"):
            if self.sym_depth:
                raise GiveUp("list mutation under a symbolic condition")
            getattr(v, a)(*args)
            return None
        if isinstance(v, dict) and a in ("get", "items", "keys", "values"):
            if a == "get":
                k = self.hashable(args[0])
                return v.get(k, args[1] if len(args) > 1 else None)
            return list(getattr(v, a)())
        if isinstance(v, dict) and a == "setdefault":
            raise GiveUp("dict.setdefault")
        if isinstance(v, str) and a in ("lower", "upper", "strip", "startswith", "endswith"):
            return getattr(v, a)(*args)
        if isinstance(v, (list, tuple)) and a in ("index", "count"):
            return getattr(v, a)(*args)
        raise GiveUp(f"method {a} of {type(v).__name__}")

    def e_Subscript(self, n, env):
        v = self.eval(n.value, env)
        i = self.index(n.slice, env)
        return self.subscript(v, i)

    def index(self, s, env):
        if isinstance(s, ast.Slice):
            return ("slice", None if s.lower is None else self.eval(s.lower, env),
                    None if s.upper is None else self.eval(s.upper, env),
                    None if s.step is None else self.eval(s.step, env))
        if isinstance(s, ast.Tuple):
            return tuple(self.index(e, env) for e in s.elts)
        return self.eval(s, env)

    def subscript(self, v, i):
        if isinstance(v, dict):
            k = self.hashable(i)
            if k not in v:
                raise GiveUp(f"key {k!r} missing in a lookup table")
            return v[k]
        if isinstance(v, (list, tuple, str)):
            if isinstance(i, int):
                try:
                    return v[i]
                except IndexError:
                    raise GiveUp("index out of range")
            if isinstance(i, tuple) and len(i) == 4 and i[0] == "slice" and all(x is None or isinstance(x, int) for x in i[1:]):
                return v[slice(i[1], i[2], i[3])]
            raise GiveUp("symbolic index into a Python sequence")
        if is_sym(v):
            if same(i, ("slice", None, None, -1)):
                return Sym("rev", v)
            if same(i, ("slice", None, None, None)):
                return v
            return Sym("index", v, i)
        if isinstance(v, Matrix):
            raise GiveUp("reading a matrix under construction")
        raise GiveUp("subscript of " + type(v).__name__)

    def e_ListComp(self, n, env):
        return self.comp(n, env)

    def e_GeneratorExp(self, n, env):
        return self.comp(n, env)

    def comp(self, n, env):
        out = []

        def rec(gi, e):
            if gi == len(n.generators):
                out.append(self.eval(n.elt, e))
                return
            g = n.generators[gi]
            it = self.eval(g.iter, e)
            if not isinstance(it, (list, tuple)):
                raise GiveUp("comprehension over a symbolic iterable")
            for x in it:
                e2 = Env(e.module, {}, e)
                self.assign(g.target, x, e2)
                ok = True
                for c in g.ifs:
                    cv = self.eval(c, e2)
                    if is_sym(cv):
                        raise GiveUp("comprehension filter on a symbolic condition")
                    ok = ok and self.truth(cv)
                if ok:
                    rec(gi + 1, e2)
        rec(0, env)
        return out

    def e_Call(self, n, env):
        # np.copyto(x, v, where=m) with a plain name as destination: re-bind the name
        f = self.eval(n.func, env)
        args = self.elts(n.args, env)
        kw = {}
        for k in n.keywords:
            if k.arg is None:
                raise GiveUp("**kwargs")
            kw[k.arg] = self.eval(k.value, env)
        if isinstance(f, Builtin) and f.name == "np.copyto":
            if len(args) == 2 and set(kw) == {"where"} and isinstance(n.args[0], ast.Name) and is_sym(args[0]):
                env.set(n.args[0].id, Sym("where", kw["where"], args[1], args[0]))
                return None
            raise GiveUp("np.copyto form")
        if isinstance(f, Builtin) and f.name == "np.putmask":
            if len(args) == 3 and not kw and isinstance(n.args[0], ast.Name) and is_sym(args[0]):
                env.set(n.args[0].id, Sym("where", args[1], args[2], args[0]))
                return None
            raise GiveUp("np.putmask form")
        return self.call(f, args, kw)

    def call(self, f, args, kw):
        if isinstance(f, Builtin):
            try:
                return f.fn(*args, **kw)
            except GiveUp:
                raise
            except TypeError as ex:
                raise GiveUp(f"call of {f.name}: {ex}")
        if isinstance(f, ClassVal):
            if f.name == "BinaryLabel":
                if len(args) == 1 and isinstance(args[0], Label):
                    return args[0]
                if len(args) == 1 and args[0] in ("pos", "neg"):
                    return Label(args[0])
                raise GiveUp("BinaryLabel(...) of a non-label")
            return Sym("new", f.name, tuple(args), tuple(sorted(kw.items(), key=lambda t: t[0])))
        if isinstance(f, Func):
            return self.call_func(f, args, kw)
        if isinstance(f, Namespace):      # a class / function imported from a module that is not followed
            return Sym("new", f.name, tuple(args), tuple(sorted(kw.items(), key=lambda t: t[0])))
        if is_sym(f):
            if f.op == "attr":       # method call on a symbolic value
                obj, name = f.args
                if name == "astype":
                    return Sym("astype", obj, args[0] if args else kw.get("dtype"))
                if name == "copy" and not args:
                    return obj
                return Sym("meth", name, obj, *args, *[Sym("kw", k, v) for k, v in sorted(kw.items())])
            return Sym("callsym", f, *args)
        raise GiveUp("call of " + type(f).__name__)

    def bind(self, f, args, kw):
        a = f.node.args
        params = [p.arg for p in a.posonlyargs + a.args]
        vals = {}
        args = list(args)
        if f.self_obj is not None and f.kind in ("method", "property"):
            args = [f.self_obj] + args
        if f.kind == "classmethod":
            raise GiveUp("classmethod")
        if len(args) > len(params):
            if a.vararg is None:
                raise GiveUp(f"too many arguments for {f.name}")
            vals[a.vararg.arg] = tuple(args[len(params):])
            args = args[:len(params)]
        elif a.vararg is not None:
            vals[a.vararg.arg] = ()
        for p, v in zip(params, args):
            vals[p] = v
        kw = dict(kw)
        denv = f.env or Env(f.module, {})
        defaults = a.defaults
        for p, d in zip(params[len(params) - len(defaults):], defaults):
            if p not in vals:
                vals[p] = kw.pop(p) if p in kw else self.eval(d, denv)
        for p in params:
            if p not in vals:
                if p in kw:
                    vals[p] = kw.pop(p)
                else:
                    raise GiveUp(f"missing argument {p} of {f.name}")
            elif p in kw:
                raise GiveUp(f"argument {p} of {f.name} given twice")
        for p, d in zip(a.kwonlyargs, a.kw_defaults):
            if p.arg in kw:
                vals[p.arg] = kw.pop(p.arg)
            elif d is not None:
                vals[p.arg] = self.eval(d, denv)
            else:
                raise GiveUp(f"missing keyword argument {p.arg} of {f.name}")
        if kw:
            if a.kwarg is None:
                raise GiveUp(f"unexpected keyword {sorted(kw)} for {f.name}")
            vals[a.kwarg.arg] = kw
        return vals

    def call_func(self, f, args, kw):
        vals = self.bind(f, args, kw)
        if f.name in self.anchors:
            return self.anchors[f.name](vals)
        if self.depth >= self.MAX_DEPTH:
            raise GiveUp("call depth")
        env = Env(f.module, vals, f.env)
        self.depth += 1
        try:
            if isinstance(f.node, ast.Lambda):
                return self.eval(f.node.body, env)
            sig = self.block(f.node.body, env)
        finally:
            self.depth -= 1
        if sig is None:
            return None
        if sig[0] == "return":
            return sig[1]
        if sig[0] == "raise":
            return Sym("raises", sig[1])
        raise GiveUp("break/continue outside a loop")

    # ---- statements ----------------------------------------------------------------
    def block(self, stmts, env):
        for k, st in enumerate(stmts):
            if isinstance(st, ast.If):
                c = self.eval(st.test, env)
                if not is_sym(c):
                    sig = self.block(st.body if self.truth(c) else st.orelse, env)
                    if sig is not None:
                        return sig
                    continue
                ea, eb = env.fork(), env.fork()
                self.sym_depth += 1
                try:
                    sa = self.block(st.body, ea)
                    sb = self.block(st.orelse, eb)
                finally:
                    self.sym_depth -= 1
                ka, kb = (sa or ("none",))[0], (sb or ("none",))[0]
                if ka == "none" and kb == "none":
                    self.merge(env, c, ea, eb)
                    continue
                if ka == "raise" and kb == "none":
                    self.guards.append((c, sa[1]))
                    env.vars = eb.vars
                    continue
                if ka == "none" and kb == "raise":
                    self.guards.append((neg(c), sb[1]))
                    env.vars = ea.vars
                    continue
                if ka == "return" and kb == "return":
                    return ("return", sa[1] if same(sa[1], sb[1]) else Sym("ite", c, sa[1], sb[1]))
                if ka == "return" and kb == "none":
                    self.sym_depth += 1
                    try:
                        rest = self.block(stmts[k + 1:], eb)
                    finally:
                        self.sym_depth -= 1
                    vb = None if rest is None else rest[1] if rest[0] == "return" else _raise("mixed control flow")
                    return ("return", sa[1] if same(sa[1], vb) else Sym("ite", c, sa[1], vb))
                if ka == "none" and kb == "return":
                    self.sym_depth += 1
                    try:
                        rest = self.block(stmts[k + 1:], ea)
                    finally:
                        self.sym_depth -= 1
                    va = None if rest is None else rest[1] if rest[0] == "return" else _raise("mixed control flow")
                    return ("return", sb[1] if same(sb[1], va) else Sym("ite", c, va, sb[1]))
                raise GiveUp(f"control flow under a symbolic condition ({ka}/{kb})")
            sig = self.stmt(st, env)
            if sig is not None:
                return sig
        return None

    def merge(self, env, c, ea, eb):
        names = set(ea.vars) | set(eb.vars)
        for nm in names:
            a, b = ea.vars.get(nm, UNDEF), eb.vars.get(nm, UNDEF)
            if a is b or same(a, b):
                env.vars[nm] = a
            elif a is UNDEF or b is UNDEF:
                env.vars[nm] = UNDEF
            elif isinstance(a, (Func, Obj)) or isinstance(b, (Func, Obj)):
                env.vars[nm] = UNDEF
            else:
                env.vars[nm] = Sym("ite", c, a, b)

    def stmt(self, st, env):
        self.steps += 1
        if isinstance(st, ast.Expr):
            if isinstance(st.value, ast.Constant):
                return None
            self.eval(st.value, env)
            return None
        if isinstance(st, ast.Assign):
            v = self.eval(st.value, env)
            for t in st.targets:
                self.assign(t, v, env)
            return None
        if isinstance(st, ast.AnnAssign):
            if st.value is not None:
                self.assign(st.target, self.eval(st.value, env), env)
            return None
        if isinstance(st, ast.AugAssign):
            op = BINOP.get(type(st.op))
            if op is None:
                raise GiveUp("augmented assignment operator")
            cur = self.eval(st.target, env) if isinstance(st.target, (ast.Name, ast.Attribute)) else _raise(
                "augmented assignment to a subscript")
            if isinstance(cur, list):
                raise GiveUp("list +=")
            self.assign(st.target, arith(op, cur, self.eval(st.value, env)), env)
            return None
        if isinstance(st, ast.Return):
            return ("return", None if st.value is None else self.eval(st.value, env))
        if isinstance(st, ast.Raise):
            name = "Exception"
            if st.exc is not None:
                e = st.exc.func if isinstance(st.exc, ast.Call) else st.exc
                name = e.id if isinstance(e, ast.Name) else getattr(e, "attr", "Exception")
            return ("raise", name)
        if isinstance(st, ast.FunctionDef):
            env.set(st.name, Func(st, env, env.module))
            return None
        if isinstance(st, ast.For):
            it = self.eval(st.iter, env)
            if not isinstance(it, (list, tuple)):
                raise GiveUp("loop over a symbolic iterable")
            for x in it:
                self.assign(st.target, x, env)
                sig = self.block(st.body, env)
                if sig is None or sig[0] == "continue":
                    continue
                if sig[0] == "break":
                    break
                return sig
            else:
                if st.orelse:
                    return self.block(st.orelse, env)
            return None
        if isinstance(st, ast.Continue):
            return ("continue",)
        if isinstance(st, ast.Break):
            return ("break",)
        if isinstance(st, ast.Pass):
            return None
        if isinstance(st, ast.Assert):
            return None
        if isinstance(st, (ast.Import, ast.ImportFrom)):
            for al in st.names:
                env.set(al.asname or al.name.split(".")[0], self.import_name(env.module, st, al))
            return None
        raise GiveUp(f"unsupported statement {type(st).__name__}")

    def assign(self, t, v, env):
        if isinstance(t, ast.Name):
            env.set(t.id, v)
            return
        if isinstance(t, (ast.Tuple, ast.List)):
            if not isinstance(v, (tuple, list)):
                raise GiveUp("unpacking a symbolic value")
            if any(isinstance(e, ast.Starred) for e in t.elts) or len(t.elts) != len(v):
                raise GiveUp("unpacking shape")
            for e, x in zip(t.elts, v):
                self.assign(e, x, env)
            return
        if isinstance(t, ast.Subscript):
            base = self.eval(t.value, env)
            i = self.index(t.slice, env)
            if isinstance(base, Matrix):
                if self.sym_depth:
                    raise GiveUp("matrix store under a symbolic condition")
                base.cells[_key(i)] = (i, v)
                return
            if is_sym(base) and isinstance(t.value, ast.Name):
                # masked / indexed store into an array held by a plain name: a[m] = v  ==  where(m, v, a)
                env.set(t.value.id, Sym("where", i, v, base))
                return
            if isinstance(base, (list, dict)):
                if self.sym_depth:
                    raise GiveUp("container store under a symbolic condition")
                base[self.hashable(i)] = v
                return
            raise GiveUp("store into " + type(base).__name__)
        if isinstance(t, ast.Attribute):
            raise GiveUp("attribute store")
        raise GiveUp("assignment target")


# --------------------------------------------------------------------------------------
# normalisation of symbolic results into IR rows
# --------------------------------------------------------------------------------------
class NoFit(Exception):
    """the symbolic value does not fit the IR: the row is `unknown`"""


def P(name):
    return Sym("param", name)


def is_op(e, op, n=None):
    return is_sym(e) and e.op == op and (n is None or len(e.args) == n)


def is_field(e, name, tag=None):
    return is_op(e, "field", 2) and e.args[1] == name and (tag is None or e.args[0] == tag)


def is_num(e, v):
    return isinstance(e, (int, float)) and not isinstance(e, bool) and e == v


def comm2(e, op):
    """both orders of a commutative binary node"""
    if not is_op(e, op, 2):
        return []
    a, b = e.args
    return [(a, b), (b, a)]


def strip_astype(e):
    while is_op(e, "astype", 2) or (is_op(e, "meth") and e.args[0] in ("copy", "view")):
        e = e.args[0] if e.op == "astype" else e.args[1]
    return e


# ---- (a) cm ----------------------------------------------------------------------------
def fit_cell(e, tag="self"):
    easy = "none"
    for a, b in comm2(e, "add"):
        if is_field(b, "nb_easy_pos", tag) or is_field(b, "nb_easy_neg", tag):
            if easy != "none":
                raise NoFit("two easy counts in one cell")
            easy, e = ("pos" if b.args[1] == "nb_easy_pos" else "neg"), a
            break

    def below(x):
        if is_op(x, "searchsorted", 3) and is_op(x.args[0], "field") and x.args[0].args[1] in ("pos", "neg") \
                and same(x.args[1], P("threshold")) and x.args[2] in ("left", "right"):
            return x.args[0].args[1], x.args[2]
        return None
    b = below(e)
    if b:
        return {"arr": b[0], "side": b[1], "part": "below", "easy": easy}
    if is_op(e, "sub", 2) and is_op(e.args[0], "len", 1):
        b = below(e.args[1])
        if b and is_field(e.args[0].args[0], b[0], tag):
            return {"arr": b[0], "side": b[1], "part": "above", "easy": easy}
    raise NoFit(f"cell expression {e!r}")


def fit_cm(v):
    if not (is_op(v, "new") and v.args[0] == "ConfusionMatrix"):
        raise NoFit(f"cm() returns {v!r}")
    kw = dict(v.args[2])
    m = kw.get("matrix", v.args[1][0] if v.args[1] else None)
    if not isinstance(m, Matrix):
        raise NoFit("matrix is not filled cell by cell")
    cells = {}
    for _, (i, val) in m.cells.items():
        if isinstance(i, tuple) and len(i) == 3 and i[0] is Ellipsis and i[1] in (0, 1) and i[2] in (0, 1):
            cells[(i[1], i[2])] = val
        else:
            raise NoFit(f"matrix store at {i!r}")
    if set(cells) != {(0, 0), (0, 1), (1, 0), (1, 1)}:
        raise NoFit("not all four cells stored")
    return {"tp": fit_cell(cells[(0, 0)]), "fn": fit_cell(cells[(0, 1)]), "fp": fit_cell(cells[(1, 0)]),
            "tn": fit_cell(cells[(1, 1)])}


# ---- (b) swap --------------------------------------------------------------------------
def fit_swap(v, interp):
    if not (is_op(v, "new") and v.args[0] == "Scores"):
        raise NoFit(f"swap() returns {v!r}")
    cls = interp.modules["scores"].lookup("Scores")
    init = Func(cls.methods["__init__"][0], None, cls.module, self_obj=Obj(cls, "pos", "pos", "new"),
                name="Scores.__init__", kind="method")
    try:
        vals = interp.bind(init, list(v.args[1]), dict(v.args[2]))
    except GiveUp as ex:
        raise NoFit(str(ex))
    row = {}
    for k, want in (("pos", ("pos", "neg")), ("neg", ("pos", "neg")),
                    ("nb_easy_pos", ("nb_easy_pos", "nb_easy_neg")), ("nb_easy_neg", ("nb_easy_pos", "nb_easy_neg"))):
        x = vals.get(k)
        if not (is_op(x, "field", 2) and x.args[0] == "self" and x.args[1] in want):
            raise NoFit(f"constructor argument {k} = {x!r}")
        row[k] = "pos" if x.args[1] in ("pos", "nb_easy_pos") else "neg"
    for k in ("score_class", "equal_class"):
        x = vals.get(k)
        x = x.value if isinstance(x, Label) else x
        if x not in ("pos", "neg"):
            raise NoFit(f"constructor argument {k} = {x!r}")
        row[k] = x
    if not isinstance(vals.get("is_sorted"), bool):
        raise NoFit("is_sorted")
    row["is_sorted"] = vals["is_sorted"]
    return row


# ---- (c) wrappers ----------------------------------------------------------------------
def fit_arrsel(e, tag="self"):
    e = strip_astype(e)
    if is_field(e, "pos", tag):
        return "pos"
    if is_field(e, "neg", tag):
        return "neg"
    if is_op(e, "sort", 1) and is_op(e.args[0], "concat", 1):
        parts = e.args[0].args[0]
        if len(parts) == 2 and {p.args[1] for p in parts if is_op(p, "field", 2) and p.args[0] == tag} == {"pos", "neg"}:
            return "concat"
    raise NoFit(f"score array {e!r}")


REXP_COMM = {"add", "mul", "max", "min"}


def fit_rexp(e, tag="self"):
    if same(e, P("r")):
        return "r"
    if isinstance(e, bool):
        raise NoFit("boolean in a rescaling expression")
    if isinstance(e, (int, float)):
        if e == int(e) and 0 <= e <= 1000:
            return f"lit {int(e)}"
        raise NoFit(f"constant {e}")
    if is_field(e, "nb_easy_pos", tag):
        return "easyPos"
    if is_field(e, "nb_easy_neg", tag):
        return "easyNeg"
    if is_op(e, "len", 1) and is_field(e.args[0], "pos", tag):
        return "lenPos"
    if is_op(e, "len", 1) and is_field(e.args[0], "neg", tag):
        return "lenNeg"
    if is_sym(e) and e.op in ("add", "sub", "mul", "div", "max", "min") and len(e.args) == 2:
        a, b = fit_rexp(e.args[0], tag), fit_rexp(e.args[1], tag)
        if e.op in REXP_COMM and a > b:
            a, b = b, a
        return f"{e.op} ({a}) ({b})"
    if is_op(e, "ite", 3):
        c, a, b = e.args
        if is_op(c, "not", 1):
            c, a, b = c.args[0], b, a
        if is_op(c, "gt", 2) and is_num(c.args[1], 0):
            return f"ifPos ({fit_rexp(c.args[0], tag)}) ({fit_rexp(a, tag)}) ({fit_rexp(b, tag)})"
        if is_op(c, "le", 2) and is_num(c.args[1], 0):
            return f"ifPos ({fit_rexp(c.args[0], tag)}) ({fit_rexp(b, tag)}) ({fit_rexp(a, tag)})"
    raise NoFit(f"rescaling expression {e!r}")


def fit_wrap(v, guards):
    if not is_op(v, "TAR", 5):
        raise NoFit(f"wrapper returns {v!r}")
    scores, target, inc, rc, method = v.args
    gs = [(c, x) for c, x in guards]
    if len(gs) != 1 or gs[0][1] != "ValueError":
        raise NoFit(f"guards {gs!r}")
    c = gs[0][0]
    g = None
    for a, b in comm2(c, "eq"):
        if is_num(b, 0) and is_op(a, "len", 1):
            g = fit_arrsel(a.args[0])
    if g is None:
        raise NoFit(f"guard {c!r}")
    if not isinstance(inc, bool) or not isinstance(rc, Label):
        raise NoFit("increasing / ratio_class not constant")
    if same(method, P("method")):
        mp = True
    elif method == "linear":
        mp = False
    else:
        raise NoFit(f"method argument {method!r}")
    return {"guard": g, "arr": fit_arrsel(scores), "target": fit_rexp(target), "increasing": inc,
            "ratio_class": rc.value, "method_pass": mp}


# ---- (d1) _threshold_at_ratio ------------------------------------------------------------
def strip_item(v):
    for _ in range(4):
        if is_op(v, "ite", 3):
            a, b = v.args[1], v.args[2]
            a2 = a.args[1] if is_op(a, "meth") and a.args[0] == "item" and len(a.args) == 2 else a
            b2 = b.args[1] if is_op(b, "meth") and b.args[0] == "item" and len(b.args) == 2 else b
            if same(a2, b2):
                v = a2
                continue
        if is_op(v, "meth") and v.args[0] == "item" and len(v.args) == 2:
            v = v.args[1]
            continue
        break
    return v


def fit_norm(v):
    v = strip_item(v)
    if not is_op(v, "IIF", 4):
        raise NoFit(f"_threshold_at_ratio returns {v!r}")
    scores, target, lc, method = v.args
    if not same(scores, P("scores")):
        raise NoFit("scores argument is not passed through")
    k = 0
    while is_op(target, "sub", 2) and is_num(target.args[0], 1):
        target, k = target.args[1], k + 1
    if not same(target, P("r")):
        raise NoFit(f"target {target!r}")
    if not isinstance(lc, bool) or method not in ("linear", "lower", "higher"):
        raise NoFit("left_continuous / method not constant")
    return {"flips": k, "left_continuous": lc, "method": method}


# ---- (d2) _invert_increasing_function ---------------------------------------------------------
def fit_inv(v):
    S = P("scores")

    def is_S(x):
        return same(strip_astype(x), S)

    def is_N(x):
        return is_op(x, "len", 1) and is_S(x.args[0])

    def stage(x):
        if same(x, P("r")):
            return "requested"
        if is_op(x, "sub", 2) and same(x.args[0], P("r")) and is_op(x.args[1], "div", 2) \
                and is_num(x.args[1].args[0], 1) and is_N(x.args[1].args[1]):
            return "shifted"
        return None

    def target(x):
        for a, b in comm2(x, "mul"):
            if is_N(b) and stage(a):
                return stage(a)
        return None

    def last(x):
        return is_op(x, "sub", 2) and is_N(x.args[0]) and is_num(x.args[1], 1)

    def pos(x, kind):
        """astype(floor(target), int) -> stage"""
        x = x.args[0] if is_op(x, "astype", 2) or is_op(x, "int", 1) else None
        if x is not None and is_op(x, kind, 1):
            return target(x.args[0])
        return None

    def idx(x, kind):
        for a, b in comm2(x, "max"):
            if is_num(b, 0):
                for c, d in comm2(a, "min"):
                    if last(d) and pos(c, kind):
                        return pos(c, kind)
        if is_op(x, "clip", 3) and is_num(x.args[1], 0) and last(x.args[2]):
            return pos(x.args[0], kind)
        return None

    def at(x, kind):
        if is_op(x, "index", 2) and is_S(x.args[0]):
            return idx(x.args[1], kind)
        return None

    stores = []
    e = v
    while is_op(e, "where", 3):
        stores.insert(0, (e.args[0], e.args[1]))
        e = e.args[2]
    body = tstage = None
    if at(e, "floor"):
        body, tstage = "atIdx .floor", at(e, "floor")
    elif at(e, "ceil"):
        body, tstage = "atIdx .ceil", at(e, "ceil")
    else:
        for a, b in comm2(e, "add"):
            for la, sl in comm2(a, "mul"):
                for om, sr in comm2(b, "mul"):
                    if at(sl, "floor") and at(sr, "ceil") and at(sl, "floor") == at(sr, "ceil") \
                            and is_op(la, "sub", 2) and is_op(la.args[0], "ceil", 1) \
                            and target(la.args[0].args[0]) == at(sl, "floor") and same(la.args[0].args[0], la.args[1]) \
                            and is_op(om, "sub", 2) and is_num(om.args[0], 1) and same(om.args[1], la):
                        body, tstage = "linear", at(sl, "floor")
    if body is None:
        raise NoFit(f"body {e!r}")
    out = []
    for mask, val in stores:
        if is_op(mask, "le", 2) and is_num(mask.args[1], 0) and stage(mask.args[0]):
            if not (is_op(val, "nextafter", 2) and val.args[1] == float("-inf") and is_op(val.args[0], "index", 2)
                    and is_S(val.args[0].args[0]) and is_num(val.args[0].args[1], 0)):
                raise NoFit(f"low sentinel value {val!r}")
            out.append(f".low .{stage(mask.args[0])}")
        elif is_op(mask, "ge", 2) and is_num(mask.args[1], 1) and stage(mask.args[0]):
            if not (is_op(val, "nextafter", 2) and val.args[1] == float("inf") and is_op(val.args[0], "index", 2)
                    and is_S(val.args[0].args[0]) and is_num(val.args[0].args[1], -1)):
                raise NoFit(f"high sentinel value {val!r}")
            out.append(f".high .{stage(mask.args[0])}")
        else:
            raise NoFit(f"sentinel mask {mask!r}")
    return {"shift": tstage == "shifted", "body": body, "stores": out}


# ---- (e) roc -------------------------------------------------------------------------------
def fit_orient(v):
    if is_op(v, "raises", 1):
        if v.args[0] == "ValueError":
            return {"raises": True, "reversed": False}
        raise NoFit(f"raises {v.args[0]}")
    k = 0
    while is_op(v, "rev", 1):
        v, k = v.args[0], k + 1
    if not is_op(v, "sort", 1):
        raise NoFit(f"support thresholds {v!r}")
    return {"raises": False, "reversed": k % 2 == 1}


RATES = ("tpr", "fnr", "tnr", "fpr", "topr", "tonr")


def fit_roc(v, interp):
    if not (is_op(v, "new") and v.args[0] == "ROCCurve"):
        raise NoFit(f"roc() returns {v!r}")
    cls = interp.modules["roc_curve"].lookup("ROCCurve")
    fields = [s.target.id for s in cls.node.body if isinstance(s, ast.AnnAssign) and isinstance(s.target, ast.Name)]
    vals = dict(zip(fields, v.args[1]))
    vals.update(dict(v.args[2]))

    def rate(x):
        if is_op(x, "meth", 2) and x.args[0] in RATES and is_op(x.args[1], "CM", 1):
            return x.args[0], x.args[1].args[0]
        raise NoFit(f"rate {x!r}")
    (f1, t1), (f2, t2) = rate(vals.get("fnr")), rate(vals.get("fpr"))
    t3 = vals.get("thresholds")
    if not (is_op(t1, "FST") and same(t1, t2) and same(t1, t3)):
        raise NoFit("the rates / thresholds are not all taken at the support thresholds")
    want = (P("fnr"), P("fpr"), P("thresholds"), P("nb_points"), None, P("x_axis"))
    if not all(same(a, b) for a, b in zip(t1.args[1:], want)) or len(t1.args) != 7:
        raise NoFit(f"arguments of _find_support_thresholds {t1.args[1:]!r}")
    return {"fnr": f1, "fpr": f2}


# --------------------------------------------------------------------------------------
# the tables
# --------------------------------------------------------------------------------------
LABELS = ("pos", "neg")
CFGS = [(sc, ec) for sc in LABELS for ec in LABELS]
WRAPPERS = ["tpr", "fnr", "tnr", "fpr", "topr", "tonr", "tar", "frr", "trr", "far", "acceptance_rate", "rejection_rate"]
METHODS = ("linear", "lower", "higher")
XAXES = ["fnr", "fpr", "tnr", "tpr", "far", "frr", "tar", "trr", None]     # None = a name that is not an axis


def _anchor_positional(f_node, op, skip_self=True):
    names = [a.arg for a in f_node.args.posonlyargs + f_node.args.args]
    if skip_self and names and names[0] == "self":
        names = names[1:]
    names += [a.arg for a in f_node.args.kwonlyargs]
    return lambda vals, _n=names, _op=op: Sym(_op, *[vals[x] for x in _n])


def translate(repo: Path):
    """-> {"tables": {name: [{"key":..., "row": dict | None, "why": str}]}, "notes": [...]}"""
    repo = Path(repo)
    tables = {k: [] for k in ("cm", "swap", "wrap", "norm", "inv", "orient", "roc")}
    notes = []

    def fresh():
        return Interp(repo)

    def scores_cls(it):
        c = it.modules["scores"].lookup("Scores")
        if not isinstance(c, ClassVal):
            raise GiveUp("class Scores not found")
        return c

    def method_node(it, name):
        c = scores_cls(it)
        if name not in c.methods:
            raise GiveUp(f"Scores.{name} not found")
        return c.methods[name][0]

    def run(table, key, thunk):
        try:
            row = thunk()
            tables[table].append({"key": key, "row": row, "why": ""})
        except (GiveUp, NoFit) as ex:
            tables[table].append({"key": key, "row": None, "why": f"{type(ex).__name__}: {ex}"[:300]})
        except RecursionError:
            tables[table].append({"key": key, "row": None, "why": "recursion limit"})

    # (a) cm, (b) swap
    for sc, ec in CFGS:
        def t_cm(sc=sc, ec=ec):
            it = fresh()
            o = Obj(scores_cls(it), sc, ec)
            return fit_cm(it.call(it.getattr(o, "cm"), [P("threshold")], {}))
        run("cm", [sc, ec], t_cm)

        def t_swap(sc=sc, ec=ec):
            it = fresh()
            o = Obj(scores_cls(it), sc, ec)
            return fit_swap(it.call(it.getattr(o, "swap"), [], {}), it)
        run("swap", [sc, ec], t_swap)

    # (c) wrappers: the arguments of the call of _threshold_at_ratio
    for name in WRAPPERS:
        def t_wrap(name=name):
            rows = []
            for sc, ec in CFGS:
                it = fresh()
                it.anchors["Scores._threshold_at_ratio"] = _anchor_positional(method_node(it, "_threshold_at_ratio"), "TAR")
                if len(method_node(it, "_threshold_at_ratio").args.args) != 6:
                    raise NoFit("signature of _threshold_at_ratio")
                o = Obj(scores_cls(it), sc, ec)
                f = it.getattr(o, "threshold_at_" + name)
                v = it.call(f, [P("r")], {"method": P("method")})
                rows.append(fit_wrap(v, it.guards))
            if any(r != rows[0] for r in rows):
                raise NoFit("the wrapper depends on score_class / equal_class")
            return rows[0]
        run("wrap", name, t_wrap)

    # (d1) _threshold_at_ratio: the arguments of the call of _invert_increasing_function
    for inc in (False, True):
        for rc in LABELS:
            for sc, ec in CFGS:
                for m in METHODS:
                    def t_norm(inc=inc, rc=rc, sc=sc, ec=ec, m=m):
                        it = fresh()
                        it.anchors["Scores._invert_increasing_function"] = _anchor_positional(
                            method_node(it, "_invert_increasing_function"), "IIF")
                        if len(method_node(it, "_invert_increasing_function").args.args) != 4:
                            raise NoFit("signature of _invert_increasing_function")
                        o = Obj(scores_cls(it), sc, ec)
                        v = it.call(it.getattr(o, "_threshold_at_ratio"), [P("scores"), P("r"), inc, Label(rc), m], {})
                        if it.guards:
                            raise NoFit(f"guards {it.guards!r}")
                        return fit_norm(v)
                    run("norm", [inc, rc, sc, ec, m], t_norm)

    # (d2) _invert_increasing_function
    for lc in (True, False):
        for m in METHODS:
            def t_inv(lc=lc, m=m):
                it = fresh()
                o = Obj(scores_cls(it), "pos", "pos")
                v = it.call(it.getattr(o, "_invert_increasing_function"), [P("scores"), P("r"), lc, m], {})
                if it.guards:
                    raise NoFit(f"guards {it.guards!r}")
                return fit_inv(v)
            run("inv", [lc, m], t_inv)

    # (e) roc_curve: orientation of the support thresholds; the rates roc() evaluates
    def thr_anchors(it):
        c = scores_cls(it)
        for nm, (node, kind) in c.methods.items():
            if nm.startswith("threshold_at_"):
                it.anchors[f"Scores.{nm}"] = _anchor_positional(node, "THR_" + nm)
        it.anchors["Scores.cm"] = _anchor_positional(c.methods["cm"][0], "CM")

    for x in XAXES:
        for sc in LABELS:
            def t_orient(x=x, sc=sc):
                rows = []
                for ec in LABELS:
                    it = fresh()
                    thr_anchors(it)
                    o = Obj(scores_cls(it), sc, ec, "scores")
                    f = it.modules["roc_curve"].lookup("_find_support_thresholds")
                    v = it.call(f, [], {"scores": o, "fnr": None, "fpr": None, "thresholds": None,
                                        "nb_points": P("nb_points"), "nb_extra_points": None,
                                        "x_axis": x if x is not None else "not-an-axis"})
                    rows.append(fit_orient(v))
                if rows[0] != rows[1]:
                    raise NoFit("the orientation depends on equal_class")
                return rows[0]
            run("orient", [x, sc], t_orient)

    def t_roc():
        it = fresh()
        thr_anchors(it)
        f = it.modules["roc_curve"].lookup("_find_support_thresholds")
        it.anchors["_find_support_thresholds"] = _anchor_positional(f.node, "FST", skip_self=False)
        if [a.arg for a in f.node.args.args] != ["scores", "fnr", "fpr", "thresholds", "nb_points", "nb_extra_points", "x_axis"]:
            raise NoFit("signature of _find_support_thresholds")
        o = Obj(scores_cls(it), "pos", "pos", "scores")
        v = it.call(it.modules["roc_curve"].lookup("roc"), [o], {k: P(k) for k in ("fnr", "fpr", "thresholds", "nb_points", "x_axis")})
        return fit_roc(v, it)
    run("roc", "roc", t_roc)
    return {"tables": tables, "notes": notes}


_TRANSLATE_CACHE = {}


def source_hash(repo: Path):
    h = hashlib.sha256()
    for n in ("scores", "roc_curve"):
        h.update((Path(repo) / "score_analysis" / f"{n}.py").read_bytes())
    h.update(Path(__file__).read_bytes())
    return h.hexdigest()[:32]


def translate_cached(repo: Path):
    """translator run shared between the properties: cached on the text of the two sources (+ this file)"""
    key = source_hash(repo)
    if key in _TRANSLATE_CACHE:
        return _TRANSLATE_CACHE[key], True
    cdir = WORK / "dectables_cache"
    cdir.mkdir(parents=True, exist_ok=True)
    cf = cdir / f"tr_{key}.json"
    if cf.exists() and os.environ.get("VERIF_DECTABLES_NOCACHE") != "1":
        try:
            res = json.loads(cf.read_text())
            _TRANSLATE_CACHE[key] = res
            return res, True
        except Exception:  # noqa: BLE001
            pass
    old = sys.getrecursionlimit()
    sys.setrecursionlimit(max(old, 6000))
    try:
        res = translate(repo)
    finally:
        sys.setrecursionlimit(old)
    try:
        tmp = cf.with_suffix(f".{os.getpid()}.tmp")
        tmp.write_text(json.dumps(res))
        tmp.replace(cf)
    except OSError:
        pass
    _TRANSLATE_CACHE[key] = res
    return res, False


# --------------------------------------------------------------------------------------
# generated Lean file
# --------------------------------------------------------------------------------------
TABLE_IDS = ["cm", "swap", "wrap", "norm", "inv", "orient", "roc"]
TABLE_FUNCS = {"cm": "Scores.cm", "swap": "Scores.swap", "wrap": "Scores.threshold_at_<name>",
               "norm": "Scores._threshold_at_ratio", "inv": "Scores._invert_increasing_function",
               "orient": "roc_curve._find_support_thresholds", "roc": "roc_curve.roc"}
WNAME = {"acceptance_rate": "acceptanceRate", "rejection_rate": "rejectionRate"}


def L(lbl):
    return f".{lbl}"


def B(b):
    return "true" if b else "false"


def lean_cfg(sc, ec):
    return f"(⟨.{sc}, .{ec}⟩ : Cfg)"


def lean_opt(row, f):
    return "none" if row is None else f"some ({f(row)})"


def lean_cell(c):
    return f"⟨.{c['arr']}, .{c['side']}, .{c['part']}, .{c['easy']}⟩"


def lean_rexp(s):
    # the translator's serialisation is already a Lean term up to the constructor dots
    return re.sub(r"\b(r|lit|easyPos|easyNeg|lenPos|lenNeg|add|sub|mul|div|max|min|ifPos)\b", r".\1", s)


def lean_rows(tables):
    out = {}
    out["cm"] = [f"({lean_cfg(*r['key'])}, " + lean_opt(r["row"], lambda x: "(⟨" + ", ".join(
        lean_cell(x[c]) for c in ("tp", "fn", "fp", "tn")) + "⟩ : CmRow)") + ")" for r in tables["cm"]]
    out["swap"] = [f"({lean_cfg(*r['key'])}, " + lean_opt(r["row"], lambda x: (
        f"(⟨.{x['pos']}, .{x['neg']}, .{x['nb_easy_pos']}, .{x['nb_easy_neg']}, .{x['score_class']}, "
        f".{x['equal_class']}, {B(x['is_sorted'])}⟩ : SwapRow)")) + ")" for r in tables["swap"]]
    out["wrap"] = [f"(WName.{WNAME.get(r['key'], r['key'])}, " + lean_opt(r["row"], lambda x: (
        f"(⟨.{x['guard']}, .{x['arr']}, {lean_rexp(x['target'])}, {B(x['increasing'])}, .{x['ratio_class']}, "
        f"{B(x['method_pass'])}⟩ : WrapRow)")) + ")" for r in tables["wrap"]]
    out["norm"] = [f"((⟨{B(r['key'][0])}, .{r['key'][1]}, ⟨.{r['key'][2]}, .{r['key'][3]}⟩, .{r['key'][4]}⟩ : NormKey), "
                   + lean_opt(r["row"], lambda x: f"(⟨{x['flips']}, {B(x['left_continuous'])}, .{x['method']}⟩ : NormRow)")
                   + ")" for r in tables["norm"]]
    out["inv"] = [f"(({B(r['key'][0])}, Method.{r['key'][1]}), " + lean_opt(r["row"], lambda x: (
        f"(⟨{B(x['shift'])}, .{x['body']}, [{', '.join(x['stores'])}]⟩ : InvRow)")) + ")" for r in tables["inv"]]
    out["orient"] = [f"((({'none' if r['key'][0] is None else 'some XAxis.' + r['key'][0]}), Label.{r['key'][1]}), "
                     + lean_opt(r["row"], lambda x: f"(⟨{B(x['raises'])}, {B(x['reversed'])}⟩ : OrientRow)") + ")"
                     for r in tables["orient"]]
    out["roc"] = ["((), " + lean_opt(r["row"], lambda x: f"(⟨.{x['fnr']}, .{x['fpr']}⟩ : RocRow)") + ")"
                  for r in tables["roc"]]
    return out


def generate_text(tables, module, stated):
    """stated = (ok, [(table, idx)], covered): the result the theorem claims"""
    rows = lean_rows(tables)
    ok, bad, covered = stated
    lines = ["-- GENERATED by harness/dectables.py from the source; do not edit",
             "import SA.Model.DecTables", "set_option maxRecDepth 100000", "open SA SA.DecTables",
             f"namespace SA.{module}", ""]
    lines.append("def translated : Translated where")
    for t in TABLE_IDS:
        lines.append(f"  {t} := [")
        lines.append(",\n".join("    " + r for r in rows[t]))
        lines.append("  ]")
    bad_s = "[" + ", ".join(f"({a}, {b})" for a, b in bad) + "]"
    lines += ["", "#eval (report translated).forM' IO.println" if False else
              "#eval do\n  for l in report translated do IO.println l\n  IO.println s!\"RESULT {repr (checkTables translated)}\"",
              "",
              f"theorem generated_dectables_ok : checkTables translated = ⟨{B(ok)}, {bad_s}, {covered}⟩ := by decide +kernel",
              "", "#print axioms generated_dectables_ok", f"end SA.{module}"]
    return "\n".join(lines) + "\n"


def run_lean_text(text, module, timeout=600):
    """compile the generated text, cached on the text (up to the module name), the checker source and the toolchain"""
    h = hashlib.sha256()
    h.update(text.replace(module, "GeneratedDecTables_X").encode())
    for dep in (LEAN / "SA" / "Model" / "DecTables.lean", LEAN / "SA" / "Model" / "Roc.lean",
                LEAN / "SA" / "Model" / "Threshold.lean", LEAN / "SA" / "Model" / "Basic.lean",
                LEAN / "lean-toolchain", LEAN / "lake-manifest.json"):
        if dep.exists():
            h.update(dep.read_bytes())
    cdir = WORK / "dectables_cache"
    cdir.mkdir(parents=True, exist_ok=True)
    cf = cdir / (h.hexdigest()[:32] + ".json")
    if cf.exists() and os.environ.get("VERIF_DECTABLES_NOCACHE") != "1":
        try:
            c = json.loads(cf.read_text())
            return c["rc"], c["text"], 0.0, True
        except Exception:  # noqa: BLE001
            pass
    f = WORK / f"{module}.lean"
    f.write_text(text)
    t0 = time.time()
    try:
        p = subprocess.run(["lake", "env", "lean", str(f)], cwd=LEAN, capture_output=True, text=True, timeout=timeout)
        rc, out = p.returncode, p.stdout + p.stderr
    except subprocess.TimeoutExpired:
        rc, out = 124, "timeout"
    dt = time.time() - t0
    out = out.replace(module, "GeneratedDecTables_X")
    try:
        tmp = cf.with_suffix(f".{os.getpid()}.tmp")
        tmp.write_text(json.dumps({"rc": rc, "text": out}))
        tmp.replace(cf)
        old = sorted(cdir.glob("*.json"), key=lambda p_: p_.stat().st_mtime)
        for p_ in old[:-80]:
            p_.unlink()
    except OSError:
        pass
    return rc, out, dt, False


ROW_RE = re.compile(r"^ROW table=(\d+) idx=(\d+) verdict=(\w+)(?: model=«(.*?)» got=«(.*?)»)?\s*$", re.S)


def parse_report(text):
    verdicts, details = {}, {}
    # report lines may contain line breaks inside «...»: split on "ROW "
    for chunk in re.split(r"(?m)^(?=ROW table=|RESULT )", text):
        m = ROW_RE.match(chunk.strip())
        if m:
            k = (int(m.group(1)), int(m.group(2)))
            verdicts[k] = m.group(3)
            if m.group(4) is not None:
                details[k] = (" ".join(m.group(4).split()), " ".join(m.group(5).split()))
    axioms = None
    m = re.search(r"'[^']*generated_dectables_ok' depends on axioms: \[([^\]]*)\]", text, flags=re.S)
    if m:
        axioms = [a.strip() for a in m.group(1).replace("\n", " ").split(",") if a.strip()]
    elif re.search(r"'[^']*generated_dectables_ok' does not depend on any axioms", text):
        axioms = []
    errors = [ln for ln in text.splitlines() if ": error" in ln]
    return verdicts, details, axioms, errors


def analyse(repo=None, keep=False):
    """translate, state the optimistic theorem, let the kernel check it; on failure read the report, state the
    mismatches and check again.  -> result dictionary (never raises for a translation problem)"""
    repo = Path(repo or os.environ.get("SA_REPO", "/repo")).resolve()
    WORK.mkdir(exist_ok=True)
    t0 = time.time()
    tr, tr_cached = translate_cached(repo)
    tables = tr["tables"]
    t_translate = time.time() - t0
    module = f"GeneratedDecTables_{os.getpid()}"
    known = sum(1 for t in TABLE_IDS for r in tables[t] if r["row"] is not None)
    text = generate_text(tables, module, (True, [], known))
    rc, out, t_lean, cached = run_lean_text(text, module)
    verdicts, details, axioms, errors = parse_report(out)
    rounds = 1
    if (rc != 0 or axioms is None) and verdicts:
        bad = sorted(k for k, v in verdicts.items() if v == "mismatch")
        cov = sum(1 for v in verdicts.values() if v == "ok")
        text = generate_text(tables, module, (not bad, bad, cov))
        rc, out, t2, cached2 = run_lean_text(text, module)
        t_lean += t2
        cached = cached and cached2
        verdicts, details, axioms, errors = parse_report(out)
        rounds = 2
    if not keep:
        try:
            (WORK / f"{module}.lean").unlink()
        except OSError:
            pass
    rows = []
    for ti, t in enumerate(TABLE_IDS):
        for i, r in enumerate(tables[t]):
            v = verdicts.get((ti, i), "?")
            rows.append({"table": t, "function": TABLE_FUNCS[t], "key": r["key"], "verdict": v,
                         "why": r["why"] if r["row"] is None else ("rescaling expression differs from the model's "
                                                                   "syntactically but agrees at every probe point"
                                                                   if v == "unknown" else ""),
                         "translated": r["row"], "model": details.get((ti, i), (None, None))[0],
                         "got": details.get((ti, i), (None, None))[1]})
    bad_ax = sorted(set(axioms or []) - {"propext", "Classical.choice", "Quot.sound"})
    proved = rc == 0 and axioms is not None and not bad_ax and not errors
    complete = len(verdicts) == len(rows) and all(r["verdict"] in ("ok", "mismatch", "unknown") for r in rows)
    mism = [r for r in rows if r["verdict"] == "mismatch"]
    res = {"repo": str(repo), "status": "harness-problem" if not (proved and complete) else "mismatch" if mism else "ok",
           "rows": rows, "mismatches": mism, "unknowns": [r for r in rows if r["verdict"] == "unknown"],
           "covered": sum(1 for r in rows if r["verdict"] == "ok"), "total": len(rows),
           "axioms": axioms, "lean_rc": rc, "lean_errors": errors[:6], "lean_rounds": rounds,
           "lean_result_cached": cached, "translation_cached": tr_cached,
           "wall_s": {"translate": round(t_translate, 2), "lean": round(t_lean, 2)}}
    if res["status"] == "harness-problem":
        res["problem"] = ("; ".join(errors[:2]) or f"lean rc={rc}, report rows {len(verdicts)}/{len(rows)}")[:400]
    return res


# --------------------------------------------------------------------------------------
# integration in ./check (harness/props/c01.py ...: extra_gate_start / extra_gate_finish)
# --------------------------------------------------------------------------------------
PROP_TABLES = {"C01": ["cm"], "C08": ["swap", "cm", "norm", "inv"], "C02": ["wrap", "norm", "inv"],
               "C03": ["wrap", "norm", "inv"], "C09": ["wrap"], "C15": ["orient", "roc"]}
THEOREM = "generated_dectables_ok (decision tables regenerated from the source by harness/dectables.py on this run)"


def start(repo: Path):
    if os.environ.get("VERIF_DECTABLES_OFF") == "1":     # timing comparisons only
        return None
    WORK.mkdir(exist_ok=True)
    out = WORK / f"dectables_result_{os.getpid()}.json"
    p = subprocess.Popen([sys.executable, str(Path(__file__).resolve()), "--repo", str(repo), "--json", str(out),
                          "--quiet"], stdout=subprocess.PIPE, stderr=subprocess.STDOUT, text=True)
    return p, out


def finish(handle, timeout=600):
    p, out = handle
    try:
        log, _ = p.communicate(timeout=timeout)
    except subprocess.TimeoutExpired:
        p.kill()
        return {"status": "harness-problem", "problem": "decision-table analysis timed out"}
    try:
        res = json.loads(out.read_text())
        out.unlink()
        return res
    except Exception as ex:  # noqa: BLE001
        return {"status": "harness-problem", "problem": f"no result ({type(ex).__name__}): {(log or '')[-300:]}"}


def _short(x):
    return re.sub(r"\bSA\.(DecTables\.)?(\w+\.)?", "", x or "?")


def describe(r):
    got = r.get("got") or json.dumps(r.get("translated"))
    return (f"{r['function']} row {json.dumps(r['key'])}: the source gives {_short(got)}; the model "
            f"(lean/SA/Model/DecTables.lean) has {_short(r.get('model'))}")


def gate_result(res, pid):
    """what ./check needs for property `pid`: problems (broken obligations), theorems, counts, evidence"""
    out = {"problems": [], "theorems": {}, "obligations": 1, "discharged": 0, "notes": [], "evidence_key": "decision_tables"}
    if res.get("status") == "harness-problem":
        why = res.get("problem", "?")
        out["notes"].append(f"DECTABLES-PROBLEM the decision tables could not be evaluated on this tree ({why[:300]}); "
                            "the sampled correspondence run remains the only tie for them")
        out["evidence"] = {"status": "not evaluated (harness problem)", "detail": why[:600]}
        out["obligations"] = 0
        return out
    mine = set(PROP_TABLES.get(pid, TABLE_IDS))
    rows = [r for r in res["rows"] if r["table"] in mine]
    for r in rows:
        if r["verdict"] == "mismatch":
            out["problems"].append("decision table (regenerated from the source): definite mismatch in " + describe(r))
    if not out["problems"]:
        out["discharged"] = 1
        out["theorems"][THEOREM] = res.get("axioms")
    unk = [r for r in rows if r["verdict"] == "unknown"]
    out["evidence"] = {
        "status": "mismatch" if out["problems"] else "ok",
        "what": "Python ast -> decision tables (partial evaluation over the flag domain, harness/dectables.py), compared by "
                "the Lean kernel (decide +kernel, generated file) with the tables of the model (lean/SA/Model/DecTables.lean); "
                "a row equal to the model's denotes the model's function for all inputs (lean/SA/Theorems/DecTables.lean)",
        "tables_of_this_property": sorted(mine),
        "rows": len(rows), "rows_ok": sum(1 for r in rows if r["verdict"] == "ok"),
        "rows_mismatch": [describe(r) for r in rows if r["verdict"] == "mismatch"],
        "rows_not_covered": [{"function": r["function"], "key": r["key"], "why": r["why"][:200]} for r in unk][:40],
        "all_tables": {"rows": res["total"], "ok": res["covered"], "mismatch": len(res["mismatches"]),
                       "unknown": len(res["unknowns"])},
        "generated_theorem_axioms": res.get("axioms"), "lean_result_cached": res.get("lean_result_cached"),
        "translation_cached": res.get("translation_cached"), "wall_s": res.get("wall_s"),
    }
    if unk:
        out["notes"].append(f"DECTABLES-NOTE {len(unk)} of {len(rows)} decision-table rows of {pid} are not covered by the "
                            f"translator on this tree (e.g. {unk[0]['function']} {json.dumps(unk[0]['key'])}: {unk[0]['why'][:120]})")
    return out


def main(argv=None):
    import argparse
    ap = argparse.ArgumentParser()
    ap.add_argument("--repo", default=None)
    ap.add_argument("--json", default=None)
    ap.add_argument("--keep", action="store_true")
    ap.add_argument("-v", action="store_true")
    ap.add_argument("--quiet", action="store_true")
    a = ap.parse_args(argv)
    try:
        res = analyse(a.repo, keep=a.keep)
    except Exception as ex:  # noqa: BLE001 - a crash of the tool is a harness problem, never a verdict
        import traceback
        res = {"status": "harness-problem", "problem": f"{type(ex).__name__}: {ex}", "traceback": traceback.format_exc()[-1500:]}
    if a.json:
        Path(a.json).write_text(json.dumps(res, indent=1, default=str))
    if a.quiet:
        return 0 if res["status"] == "ok" else 1
    if "rows" not in res:
        print("dectables: harness problem:", res.get("problem"), res.get("traceback", ""))
        return 2
    print(f"dectables: {res['total']} rows: ok={res['covered']} mismatch={len(res['mismatches'])} "
          f"unknown={len(res['unknowns'])}; lean rc={res['lean_rc']} rounds={res['lean_rounds']} {res['wall_s']} "
          f"cached={res['lean_result_cached']}; status={res['status']}")
    for r in res["mismatches"]:
        print("MISMATCH", describe(r))
    per = {}
    for r in res["unknowns"]:
        per.setdefault(r["table"], []).append(r)
    for t, rs in per.items():
        print(f"unknown   {TABLE_FUNCS[t]}: {len(rs)} rows, e.g. {json.dumps(rs[0]['key'])}: {rs[0]['why'][:160]}")
    if a.v:
        for r in res["rows"]:
            print(f"  {r['verdict']:8s} {r['function']} {json.dumps(r['key'])} {json.dumps(r['translated'])}")
    for e in res.get("lean_errors", [])[:5]:
        print("lean:", e)
    if res["status"] == "harness-problem":
        print("problem:", res.get("problem"))
    return 0 if res["status"] == "ok" else 1


if __name__ == "__main__":
    sys.exit(main())
