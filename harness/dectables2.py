"""
More decision tables regenerated from the source on every run (C11 / C12 / C13 / C18 / C19); extends harness/dectables.py.

  smeth    Scores._sampling_method                 (C11)   key (sampling_method, smoothing)
  bsample  Scores.bootstrap_sample dispatch        (C11)   key (resolved method, smoothing, stratified_sampling, ratio given)
  cidisp   utils.bootstrap_ci                      (C13)   key (method, theta_hat given): dispatch, levels, adjusted levels, p0, a
  d2b/b2d  doc_fraud label translations            (C19)
  fraud    FraudScores.__init__                    (C19)   key score_class: super().__init__ arguments, flags, range checks
  gsmeth   GroupScores._sampling_method            (C12)
  gsample  GroupScores.bootstrap_sample dispatch   (C12)
  norm     showbias._apply_normalization           (C18)

The partial evaluator of dectables.py is reused (`Interp2` adds: more modules, inheritance, Enum classes, `super()`,
configuration records, opaque callables, symbolic loop bounds, distribution of calls / comparisons over an `ite` of
constants).  Rows are normalised into the IR of lean/SA/Model/DecTables2.lean; a generated Lean file under .work/ states

    theorem generated_dectables2_ok : checkTables2 translated = <true, [], covered> := by decide +kernel

and the kernel checks it (cached on the text).  Anything the evaluator cannot follow is `unknown` (never an alarm).

    python harness/dectables2.py [-v] [--repo DIR] [--json OUT] [--keep]
"""
from __future__ import annotations

import ast
import hashlib
import json
import os
import re
import subprocess
import sys
import time
from pathlib import Path

sys.path.insert(0, str(Path(__file__).resolve().parent))
import dectables as D  # noqa: E402
from dectables import (GiveUp, NoFit, Sym, Label, Obj, Func, Builtin, Namespace, ClassVal, Module, Env, Interp, P,  # noqa: E402
                       is_sym, is_op, is_num, is_field, same, comm2, _opq, _raise)

VERIF = D.VERIF
LEAN = D.LEAN
WORK = D.WORK


# --------------------------------------------------------------------------------------
# extra values
# --------------------------------------------------------------------------------------
class Rec:
    """a record with concrete attributes (BootstrapConfig)"""
    def __init__(self, name, **attrs):
        self.name, self.attrs = name, attrs

    def __repr__(self):
        return f"<{self.name}>"


class Opaque:
    """a callable the code may only call / pass around"""
    def __init__(self, name):
        self.name = name

    def __repr__(self):
        return f"<callable {self.name}>"


class EnumMember:
    def __init__(self, cls, name, value):
        self.cls, self.name, self.value = cls, name, value

    def __repr__(self):
        return f"{self.cls.name}.{self.name}"


class SuperProxy:
    def __init__(self, obj):
        self.obj = obj


def is_enum(cv):
    return isinstance(cv, ClassVal) and any((isinstance(b, ast.Name) and b.id == "Enum") or
                                            (isinstance(b, ast.Attribute) and b.attr == "Enum") for b in cv.node.bases)


def ite_const(v):
    return is_op(v, "ite", 3) and all(not is_sym(x) for x in v.args[1:])


EXTRA = (("utils", "utils.py"), ("group_scores", "group_scores.py"), ("showbias", "showbias.py"),
         ("doc_fraud", "applications/doc_fraud.py"))


class Interp2(Interp):
    def __init__(self, repo):
        self.calls = []          # log of the anchored calls, in order
        self.load_errors = {}
        super().__init__(repo)
        for name, rel in EXTRA:
            try:
                src = (self.repo / "score_analysis" / rel).read_text()
                self.src[name] = src
                self.modules[name] = None
                self.modules[name] = Module(name, src, self)
                self.fix_classes(self.modules[name])
            except (OSError, SyntaxError, GiveUp, RecursionError) as ex:
                self.modules[name] = None
                self.load_errors[name] = f"{type(ex).__name__}: {ex}"
        self.fix_classes(self.modules["scores"])
        for m in self.modules.values():
            if m is not None:
                m.globals.setdefault("isinstance", Builtin("isinstance", self.b_isinstance))
                m.globals.setdefault("callable", Builtin("callable", self.b_callable))
                m.globals.setdefault("range", Builtin("range", self.b_range))
                m.globals.setdefault("str", Namespace("str"))

    @staticmethod
    def fix_classes(module):
        """property setters must not shadow the property"""
        for cv in module.globals.values():
            if isinstance(cv, ClassVal) and cv.module is module:
                cv.methods = {}
                for s2 in cv.node.body:
                    if isinstance(s2, ast.FunctionDef):
                        if any(isinstance(d, ast.Attribute) and d.attr in ("setter", "deleter") for d in s2.decorator_list):
                            continue
                        decs = {d.id if isinstance(d, ast.Name) else getattr(d, "attr", "") for d in s2.decorator_list}
                        kind = "property" if "property" in decs else "static" if "staticmethod" in decs else \
                            "classmethod" if "classmethod" in decs else "method"
                        cv.methods[s2.name] = (s2, kind)

    # ---- builtins ------------------------------------------------------------------
    def b_isinstance(self, x, t):
        tn = t.name if isinstance(t, (Namespace, ClassVal)) else None
        if tn == "str":
            if isinstance(x, str):
                return True
            if isinstance(x, (Opaque, bool, int, float, Label, EnumMember, Rec)) or x is None:
                return False
        return Sym("call", "isinstance", x, Sym("type", str(tn)))

    def b_callable(self, x):
        if isinstance(x, (Opaque, Func)):
            return True
        if isinstance(x, (str, bool, int, float)) or x is None:
            return False
        return Sym("call", "callable", x)

    def b_range(self, *a):
        if all(isinstance(x, int) for x in a):
            return list(range(*a))
        if len(a) == 1 and is_sym(a[0]):
            return [Sym("anyindex", a[0])]        # the loop body is executed once for a generic index
        raise GiveUp("range over a symbolic bound")

    # ---- imports -------------------------------------------------------------------
    def import_name(self, module, st, al):
        if isinstance(st, ast.Import):
            if al.name in ("scipy", "scipy.stats", "warnings", "pandas"):
                return Namespace(al.asname or al.name.split(".")[0])
            return super().import_name(module, st, al)
        mod = st.module or ""
        last = mod.split(".")[-1]
        order = {"scores": ["scores"], "group_scores": ["group_scores"], "utils": ["utils"],
                 "score_analysis": ["scores", "group_scores"], "": ["scores", "group_scores", "utils"]}.get(last)
        if order and (mod.startswith("score_analysis") or st.level > 0 or mod in ("scores", "group_scores", "utils")):
            for mn in order:
                m = self.modules.get(mn)
                if m is not None:
                    try:
                        return m.lookup(al.name)
                    except (KeyError, GiveUp):      # e.g. typing aliases
                        pass
            return Namespace(al.name)
        return super().import_name(module, st, al)

    # ---- attributes ----------------------------------------------------------------
    def bases(self, cv):
        out = []
        for b in cv.node.bases:
            if isinstance(b, ast.Name):
                try:
                    x = cv.module.lookup(b.id)
                except KeyError:
                    continue
                if isinstance(x, ClassVal):
                    out.append(x)
        return out

    def find_method(self, cv, a, depth=0):
        if a in cv.methods:
            return cv, cv.methods[a]
        if depth < 4:
            for b in self.bases(cv):
                r = self.find_method(b, a, depth + 1)
                if r:
                    return r
        return None

    def getattr(self, v, a):
        if isinstance(v, Rec):
            if a in v.attrs:
                return v.attrs[a]
            raise GiveUp(f"attribute {a} of {v.name}")
        if isinstance(v, EnumMember):
            if a == "name":
                return v.name
            if a == "value":
                return v.value
            raise GiveUp("enum member attribute " + a)
        if isinstance(v, SuperProxy):
            if a == "__init__":
                def rec(*args, **kw):
                    self.calls.append(("super_init", args, kw))
                    return None
                return Builtin("super().__init__", rec)
            raise GiveUp("super()." + a)
        if isinstance(v, Builtin):
            return Builtin(f"{v.name}.{a}", _opq(f"{v.name}.{a}"))
        if isinstance(v, ClassVal) and v.name != "BinaryLabel" and is_enum(v) and a in v.attrs:
            return EnumMember(v, a, self.eval(v.attrs[a], Env(v.module, {})))
        if isinstance(v, Obj) and a not in v.flags and a not in D.FIELDS and a not in v.cls.methods and a not in v.cls.attrs:
            r = self.find_method(v.cls, a)
            if r:
                cv, (node, kind) = r
                f = Func(node, None, cv.module, self_obj=None if kind == "static" else v, name=f"{cv.name}.{a}", kind=kind)
                if kind == "property":
                    return self.call(f, [], {})
                return f
        return super().getattr(v, a)

    # ---- calls ---------------------------------------------------------------------
    def call(self, f, args, kw):
        if isinstance(f, Opaque):
            return Sym("callopaque", f.name, tuple(args), tuple(sorted(kw.items())))
        if isinstance(f, ClassVal) and f.name != "BinaryLabel" and is_enum(f):
            if len(args) == 1 and not kw:
                x = args[0]
                if isinstance(x, EnumMember) and x.cls is f:
                    return x
                if isinstance(x, str):
                    for nm, node in f.attrs.items():
                        if self.eval(node, Env(f.module, {})) == x:
                            return EnumMember(f, nm, x)
                    return Sym("raises", "ValueError")
            raise GiveUp(f"{f.name}(...) of a non-constant")
        if isinstance(f, ClassVal) and f.name == "BinaryLabel" and len(args) == 1 and is_op(args[0], "raises"):
            return args[0]
        if isinstance(f, Builtin) and f.name == "np.divide" and kw:
            return _opq("np.divide")(*args, **kw)
        if isinstance(f, Builtin) and f.name == "np.empty":
            return Sym("empty", tuple(args))
        if isinstance(f, Func) and any(ite_const(x) for x in args) and not kw:
            i = next(k for k, x in enumerate(args) if ite_const(x))
            c, x, y = args[i].args
            a = self.call(f, list(args[:i]) + [x] + list(args[i + 1:]), {})
            b = self.call(f, list(args[:i]) + [y] + list(args[i + 1:]), {})
            return a if same(a, b) else Sym("ite", c, a, b)
        return super().call(f, args, kw)

    def e_Call(self, n, env):
        if isinstance(n.func, ast.Name) and n.func.id == "super" and not n.args:
            try:
                return SuperProxy(env.get("self"))
            except GiveUp:
                raise GiveUp("super() outside a method")
        if any(k.arg is None for k in n.keywords):
            f = self.eval(n.func, env)
            args = self.elts(n.args, env)
            kw = {}
            for k in n.keywords:
                v = self.eval(k.value, env)
                if k.arg is None:
                    if isinstance(v, dict) and all(isinstance(x, str) for x in v):
                        kw.update(v)
                    else:
                        raise GiveUp("**kwargs")
                else:
                    kw[k.arg] = v
            return self.call(f, args, kw)
        return super().e_Call(n, env)

    def bind(self, f, args, kw):
        vals = super().bind(f, args, kw)
        a = f.node.args
        if a.kwarg is not None and a.kwarg.arg not in vals:
            vals[a.kwarg.arg] = {}
        return vals

    def e_Compare(self, n, env):
        if len(n.ops) == 1 and isinstance(n.ops[0], (ast.Eq, ast.NotEq)):
            left, right = self.eval(n.left, env), self.eval(n.comparators[0], env)
            op = "eq" if isinstance(n.ops[0], ast.Eq) else "ne"
            return self.cmp2(op, left, right)
        return super().e_Compare(n, env)

    def cmp2(self, op, left, right):
        for a, b, flip in ((left, right, False), (right, left, True)):
            if ite_const(b) and not is_sym(a):
                c, x, y = b.args
                r1 = self.cmp2(op, a, x) if not flip else self.cmp2(op, x, a)
                r2 = self.cmp2(op, a, y) if not flip else self.cmp2(op, y, a)
                return r1 if same(r1, r2) else Sym("ite", c, r1, r2)
        if isinstance(left, EnumMember) or isinstance(right, EnumMember):
            if isinstance(left, EnumMember) and isinstance(right, EnumMember):
                eq = left.cls is right.cls and left.name == right.name
                return eq if op == "eq" else not eq
            if is_sym(left) or is_sym(right):
                return Sym(op, left, right)
            return op == "ne"
        if isinstance(left, (Opaque, Rec)) or isinstance(right, (Opaque, Rec)):
            eq = left is right
            return eq if op == "eq" else not eq
        return D.compare(op, left, right)

    def e_BinOp(self, n, env):
        op = D.BINOP.get(type(n.op))
        if op is None:
            raise GiveUp("binary operator")
        a, b = self.eval(n.left, env), self.eval(n.right, env)
        try:
            return D.arith(op, a, b)
        except GiveUp:
            if is_sym(a) or is_sym(b):
                return Sym("shapeop", op, a, b)      # e.g. shape tuples: opaque
            raise

    def stmt(self, st, env):
        if isinstance(st, ast.For):
            it_ = self.eval(st.iter, env)
            if is_op(it_, "field", 2) and it_.args[1] == "groups":
                # `for group in self.groups`: the body is executed once for a generic group
                if self.sym_depth:
                    raise GiveUp("generic loop under a symbolic condition")
                self.assign(st.target, Sym("anygroup"), env)
                sig = self.block(st.body, env)
                if sig is not None or st.orelse:
                    raise GiveUp("control flow in a generic loop")
                return None
        return super().stmt(st, env)

    def subscript(self, v, i):
        if isinstance(v, Namespace):
            return v                                  # typing aliases: Union[...], Callable[...]
        if isinstance(v, Obj) and is_op(i, "anygroup"):
            m = self.modules.get("scores")
            o = Obj(m.lookup("Scores"), v.flags["score_class"].value, v.flags["equal_class"].value, "group")
            return o
        return super().subscript(v, i)

    def truth(self, v):
        if isinstance(v, (Opaque, Rec, EnumMember, SuperProxy)):
            return True
        return super().truth(v)


# numpy additions (harmless for the tables of dectables.py: only names that were opaque before)
def _np_random():
    return Namespace("np.random", {})


D.NP.setdefault("random", _np_random())


# --------------------------------------------------------------------------------------
# helpers for the normalisers
# --------------------------------------------------------------------------------------
def call_name(e):
    return e.args[0] if is_op(e, "call") and isinstance(e.args[0], str) else None


def call_parts(e):
    """-> (positional arguments, keyword dict) of an opaque call node"""
    pos, kw = [], {}
    for a in e.args[1:]:
        if is_op(a, "kw", 2):
            kw[a.args[0]] = a.args[1]
        else:
            pos.append(a)
    return pos, kw


def meth_parts(e):
    """Sym('meth', name, obj, *args) -> (name, obj, positional, kw)"""
    pos, kw = [], {}
    for a in e.args[2:]:
        if is_op(a, "kw", 2):
            kw[a.args[0]] = a.args[1]
        else:
            pos.append(a)
    return e.args[0], e.args[1], pos, kw


MKEYS = {"replacement": "replacement", "single_pass": "singlePass", "proportion": "proportion", "dynamic": "dynamic",
         "no-such-method": "unknown"}
CUSTOM = Opaque("custom_sampling_method")


def mkey(v):
    if isinstance(v, str) and v in MKEYS:
        return MKEYS[v]
    if v is CUSTOM:
        return "custom"
    raise NoFit(f"sampling method value {v!r}")


def fit_sizeexp(e):
    if isinstance(e, bool):
        raise NoFit("boolean size")
    if isinstance(e, int) and 0 <= e <= 10 ** 6:
        return f"lit {e}"
    if isinstance(e, float) and e == int(e) and 0 <= e <= 10 ** 6:
        return f"lit {int(e)}"
    if (is_op(e, "len", 1) or (is_op(e, "attr", 2) and e.args[1] == "size")) and is_op(e.args[0], "field", 2) \
            and e.args[0].args[1] in ("pos", "neg"):
        return "lenPos" if e.args[0].args[1] == "pos" else "lenNeg"
    if is_sym(e) and e.op in ("min", "max") and len(e.args) == 2:
        a, b = sorted([fit_sizeexp(e.args[0]), fit_sizeexp(e.args[1])])
        return f"{e.op} ({a}) ({b})"
    raise NoFit(f"size expression {e!r}")


def fit_sizecond(c):
    if is_sym(c) and c.op in ("or", "and") and len(c.args) == 2:
        a, b = sorted([fit_sizecond(c.args[0]), fit_sizecond(c.args[1])])
        return f"{c.op} ({a}) ({b})"
    if is_op(c, "not", 1):
        return f"not ({fit_sizecond(c.args[0])})"
    if is_sym(c) and c.op in ("lt", "le", "gt", "ge") and len(c.args) == 2:
        a, b = fit_sizeexp(c.args[0]), fit_sizeexp(c.args[1])
        if c.op in ("gt", "ge"):
            a, b = b, a
        return f"{'lt' if c.op in ('lt', 'gt') else 'le'} ({a}) ({b})"
    raise NoFit(f"size condition {c!r}")


def fit_sm(v):
    if is_op(v, "ite", 3):
        return {"kind": "cond", "cond": fit_sizecond(v.args[0]), "a": mkey(v.args[1]), "b": mkey(v.args[2])}
    if is_sym(v):
        raise NoFit(f"_sampling_method returns {v!r}")
    return {"kind": "const", "m": mkey(v)}


# ---- bootstrap_sample --------------------------------------------------------------------
def si_tuple(tag):
    return tuple(Sym("si", tag, k) for k in range(4))


def fit_gather(e, tag):
    """self.<arr>[<index list k>] -> (arr, k)"""
    if is_op(e, "index", 2) and is_op(e.args[0], "field", 2) and e.args[0].args[1] in ("pos", "neg") \
            and is_op(e.args[1], "si", 2) and e.args[1].args[0] == tag and e.args[1].args[1] in (0, 1):
        return e.args[0].args[1], ("pos", "neg")[e.args[1].args[1]]
    raise NoFit(f"sampled array {e!r}")


def strip_noise(e):
    for a, b in comm2(e, "add"):
        if call_name(b) == "np.random.normal":
            return a, True
    return e, False


def ctor_vals(v, interp, clsname, modname):
    if not (is_op(v, "new") and v.args[0] == clsname):
        raise NoFit(f"returns {v!r}")
    cls = interp.modules[modname].lookup(clsname)
    init = Func(cls.methods["__init__"][0], None, cls.module, self_obj=Obj(cls, "pos", "pos", "new"),
                name=f"{clsname}.__init__?", kind="method")
    try:
        return interp.bind(init, list(v.args[1]), dict(v.args[2]))
    except GiveUp as ex:
        raise NoFit(str(ex))


def flag_src(vals_by_cfg, name):
    """the constructor argument `name` under the configurations (sc, ec) = (pos, neg) and (neg, pos)"""
    got = []
    for (sc, ec), vals in vals_by_cfg:
        x = vals.get(name)
        x = x.value if isinstance(x, Label) else x
        if x not in ("pos", "neg"):
            raise NoFit(f"constructor argument {name} = {x!r}")
        got.append((sc, ec, x))
    if all(x == sc for sc, ec, x in got):
        return "selfScore"
    if all(x == ec for sc, ec, x in got):
        return "selfEqual"
    if len({x for _, _, x in got}) == 1:
        return got[0][2]
    raise NoFit(f"constructor argument {name} is not a copy of a flag")


TWO_CFGS = [("pos", "neg"), ("neg", "pos")]


def benign_guards(guards):
    """the only guard the dispatch may pass under a symbolic condition: `ratio is None`"""
    for c, exc in guards:
        if not (is_op(c, "isnone", 1) and same(c.args[0], P("ratio")) and exc == "ValueError"):
            raise NoFit(f"guard {c!r}")


def fit_bs_one(v, it):
    si = [c for c in it.calls if c[0] == "si"]
    if is_op(v, "raises", 1):
        if v.args[0] != "ValueError":
            raise NoFit(f"raises {v.args[0]}")
        if len(si) > 1:
            raise NoFit("two calls of _sample_indices")
        return {"kind": "raises", "after": [si[0][1], si[0][2]] if si else None}
    benign_guards(it.guards)
    if is_op(v, "callopaque"):
        if v.args[0] == CUSTOM.name and len(v.args[1]) == 1 and isinstance(v.args[1][0], Obj) and v.args[1][0].tag == "self" \
                and not v.args[2] and not si:
            return {"kind": "custom"}
        raise NoFit(f"custom call {v!r}")
    vals = ctor_vals(v, it, "Scores", "scores")
    if not isinstance(vals.get("is_sorted"), bool):
        raise NoFit("is_sorted")
    pos, neg = vals.get("pos"), vals.get("neg")
    if len(si) == 1:
        _, bl, sp, tag, who = si[0]
        if not isinstance(bl, bool) or not isinstance(sp, bool) or who != "self":
            raise NoFit("by_label / single_pass not constant")
        pos, n1 = strip_noise(pos)
        neg, n2 = strip_noise(neg)
        if n1 != n2:
            raise NoFit("noise on one array only")
        (pa, pi), (na, ni) = fit_gather(pos, tag), fit_gather(neg, tag)
        easy = []
        for k in ("nb_easy_pos", "nb_easy_neg"):
            x = vals.get(k)
            if not (is_op(x, "si", 2) and x.args[0] == tag and x.args[1] in (2, 3)):
                raise NoFit(f"{k} = {x!r}")
            easy.append(("pos", "neg")[x.args[1] - 2])
        return {"kind": "sampled", "byLabel": bl, "singlePass": sp, "smooth": n1, "posArr": pa, "posIdx": pi, "negArr": na,
                "negIdx": ni, "easyPos": easy[0], "easyNeg": easy[1], "is_sorted": vals["is_sorted"], "_vals": vals}
    if si:
        raise NoFit("two calls of _sample_indices")

    def psize(e):
        for a, b in comm2(e, "max"):
            if isinstance(b, int) and not isinstance(b, bool) and 0 <= b <= 1000 and is_op(a, "int", 1):
                for r, n in comm2(a.args[0], "mul"):
                    if same(r, P("ratio")):
                        s = fit_sizeexp(n)
                        if s in ("lenPos", "lenNeg"):
                            return ("pos" if s == "lenPos" else "neg"), b
        raise NoFit(f"sample size {e!r}")

    def choice(e):
        if call_name(e) != "np.random.choice":
            raise NoFit(f"proportion sample {e!r}")
        p_, kw = call_parts(e)
        if len(p_) != 1 or set(kw) != {"size", "replace"} or not isinstance(kw["replace"], bool):
            raise NoFit("arguments of np.random.choice")
        if not (is_op(p_[0], "field", 2) and p_[0].args[1] in ("pos", "neg")):
            raise NoFit("population of np.random.choice")
        return p_[0].args[1], psize(kw["size"]), kw["replace"]

    def peasy(e):
        if is_op(e, "int", 1):
            for r, n in comm2(e.args[0], "mul"):
                if same(r, P("ratio")) and is_op(n, "field", 2) and n.args[1] in ("nb_easy_pos", "nb_easy_neg"):
                    return "pos" if n.args[1] == "nb_easy_pos" else "neg"
        raise NoFit(f"easy count {e!r}")
    (pa, (ps, m1), r1), (na, (ns, m2), r2) = choice(pos), choice(neg)
    if m1 != m2 or r1 != r2:
        raise NoFit("the two classes are sampled differently")
    return {"kind": "proportion", "posArr": pa, "negArr": na, "sizePos": ps, "sizeNeg": ns, "minSize": m1, "replace": r1,
            "easyPos": peasy(vals.get("nb_easy_pos")), "easyNeg": peasy(vals.get("nb_easy_neg")),
            "is_sorted": vals["is_sorted"], "_vals": vals}


def merge_cfg_rows(rows):
    """rows under the two flag configurations -> one row with the flag sources"""
    base = [{k: v for k, v in r.items() if k != "_vals"} for _, r in rows]
    if any(b != base[0] for b in base):
        raise NoFit("the row depends on score_class / equal_class")
    row = base[0]
    if row["kind"] in ("sampled", "proportion"):
        vb = [(cfg, r["_vals"]) for cfg, r in rows]
        row["scoreClass"] = flag_src(vb, "score_class")
        row["equalClass"] = flag_src(vb, "equal_class")
    return row


# ---- bootstrap_ci ------------------------------------------------------------------------
def strip_shape(e):
    """np.asarray / reshape / copy / index by the finite mask or the loop index: transparent for scalar semantics"""
    for _ in range(12):
        if call_name(e) in ("np.reshape", "np.copy", "np.atleast_1d", "np.ravel", "np.asarray", "np.array", "float"):
            p_, _ = call_parts(e)
            if p_:
                e = p_[0]
                continue
        if is_op(e, "index", 2) and (is_op(e.args[1], "anyindex") or call_name(e.args[1]) == "np.isfinite"
                                    or e.args[1] is None or same(e.args[1], ("slice", None, None, None))):
            e = e.args[0]
            continue
        if is_op(e, "meth") and e.args[0] in ("reshape", "copy", "ravel", "flatten"):
            e = e.args[1]
            continue
        break
    return e


def fit_qexp(e, atoms, depth=0):
    """atoms: callable Sym -> atom name | None"""
    if depth > 30:
        raise NoFit("expression too deep")
    e = strip_shape(e)
    if isinstance(e, bool):
        raise NoFit("boolean in an expression")
    if isinstance(e, (int, float)):
        if e == int(e) and 0 <= e <= 1000:
            return f"lit {int(e)}"
        if e == 0.5:
            return "div (lit 1) (lit 2)"
        raise NoFit(f"constant {e}")
    a = atoms(e)
    if a:
        return f"atom .{a}"
    if is_sym(e) and e.op in ("add", "sub", "mul", "div") and len(e.args) == 2:
        return f"{e.op} ({fit_qexp(e.args[0], atoms, depth + 1)}) ({fit_qexp(e.args[1], atoms, depth + 1)})"
    if is_op(e, "neg", 1):
        return f"neg ({fit_qexp(e.args[0], atoms, depth + 1)})"
    raise NoFit(f"expression {e!r}"[:200])


def is_param(e, name):
    return same(strip_shape(e), P(name))


def alpha_atoms(e):
    return "alpha" if is_param(e, "alpha") else None


def ppf_arg(e):
    e = strip_shape(e)
    if call_name(e) == "scipy.stats.norm.ppf":
        p_, _ = call_parts(e)
        if len(p_) == 1:
            return p_[0]
    return None


def axis0_count(e):
    """np.sum(x, axis=0) / np.count_nonzero(x, axis=0) / x.sum(axis=0) -> x"""
    e = strip_shape(e)
    if call_name(e) in ("np.sum", "np.count_nonzero"):
        p_, kw = call_parts(e)
        if len(p_) == 1 and (kw.get("axis") == 0) and set(kw) <= {"axis"}:
            return p_[0]
    if is_op(e, "meth") and e.args[0] == "sum":
        _, obj, p_, kw = meth_parts(e)
        if not p_ and kw.get("axis") == 0 and set(kw) <= {"axis"}:
            return obj
    return None


def is_theta(e):
    return is_param(e, "theta")


def is_theta_hat(e):
    return is_param(e, "theta_hat")


def fit_p0(e):
    e = strip_shape(e)
    if not is_op(e, "div", 2):
        raise NoFit(f"p0 = {e!r}"[:200])
    num, den = axis0_count(e.args[0]), strip_shape(e.args[1])
    if num is None or not (is_sym(num) and num.op in ("lt", "le", "gt", "ge", "eq", "ne") and len(num.args) == 2):
        raise NoFit(f"numerator of p0 {e.args[0]!r}"[:200])
    op = num.op
    if is_theta(num.args[0]) and is_theta_hat(num.args[1]):
        pass
    elif is_theta_hat(num.args[0]) and is_theta(num.args[1]):
        op = {"lt": "gt", "le": "ge", "gt": "lt", "ge": "le", "eq": "eq", "ne": "ne"}[op]
    else:
        raise NoFit("operands of the comparison in p0")
    d = axis0_count(den)
    if d is not None and is_op(d, "not", 1) and call_name(d.args[0]) == "np.isnan" and is_theta(call_parts(d.args[0])[0][0]):
        dk = "notNan"
    elif is_op(den, "index", 2) and is_op(den.args[0], "attr", 2) and den.args[0].args[1] == "shape" \
            and is_theta(den.args[0].args[0]) and den.args[1] == 0:
        dk = "total"
    elif is_op(den, "len", 1) and is_theta(den.args[0]):
        dk = "total"
    else:
        raise NoFit(f"denominator of p0 {den!r}"[:200])
    return {"cmp": op, "denom": dk}, strip_shape(e.args[1])


def dev_power(e):
    """a product / power of (theta - theta_hat) -> exponent"""
    e = strip_shape(e)
    if is_op(e, "sub", 2) and is_theta(e.args[0]) and is_theta_hat(e.args[1]):
        return 1
    if is_op(e, "pow", 2) and isinstance(e.args[1], (int, float)) and e.args[1] == int(e.args[1]) and 1 <= e.args[1] <= 9:
        return dev_power(e.args[0]) * int(e.args[1])
    if is_op(e, "mul", 2):
        return dev_power(e.args[0]) + dev_power(e.args[1])
    raise NoFit(f"power of the deviation {e!r}"[:200])


def nansum0(e):
    e = strip_shape(e)
    if call_name(e) == "np.nansum":
        p_, kw = call_parts(e)
        if len(p_) == 1 and kw.get("axis") == 0 and set(kw) <= {"axis"}:
            return p_[0]
    raise NoFit(f"nansum {e!r}"[:200])


def fit_acc(e):
    e = strip_shape(e)
    guarded = None
    if call_name(e) == "np.divide":
        p_, kw = call_parts(e)
        if len(p_) == 2 and set(kw) == {"out", "where"} and call_name(kw["out"]) == "np.zeros_like":
            w = kw["where"]
            if is_op(w, "ne", 2) and is_num(w.args[1], 0) and same(strip_shape(w.args[0]), strip_shape(p_[1])):
                guarded, num, den = True, p_[0], p_[1]
    elif is_op(e, "div", 2):
        guarded, num, den = False, e.args[0], e.args[1]
    if guarded is None:
        raise NoFit(f"acceleration {e!r}"[:200])
    npow = dev_power(nansum0(num))
    den = strip_shape(den)
    coef, rest = None, None
    for a, b in comm2(den, "mul"):
        if isinstance(a, (int, float)) and not isinstance(a, bool) and a == int(a) and 1 <= a <= 100:
            coef, rest = int(a), strip_shape(b)
    if coef is None:
        raise NoFit(f"denominator of the acceleration {den!r}"[:200])
    outer15 = False
    if is_op(rest, "pow", 2) and rest.args[1] == 1.5:
        outer15, rest = True, rest.args[0]
    elif is_op(rest, "mul", 2):
        for a, b in comm2(rest, "mul"):
            if call_name(b) == "np.sqrt" and same(strip_shape(call_parts(b)[0][0]), strip_shape(a)):
                outer15, rest = True, a
                break
    dpow = dev_power(nansum0(rest))
    return {"numPow": npow, "denCoef": coef, "denPow": dpow, "outer15": outer15, "guarded": guarded}


def find_nodes(e, pred, out=None, depth=0):
    out = [] if out is None else out
    if depth > 60:
        return out
    if pred(e):
        out.append(e)
    if is_sym(e):
        for a in e.args:
            find_nodes(a, pred, out, depth + 1)
    elif isinstance(e, (tuple, list)):
        for a in e:
            find_nodes(a, pred, out, depth + 1)
    return out


def fit_ci(v, it):
    if is_op(v, "raises", 1):
        if v.args[0] != "ValueError":
            raise NoFit(f"raises {v.args[0]}")
        return {"kind": "raises"}
    for c, exc in it.guards:
        if not (is_op(c, "isnone", 1) and same(c.args[0], P("theta_hat")) and exc == "ValueError"):
            raise NoFit(f"guard {c!r}"[:200])
    qs = find_nodes(v, lambda e: call_name(e) == "np.nanquantile")
    if len(qs) != 1:
        raise NoFit(f"{len(qs)} calls of np.nanquantile in the result")
    p_, kw = call_parts(qs[0])
    q = kw.get("q", p_[1] if len(p_) > 1 else None)
    data = p_[0] if p_ else None
    if call_name(q) == "np.stack":
        sp, skw = call_parts(q)
        if data is None or not is_theta(data) or not (len(sp) == 1 and isinstance(sp[0], (list, tuple)) and len(sp[0]) == 2):
            raise NoFit("quantile branch: arguments of np.nanquantile")
        return {"kind": "quantile", "lo": fit_qexp(sp[0][0], alpha_atoms), "hi": fit_qexp(sp[0][1], alpha_atoms)}
    if not (isinstance(q, (list, tuple)) and len(q) == 2):
        raise NoFit(f"levels of np.nanquantile {q!r}"[:200])
    d = strip_shape(data)
    if not ((is_op(d, "index", 2) and is_theta(d.args[0])) or is_theta(d)):
        raise NoFit(f"data of np.nanquantile {data!r}"[:200])
    # NaN guard: the store of the quantiles is the else-branch of `nb_not_nan[j] == 0`
    guards = find_nodes(v, lambda e: is_op(e, "ite", 3) and find_nodes(e.args[2], lambda x: x is qs[0]) and
                        not find_nodes(e.args[1], lambda x: x is qs[0]))
    levels = []
    info = {}
    for lv in q:
        lv = strip_shape(lv)
        if call_name(lv) != "scipy.stats.norm.cdf":
            raise NoFit(f"level {lv!r}"[:200])
        z = call_parts(lv)[0][0]
        masked = False
        z = strip_shape(z)
        if is_op(z, "where", 3) and call_name(z.args[0]) == "np.isfinite":
            base = strip_shape(z.args[2])
            if ppf_arg(base) is None or ppf_arg(call_parts(z.args[0])[0][0]) is None:
                raise NoFit("masked store into something that is not z0")
            masked, z = True, z.args[1]
        state = {}

        def atoms(e, state=state):
            pa = ppf_arg(e)
            if pa is not None:
                pa_s = strip_shape(pa)
                if is_op(pa_s, "div", 2) and axis0_count(pa_s.args[0]) is not None:
                    state.setdefault("p0", pa_s)
                    if not same(state["p0"], pa_s):
                        raise NoFit("two different p0")
                    return "z0"
                state.setdefault("zarg", pa)
                if not same(state["zarg"], pa):
                    raise NoFit("two different z_alpha in one level")
                return "zAlpha"
            e2 = strip_shape(e)
            if call_name(e2) == "np.divide" or (is_op(e2, "div", 2) and find_nodes(e2, lambda x: call_name(x) == "np.nansum")
                                               and not find_nodes(e2, lambda x: ppf_arg(x) is not None)):
                state.setdefault("acc", e2)
                if not same(state["acc"], e2):
                    raise NoFit("two different accelerations")
                return "a"
            return None
        zexp = fit_qexp(z, atoms)
        if "p0" not in state or "zarg" not in state:
            raise NoFit("adjusted level without z0 / z_alpha")
        levels.append({"z": zexp, "arg": fit_qexp(state["zarg"], alpha_atoms), "masked": masked, "p0": state["p0"],
                       "acc": state.get("acc")})
    lo, hi = levels
    if not same(lo["p0"], hi["p0"]) or lo["masked"] != hi["masked"] or (lo["acc"] is None) != (hi["acc"] is None) \
            or (lo["acc"] is not None and not same(lo["acc"], hi["acc"])):
        raise NoFit("lower and upper level are built differently")
    p0, den = fit_p0(lo["p0"])
    nan_guard = False
    for g in guards:
        c = g.args[0]
        for a, b in comm2(c, "eq"):
            if is_num(b, 0) and same(strip_shape(a), den):
                nan_guard = True
    info = {"kind": "adjusted", "p0": p0, "acc": None if lo["acc"] is None else fit_acc(lo["acc"]), "loArg": lo["arg"],
            "hiArg": hi["arg"], "zLo": lo["z"], "zHi": hi["z"], "masked": lo["masked"], "nanGuard": nan_guard}
    return info


# ---- doc_fraud ---------------------------------------------------------------------------
def fit_check(c):
    """np.any(self.<arr> op lit) or np.any(self.<arr> op lit)"""
    if not is_op(c, "or", 2):
        raise NoFit(f"range check {c!r}"[:200])
    out = []
    for part in c.args:
        if call_name(part) != "np.any":
            raise NoFit(f"range check {part!r}"[:200])
        x = call_parts(part)[0][0]
        if not (is_sym(x) and x.op in ("lt", "le", "gt", "ge", "eq", "ne") and len(x.args) == 2 and is_op(x.args[0], "field", 2)
                and x.args[0].args[1] in ("pos", "neg") and isinstance(x.args[1], (int, float)) and not isinstance(x.args[1], bool)
                and x.args[1] == int(x.args[1]) and 0 <= x.args[1] <= 100):
            raise NoFit(f"range check {x!r}"[:200])
        out.append((x.args[0].args[1], x.op, int(x.args[1])))
    if out[0][0] != out[1][0]:
        raise NoFit("one check on two arrays")
    return {"arr": out[0][0], "lowOp": out[0][1], "low": out[0][2], "highOp": out[1][1], "high": out[1][2]}


# --------------------------------------------------------------------------------------
# the tables
# --------------------------------------------------------------------------------------
TABLE_IDS = ["smeth", "bsample", "cidisp", "d2b", "b2d", "fraud", "gsmeth", "gsample", "norm"]
TABLE_FUNCS = {"smeth": "Scores._sampling_method", "bsample": "Scores.bootstrap_sample", "cidisp": "utils.bootstrap_ci",
               "d2b": "doc_fraud.doc_to_binary_label", "b2d": "doc_fraud.binary_to_doc_label",
               "fraud": "doc_fraud.FraudScores.__init__", "gsmeth": "GroupScores._sampling_method",
               "gsample": "GroupScores.bootstrap_sample", "norm": "showbias._apply_normalization"}
METHOD_VALUES = [("replacement", "replacement"), ("singlePass", "single_pass"), ("proportion", "proportion"),
                 ("dynamic", "dynamic"), ("unknown", "no-such-method"), ("custom", CUSTOM)]
STRATS = [("none", None), ("byLabel", "by_label"), ("other", "no-such-stratification")]
GSTRATS = [("none", None), ("byLabel", "by_label"), ("byGroup", "by_group"), ("unknown", "no-such-stratification")]


def make_config(method, strat, smoothing, ratio):
    return Rec("BootstrapConfig", nb_samples=1000, bootstrap_method="bca", sampling_method=method,
               stratified_sampling=strat, smoothing=smoothing, ratio=ratio)


def translate(repo: Path):
    repo = Path(repo)
    tables = {k: [] for k in TABLE_IDS}

    def fresh():
        return Interp2(repo)

    def cls_of(it, mod, name):
        m = it.modules.get(mod)
        if m is None:
            raise GiveUp(f"module {mod} not loaded ({it.load_errors.get(mod, '?')})")
        try:
            c = m.lookup(name)
        except KeyError:
            raise GiveUp(f"{name} not found in {mod}")
        if not isinstance(c, ClassVal):
            raise GiveUp(f"{name} is not a class")
        return c

    def func_of(it, mod, name):
        m = it.modules.get(mod)
        if m is None:
            raise GiveUp(f"module {mod} not loaded ({it.load_errors.get(mod, '?')})")
        try:
            f = m.lookup(name)
        except KeyError:
            raise GiveUp(f"{name} not found in {mod}")
        if not isinstance(f, Func):
            raise GiveUp(f"{name} is not a function")
        return f

    def run(table, key, thunk):
        try:
            row = thunk()
            tables[table].append({"key": key, "row": row, "why": ""})
        except (GiveUp, NoFit) as ex:
            tables[table].append({"key": key, "row": None, "why": f"{type(ex).__name__}: {ex}"[:300]})
        except RecursionError:
            tables[table].append({"key": key, "row": None, "why": "recursion limit"})

    def sampling_anchors(it, method_value):
        def a_sm(vals, _m=method_value):
            it.calls.append(("sm",))
            return _m

        def a_si(vals):
            tag = len(it.calls)
            it.calls.append(("si", vals.get("by_label"), vals.get("single_pass"), tag, getattr(vals.get("self"), "tag", "?")))
            return si_tuple(tag)
        it.anchors["Scores._sampling_method"] = a_sm
        it.anchors["GroupScores._sampling_method"] = a_sm
        it.anchors["Scores._sample_indices"] = a_si

    # (f1) Scores._sampling_method
    for mk_, mv in METHOD_VALUES:
        for sm in (False, True):
            def t_sm(mv=mv, sm=sm):
                rows = []
                for sc, ec in TWO_CFGS:
                    it = fresh()
                    o = Obj(cls_of(it, "scores", "Scores"), sc, ec)
                    v = it.call(it.getattr(o, "_sampling_method"), [make_config(mv, None, sm, None)], {})
                    if it.guards:
                        raise NoFit(f"guards {it.guards!r}"[:200])
                    rows.append(fit_sm(v))
                if rows[0] != rows[1]:
                    raise NoFit("the row depends on score_class / equal_class")
                return rows[0]
            run("smeth", [mk_, sm], t_sm)

    # (f2) Scores.bootstrap_sample
    for mk_, mv in METHOD_VALUES:
        if mk_ == "dynamic":
            continue
        for sm in (False, True):
            for sk, sv in STRATS:
                for rg in (False, True):
                    def t_bs(mv=mv, sm=sm, sv=sv, rg=rg):
                        rows = []
                        for sc, ec in TWO_CFGS:
                            it = fresh()
                            sampling_anchors(it, mv)
                            o = Obj(cls_of(it, "scores", "Scores"), sc, ec)
                            cfg = make_config(mv, sv, sm, P("ratio") if rg else None)
                            v = it.call(it.getattr(o, "bootstrap_sample"), [], {"config": cfg})
                            rows.append(((sc, ec), fit_bs_one(v, it)))
                        return merge_cfg_rows(rows)
                    run("bsample", [mk_, sm, sk, rg], t_bs)

    # (g) utils.bootstrap_ci
    for m in ("quantile", "bc", "bca", "other"):
        for th in (False, True):
            def t_ci(m=m, th=th):
                it = fresh()
                f = func_of(it, "utils", "bootstrap_ci")
                v = it.call(f, [P("theta"), P("theta_hat") if th else None, P("alpha")],
                            {"method": m if m != "other" else "no-such-method"})
                return fit_ci(v, it)
            run("cidisp", [m, th], t_ci)

    # (h) doc_fraud
    for dk, dv in (("genuine", "genuine"), ("fraud", "fraud")):
        def t_d2b(dv=dv):
            it = fresh()
            v = it.call(func_of(it, "doc_fraud", "doc_to_binary_label"), [dv], {})
            v2 = it.call(func_of(it, "doc_fraud", "doc_to_binary_label"),
                         [it.getattr(cls_of(it, "doc_fraud", "DocLabel"), "pos" if dv == "genuine" else "neg")], {})
            if not isinstance(v, Label) or not isinstance(v2, Label) or v.value != v2.value or it.guards:
                raise NoFit(f"doc_to_binary_label returns {v!r} / {v2!r}")
            return v.value
        run("d2b", dk, t_d2b)
    for bk in ("pos", "neg"):
        def t_b2d(bk=bk):
            it = fresh()
            v = it.call(func_of(it, "doc_fraud", "binary_to_doc_label"), [bk], {})
            v2 = it.call(func_of(it, "doc_fraud", "binary_to_doc_label"), [Label(bk)], {})
            if not (isinstance(v, EnumMember) and isinstance(v2, EnumMember) and v.cls.name == "DocLabel" and v.value == v2.value
                    and v.value in ("genuine", "fraud")) or it.guards:
                raise NoFit(f"binary_to_doc_label returns {v!r} / {v2!r}")
            return v.value
        run("b2d", bk, t_b2d)
    for dk in ("genuine", "fraud"):
        def t_fraud(dk=dk):
            it = fresh()
            cls = cls_of(it, "doc_fraud", "FraudScores")
            o = Obj(cls, "pos", "pos")
            o.flags = {}
            init = Func(cls.methods["__init__"][0], None, cls.module, self_obj=o, name="FraudScores.__init__", kind="method")
            args = {"genuines": P("genuines"), "frauds": P("frauds"), "nb_easy_genuines": P("nb_easy_genuines"),
                    "nb_easy_frauds": P("nb_easy_frauds"), "score_class": dk}
            o.flags = {"score_class": Label("pos" if dk == "genuine" else "neg"), "equal_class": Label("pos")}
            it.call(init, [], args)
            sup = [c for c in it.calls if c[0] == "super_init"]
            if len(sup) != 1 or sup[0][1]:
                raise NoFit("super().__init__ is not called exactly once with keywords only")
            kw = sup[0][2]
            scls = cls_of(it, "scores", "Scores")
            sinit = Func(scls.methods["__init__"][0], None, scls.module, self_obj=Obj(scls, "pos", "pos", "new"),
                         name="Scores.__init__?", kind="method")
            try:
                vals = it.bind(sinit, [], dict(kw))
            except GiveUp as ex:
                raise NoFit(str(ex))
            row = {}
            for k, names in (("pos", ("genuines", "frauds")), ("neg", ("genuines", "frauds")),
                             ("nb_easy_pos", ("nb_easy_genuines", "nb_easy_frauds")),
                             ("nb_easy_neg", ("nb_easy_genuines", "nb_easy_frauds"))):
                x = vals.get(k)
                if same(x, P(names[0])):
                    row[k] = "genuine"
                elif same(x, P(names[1])):
                    row[k] = "fraud"
                else:
                    raise NoFit(f"super().__init__ argument {k} = {x!r}")
            for k in ("score_class", "equal_class"):
                x = vals.get(k)
                if not isinstance(x, Label):
                    raise NoFit(f"super().__init__ argument {k} = {x!r}")
                row[k] = x.value
            if not isinstance(vals.get("is_sorted"), bool):
                raise NoFit("is_sorted")
            row["is_sorted"] = vals["is_sorted"]
            # the flags the evaluation of the checks assumed must be the ones the constructor sets
            if row["score_class"] != o.flags["score_class"].value or row["equal_class"] != o.flags["equal_class"].value:
                o.flags = {"score_class": Label(row["score_class"]), "equal_class": Label(row["equal_class"])}
                it.guards, it.calls = [], []
                it.call(init, [], args)
            checks = []
            for c, exc in it.guards:
                if exc != "ValueError":
                    raise NoFit(f"raises {exc}")
                checks.append(fit_check(c))
            row["checks"] = checks
            return row
        run("fraud", dk, t_fraud)

    # (i) GroupScores
    for mk_, mv in METHOD_VALUES:
        for sk, sv in GSTRATS:
            def t_gsm(mv=mv, sv=sv):
                rows = []
                for sm in (False, True):
                    it = fresh()
                    o = Obj(cls_of(it, "group_scores", "GroupScores"), "pos", "neg")
                    v = it.call(it.getattr(o, "_sampling_method"), [make_config(mv, sv, sm, None)], {})
                    if it.guards:
                        raise NoFit(f"guards {it.guards!r}"[:200])
                    rows.append(fit_sm(v))
                if rows[0] != rows[1]:
                    raise NoFit("the row depends on smoothing")
                return rows[0]
            run("gsmeth", [mk_, sk], t_gsm)
    for mk_, mv in METHOD_VALUES:
        if mk_ == "dynamic":
            continue
        for sm in (False, True):
            for sk, sv in GSTRATS:
                def t_gs(mv=mv, sm=sm, sv=sv):
                    rows = []
                    for sc, ec in TWO_CFGS:
                        it = fresh()
                        sampling_anchors(it, mv)
                        cls = cls_of(it, "group_scores", "GroupScores")
                        o = Obj(cls, sc, ec)
                        it.the_self = o
                        v = it.call(it.getattr(o, "bootstrap_sample"), [], {"config": make_config(mv, sv, sm, None)})
                        rows.append(fit_gs(v, it, sc, ec))
                    if rows[0] != rows[1]:
                        raise NoFit("the row depends on score_class / equal_class")
                    return rows[0]
                run("gsample", [mk_, sm, sk], t_gs)

    # (j) showbias._apply_normalization
    for nk, nv in (("byOverall", "by_overall"), ("byMin", "by_min"), ("other", "no-such-mode")):
        def t_norm(nv=nv):
            it = fresh()
            f = func_of(it, "showbias", "_apply_normalization")
            metric = Opaque("metric")
            v = it.call(f, [P("group_metrics"), P("score_object"), metric, nv], {})
            return fit_norm2(v, it)
        run("norm", nk, t_norm)
    return {"tables": tables, "notes": []}


def fit_gs(v, it, sc, ec):
    si = [c for c in it.calls if c[0] == "si"]
    if is_op(v, "raises", 1):
        if v.args[0] != "ValueError":
            raise NoFit(f"raises {v.args[0]}")
        return {"kind": "raises"}
    if it.guards:
        raise NoFit(f"guards {it.guards!r}"[:200])
    if is_op(v, "callopaque"):
        if v.args[0] == CUSTOM.name and len(v.args[1]) == 1 and v.args[1][0] is it.the_self and not v.args[2] and not si:
            return {"kind": "custom"}
        raise NoFit(f"custom call {v!r}"[:200])
    vals = ctor_vals(v, it, "GroupScores", "group_scores")
    for k, want in (("score_class", sc), ("equal_class", ec)):
        x = vals.get(k)
        x = x.value if isinstance(x, Label) else x
        if x != want:
            raise NoFit(f"constructor argument {k} = {x!r}")
    if not isinstance(vals.get("is_sorted"), bool):
        raise NoFit("is_sorted")
    gn = vals.get("group_names")
    if not (is_op(gn, "field", 2) and gn.args[1] == "groups"):
        raise NoFit(f"group_names = {gn!r}")
    if len(si) != 1:
        raise NoFit(f"{len(si)} calls of _sample_indices")
    _, bl, sp, tag, who = si[0]
    if not isinstance(bl, bool) or not isinstance(sp, bool):
        raise NoFit("by_label / single_pass not constant")
    pos, neg = vals.get("pos"), vals.get("neg")
    if is_op(pos, "index", 2):
        if who != "self":
            raise NoFit("_sample_indices of another object")
        # whole object: scores and labels gathered by the same index lists
        for k, arr, idx in (("pos", "pos", 0), ("neg", "neg", 1), ("pos_groups", "pos_groups", 0), ("neg_groups", "neg_groups", 1)):
            x = vals.get(k)
            if not (is_op(x, "index", 2) and is_op(x.args[0], "field", 2) and x.args[0].args[0] == "self" and x.args[0].args[1] == arr
                    and is_op(x.args[1], "si", 2) and x.args[1].args[0] == tag and x.args[1].args[1] == idx):
                raise NoFit(f"constructor argument {k} = {x!r}"[:200])
        return {"kind": "whole", "byLabel": bl, "singlePass": sp, "is_sorted": vals["is_sorted"]}
    # by_group loop (generic group): np.concatenate([group_scores.pos[pos_idx]]) ...
    def one(x):
        if call_name(x) == "np.concatenate":
            p_, _ = call_parts(x)
            if len(p_) == 1 and isinstance(p_[0], (list, tuple)) and len(p_[0]) == 1:
                return p_[0][0]
        if is_op(x, "concat", 1) and len(x.args[0]) == 1:
            return x.args[0][0]
        raise NoFit(f"by_group: {x!r}"[:200])
    if who != "group":
        raise NoFit("by_group: _sample_indices is not called on the group's object")
    for k, arr, idx in (("pos", "pos", 0), ("neg", "neg", 1)):
        x = one(vals.get(k))
        if not (is_op(x, "index", 2) and is_op(x.args[0], "field", 2) and x.args[0].args[0] == "group" and x.args[0].args[1] == arr
                and is_op(x.args[1], "si", 2) and x.args[1].args[0] == tag and x.args[1].args[1] == idx):
            raise NoFit(f"by_group: constructor argument {k} = {x!r}"[:200])
    for k, idx in (("pos_groups", 0), ("neg_groups", 1)):
        x = one(vals.get(k))
        ok = call_name(x) == "np.full"
        if ok:
            p_, _ = call_parts(x)
            ok = len(p_) == 2 and is_op(p_[0], "len", 1) and is_op(p_[0].args[0], "si", 2) and p_[0].args[0].args[1] == idx \
                and is_op(p_[1], "anygroup")
        if not ok:
            raise NoFit(f"by_group: constructor argument {k} = {x!r}"[:200])
    return {"kind": "perGroup", "byLabel": bl, "singlePass": sp, "is_sorted": vals["is_sorted"]}


def fit_norm2(v, it):
    if is_op(v, "raises", 1):
        if v.args[0] != "ValueError":
            raise NoFit(f"raises {v.args[0]}")
        return {"kind": "raises"}
    if it.guards:
        raise NoFit(f"guards {it.guards!r}"[:200])
    if not is_op(v, "where", 3):
        raise NoFit(f"returns {v!r}"[:200])
    c, q, keep = v.args
    if not (is_op(c, "ne", 2) and is_num(c.args[1], 0)):
        raise NoFit(f"condition {c!r}"[:200])
    den = c.args[0]
    if not same(keep, P("group_metrics")):
        raise NoFit(f"zero-divisor value {keep!r}"[:200])
    if call_name(q) == "np.divide":
        p_, kw = call_parts(q)
        if not (len(p_) == 2 and same(p_[0], P("group_metrics")) and same(p_[1], den)):
            raise NoFit("operands of np.divide")
        if "where" in kw and not same(kw["where"], c):
            raise NoFit("where= of np.divide")
    elif is_op(q, "div", 2):
        if not (same(q.args[0], P("group_metrics")) and same(q.args[1], den)):
            raise NoFit("operands of the division")
    else:
        raise NoFit(f"quotient {q!r}"[:200])
    if is_op(den, "callopaque") and den.args[0] == "metric" and len(den.args[1]) == 1 and same(den.args[1][0], P("score_object")):
        d = "overall"
    elif call_name(den) in ("np.min", "np.amin", "np.nanmin?"):
        p_, kw = call_parts(den)
        if not (len(p_) == 1 and same(p_[0], P("group_metrics")) and kw.get("axis") == 0 and set(kw) == {"axis"}):
            raise NoFit("arguments of np.min")
        d = "minGroups"
    elif is_op(den, "meth") and den.args[0] == "min" and same(den.args[1], P("group_metrics")):
        _, _, p_, kw = meth_parts(den)
        if p_ or kw.get("axis") != 0:
            raise NoFit("arguments of .min")
        d = "minGroups"
    else:
        raise NoFit(f"divisor {den!r}"[:200])
    return {"kind": "divide", "d": d, "zeroKeeps": True}


# --------------------------------------------------------------------------------------
# cache
# --------------------------------------------------------------------------------------
SOURCES = ("scores.py", "roc_curve.py", "utils.py", "group_scores.py", "showbias.py", "applications/doc_fraud.py")
_TRANSLATE_CACHE = {}


def source_hash(repo: Path):
    h = hashlib.sha256()
    for n in SOURCES:
        try:
            h.update((Path(repo) / "score_analysis" / n).read_bytes())
        except OSError:
            h.update(b"<missing>")
    h.update(Path(__file__).read_bytes())
    h.update(Path(D.__file__).read_bytes())
    return h.hexdigest()[:32]


def translate_cached(repo: Path):
    key = source_hash(repo)
    if key in _TRANSLATE_CACHE:
        return _TRANSLATE_CACHE[key], True
    cdir = WORK / "dectables2_cache"
    cdir.mkdir(parents=True, exist_ok=True)
    cf = cdir / f"tr_{key}.json"
    if cf.exists() and os.environ.get("VERIF_DECTABLES_NOCACHE") != "1":
        try:
            res = json.loads(cf.read_text())
            _TRANSLATE_CACHE[key] = res
            return res, True
        except Exception:  # noqa: BLE001
            pass
    old = sys.getrecursionlimit()
    sys.setrecursionlimit(max(old, 6000))
    try:
        res = translate(repo)
    finally:
        sys.setrecursionlimit(old)
    try:
        tmp = cf.with_suffix(f".{os.getpid()}.tmp")
        tmp.write_text(json.dumps(res))
        tmp.replace(cf)
    except OSError:
        pass
    _TRANSLATE_CACHE[key] = res
    return res, False


# --------------------------------------------------------------------------------------
# generated Lean file
# --------------------------------------------------------------------------------------
def B(b):
    return "true" if b else "false"


def lean_opt(row, f):
    return "none" if row is None else f"some ({f(row)})"


def dots(s, names):
    return re.sub(r"\b(" + "|".join(names) + r")\b", r".\1", s)


def lean_sizecond(s):
    return dots(s, ["lenPos", "lenNeg", "lit", "min", "max", "lt", "le", "or", "and", "not"])


def lean_qexp(s):
    return dots(s, ["atom", "lit", "add", "sub", "mul", "div", "neg"])


def lean_sm(x):
    if x["kind"] == "const":
        return f"SmRow.const .{x['m']}"
    return f"SmRow.cond ({lean_sizecond(x['cond'])}) .{x['a']} .{x['b']}"


def lean_bs(x):
    if x["kind"] == "raises":
        a = x["after"]
        return "BsRow.raises " + ("none" if a is None else f"(some ({B(a[0])}, {B(a[1])}))")
    if x["kind"] == "custom":
        return "BsRow.custom"
    if x["kind"] == "sampled":
        return (f"BsRow.sampled ⟨{B(x['byLabel'])}, {B(x['singlePass'])}, {B(x['smooth'])}, .{x['posArr']}, .{x['posIdx']}, "
                f".{x['negArr']}, .{x['negIdx']}, .{x['easyPos']}, .{x['easyNeg']}, .{x['scoreClass']}, .{x['equalClass']}, "
                f"{B(x['is_sorted'])}⟩")
    return (f"BsRow.proportion ⟨.{x['posArr']}, .{x['negArr']}, .{x['sizePos']}, .{x['sizeNeg']}, {x['minSize']}, "
            f"{B(x['replace'])}, .{x['easyPos']}, .{x['easyNeg']}, .{x['scoreClass']}, .{x['equalClass']}, {B(x['is_sorted'])}⟩")


def lean_ci(x):
    if x["kind"] == "raises":
        return "CiRow.raises"
    if x["kind"] == "quantile":
        return f"CiRow.quantile ({lean_qexp(x['lo'])}) ({lean_qexp(x['hi'])})"
    acc = x["acc"]
    accs = "none" if acc is None else (f"(some ⟨{acc['numPow']}, {acc['denCoef']}, {acc['denPow']}, {B(acc['outer15'])}, "
                                       f"{B(acc['guarded'])}⟩)")
    return (f"CiRow.adjusted ⟨.{x['p0']['cmp']}, .{x['p0']['denom']}⟩ {accs} ({lean_qexp(x['loArg'])}) ({lean_qexp(x['hiArg'])}) "
            f"({lean_qexp(x['zLo'])}) ({lean_qexp(x['zHi'])}) {B(x['masked'])} {B(x['nanGuard'])}")


def lean_fraud(x):
    cs = ", ".join(f"⟨.{c['arr']}, .{c['lowOp']}, {c['low']}, .{c['highOp']}, {c['high']}⟩" for c in x["checks"])
    return (f"(⟨.{x['pos']}, .{x['neg']}, .{x['nb_easy_pos']}, .{x['nb_easy_neg']}, .{x['score_class']}, .{x['equal_class']}, "
            f"{B(x['is_sorted'])}, [{cs}]⟩ : FraudRow)")


def lean_gs(x):
    if x["kind"] in ("raises", "custom"):
        return f"GsRow.{x['kind']}"
    return f"GsRow.{x['kind']} {B(x['byLabel'])} {B(x['singlePass'])} {B(x['is_sorted'])}"


def lean_nm(x):
    if x["kind"] == "raises":
        return "NmRow.raises"
    return f"NmRow.divide .{x['d']} {B(x['zeroKeeps'])}"


def lean_rows(tables):
    out = {}
    out["smeth"] = [f"((MKey.{r['key'][0]}, {B(r['key'][1])}), {lean_opt(r['row'], lean_sm)})" for r in tables["smeth"]]
    out["bsample"] = [f"((⟨.{r['key'][0]}, {B(r['key'][1])}, .{r['key'][2]}, {B(r['key'][3])}⟩ : BsKey), "
                      f"{lean_opt(r['row'], lean_bs)})" for r in tables["bsample"]]
    out["cidisp"] = [f"((CiMethod.{r['key'][0]}, {B(r['key'][1])}), {lean_opt(r['row'], lean_ci)})" for r in tables["cidisp"]]
    out["d2b"] = [f"(DocLabel.{r['key']}, {lean_opt(r['row'], lambda x: 'Label.' + x)})" for r in tables["d2b"]]
    out["b2d"] = [f"(Label.{r['key']}, {lean_opt(r['row'], lambda x: 'DocLabel.' + x)})" for r in tables["b2d"]]
    out["fraud"] = [f"(DocLabel.{r['key']}, {lean_opt(r['row'], lean_fraud)})" for r in tables["fraud"]]
    out["gsmeth"] = [f"((⟨.{r['key'][0]}, .{r['key'][1]}⟩ : GsmKey), {lean_opt(r['row'], lean_sm)})" for r in tables["gsmeth"]]
    out["gsample"] = [f"((⟨.{r['key'][0]}, {B(r['key'][1])}, .{r['key'][2]}⟩ : GsKey), {lean_opt(r['row'], lean_gs)})"
                      for r in tables["gsample"]]
    out["norm"] = [f"(NormKey2.{r['key']}, {lean_opt(r['row'], lean_nm)})" for r in tables["norm"]]
    return out


MODNAME = "GeneratedDecTables2_X"


def generate_text(tables, module, stated):
    rows = lean_rows(tables)
    ok, bad, covered = stated
    lines = ["-- GENERATED by harness/dectables2.py from the source; do not edit",
             "import SA.Model.DecTables2", "set_option maxRecDepth 100000", "open SA SA.DecTables SA.DecTables2",
             f"namespace SA.{module}", ""]
    lines.append("def translated : Translated2 where")
    for t in TABLE_IDS:
        lines.append(f"  {t} := [")
        lines.append(",\n".join("    " + r for r in rows[t]))
        lines.append("  ]")
    bad_s = "[" + ", ".join(f"({a}, {b})" for a, b in bad) + "]"
    lines += ["", "#eval do\n  for l in report2 translated do IO.println l\n  IO.println s!\"RESULT {repr (checkTables2 translated)}\"",
              "",
              f"theorem generated_dectables2_ok : checkTables2 translated = ⟨{B(ok)}, {bad_s}, {covered}⟩ := by decide +kernel",
              "", "#print axioms generated_dectables2_ok", f"end SA.{module}"]
    return "\n".join(lines) + "\n"


DEPS = ["DecTables2", "DecTables", "Sampling", "Bootstrap", "Fraud", "Group", "Showbias", "Rng", "Roc", "Threshold", "Basic"]


def run_lean_text(text, module, timeout=600):
    h = hashlib.sha256()
    h.update(text.replace(module, MODNAME).encode())
    for dep in [LEAN / "SA" / "Model" / f"{d}.lean" for d in DEPS] + [LEAN / "lean-toolchain", LEAN / "lake-manifest.json"]:
        if dep.exists():
            h.update(dep.read_bytes())
    cdir = WORK / "dectables2_cache"
    cdir.mkdir(parents=True, exist_ok=True)
    cf = cdir / (h.hexdigest()[:32] + ".json")
    if cf.exists() and os.environ.get("VERIF_DECTABLES_NOCACHE") != "1":
        try:
            c = json.loads(cf.read_text())
            return c["rc"], c["text"], 0.0, True
        except Exception:  # noqa: BLE001
            pass
    f = WORK / f"{module}.lean"
    f.write_text(text)
    t0 = time.time()
    try:
        p = subprocess.run(["lake", "env", "lean", str(f)], cwd=LEAN, capture_output=True, text=True, timeout=timeout)
        rc, out = p.returncode, p.stdout + p.stderr
    except subprocess.TimeoutExpired:
        rc, out = 124, "timeout"
    dt = time.time() - t0
    out = out.replace(module, MODNAME)
    try:
        tmp = cf.with_suffix(f".{os.getpid()}.tmp")
        tmp.write_text(json.dumps({"rc": rc, "text": out}))
        tmp.replace(cf)
        old = sorted((p_ for p_ in cdir.glob("*.json") if not p_.name.startswith("tr_")), key=lambda p_: p_.stat().st_mtime)
        for p_ in old[:-80]:
            p_.unlink()
    except OSError:
        pass
    return rc, out, dt, False


def parse_report(text):
    verdicts, details = {}, {}
    for chunk in re.split(r"(?m)^(?=ROW table=|RESULT )", text):
        m = D.ROW_RE.match(chunk.strip())
        if m:
            k = (int(m.group(1)), int(m.group(2)))
            verdicts[k] = m.group(3)
            if m.group(4) is not None:
                details[k] = (" ".join(m.group(4).split()), " ".join(m.group(5).split()))
    axioms = None
    m = re.search(r"'[^']*generated_dectables2_ok' depends on axioms: \[([^\]]*)\]", text, flags=re.S)
    if m:
        axioms = [a.strip() for a in m.group(1).replace("\n", " ").split(",") if a.strip()]
    elif re.search(r"'[^']*generated_dectables2_ok' does not depend on any axioms", text):
        axioms = []
    errors = [ln for ln in text.splitlines() if ": error" in ln]
    return verdicts, details, axioms, errors


def analyse(repo=None, keep=False):
    repo = Path(repo or os.environ.get("SA_REPO", "/repo")).resolve()
    WORK.mkdir(exist_ok=True)
    t0 = time.time()
    tr, tr_cached = translate_cached(repo)
    tables = tr["tables"]
    t_translate = time.time() - t0
    module = f"GeneratedDecTables2_{os.getpid()}"
    known = sum(1 for t in TABLE_IDS for r in tables[t] if r["row"] is not None)
    text = generate_text(tables, module, (True, [], known))
    rc, out, t_lean, cached = run_lean_text(text, module)
    verdicts, details, axioms, errors = parse_report(out)
    rounds = 1
    if (rc != 0 or axioms is None) and verdicts:
        bad = sorted(k for k, v in verdicts.items() if v == "mismatch")
        cov = sum(1 for v in verdicts.values() if v == "ok")
        text = generate_text(tables, module, (not bad, bad, cov))
        rc, out, t2, cached2 = run_lean_text(text, module)
        t_lean += t2
        cached = cached and cached2
        verdicts, details, axioms, errors = parse_report(out)
        rounds = 2
    if not keep:
        try:
            (WORK / f"{module}.lean").unlink()
        except OSError:
            pass
    rows = []
    for ti, t in enumerate(TABLE_IDS):
        for i, r in enumerate(tables[t]):
            v = verdicts.get((ti, i), "?")
            rows.append({"table": t, "function": TABLE_FUNCS[t], "key": r["key"], "verdict": v,
                         "why": r["why"] if r["row"] is None else (
                             "the row differs from the model's syntactically (expression / size condition / draws before the "
                             "error) but agrees at every probe point" if v == "unknown" else ""),
                         "translated": r["row"], "model": details.get((ti, i), (None, None))[0],
                         "got": details.get((ti, i), (None, None))[1]})
    bad_ax = sorted(set(axioms or []) - {"propext", "Classical.choice", "Quot.sound"})
    proved = rc == 0 and axioms is not None and not bad_ax and not errors
    complete = len(verdicts) == len(rows) and all(r["verdict"] in ("ok", "mismatch", "unknown") for r in rows)
    mism = [r for r in rows if r["verdict"] == "mismatch"]
    res = {"repo": str(repo), "status": "harness-problem" if not (proved and complete) else "mismatch" if mism else "ok",
           "rows": rows, "mismatches": mism, "unknowns": [r for r in rows if r["verdict"] == "unknown"],
           "covered": sum(1 for r in rows if r["verdict"] == "ok"), "total": len(rows),
           "axioms": axioms, "lean_rc": rc, "lean_errors": errors[:6], "lean_rounds": rounds,
           "lean_result_cached": cached, "translation_cached": tr_cached,
           "wall_s": {"translate": round(t_translate, 2), "lean": round(t_lean, 2)}}
    if res["status"] == "harness-problem":
        res["problem"] = ("; ".join(errors[:2]) or f"lean rc={rc}, report rows {len(verdicts)}/{len(rows)}")[:400]
    return res


# --------------------------------------------------------------------------------------
# integration in ./check
# --------------------------------------------------------------------------------------
PROP_TABLES = {"C11": ["smeth", "bsample"], "C12": ["gsmeth", "gsample"], "C13": ["cidisp"], "C18": ["norm"],
               "C19": ["d2b", "b2d", "fraud"]}
THEOREM = "generated_dectables2_ok (decision tables regenerated from the source by harness/dectables2.py on this run)"


def start(repo: Path):
    if os.environ.get("VERIF_DECTABLES_OFF") == "1":
        return None
    WORK.mkdir(exist_ok=True)
    out = WORK / f"dectables2_result_{os.getpid()}.json"
    p = subprocess.Popen([sys.executable, str(Path(__file__).resolve()), "--repo", str(repo), "--json", str(out),
                          "--quiet"], stdout=subprocess.PIPE, stderr=subprocess.STDOUT, text=True)
    return p, out


finish = D.finish


def describe(r):
    got = r.get("got") or json.dumps(r.get("translated"))
    return (f"{r['function']} row {json.dumps(r['key'])}: the source gives {D._short(got)}; the model "
            f"(lean/SA/Model/DecTables2.lean) has {D._short(r.get('model'))}")


def gate_result(res, pid):
    out = {"problems": [], "theorems": {}, "obligations": 1, "discharged": 0, "notes": [], "evidence_key": "decision_tables"}
    if res is None or res.get("status") == "harness-problem":
        why = (res or {}).get("problem", "?")
        out["notes"].append(f"DECTABLES-PROBLEM the decision tables could not be evaluated on this tree ({why[:300]}); "
                            "the sampled correspondence run remains the only tie for them")
        out["evidence"] = {"status": "not evaluated (harness problem)", "detail": why[:600]}
        out["obligations"] = 0
        return out
    mine = set(PROP_TABLES.get(pid, TABLE_IDS))
    rows = [r for r in res["rows"] if r["table"] in mine]
    for r in rows:
        if r["verdict"] == "mismatch":
            out["problems"].append("decision table (regenerated from the source): definite mismatch in " + describe(r))
    if not out["problems"]:
        out["discharged"] = 1
        out["theorems"][THEOREM] = res.get("axioms")
    unk = [r for r in rows if r["verdict"] == "unknown"]
    out["evidence"] = {
        "status": "mismatch" if out["problems"] else "ok",
        "what": "Python ast -> decision tables (partial evaluation over the flag domain, harness/dectables2.py), compared by "
                "the Lean kernel (decide +kernel, generated file) with the tables of the model (lean/SA/Model/DecTables2.lean); "
                "a row equal to the model's denotes the model's function for all inputs (lean/SA/Theorems/DecTables2.lean)",
        "tables_of_this_property": sorted(mine),
        "rows": len(rows), "rows_ok": sum(1 for r in rows if r["verdict"] == "ok"),
        "rows_mismatch": [describe(r) for r in rows if r["verdict"] == "mismatch"],
        "rows_not_covered": [{"function": r["function"], "key": r["key"], "why": r["why"][:200]} for r in unk][:40],
        "all_tables": {"rows": res["total"], "ok": res["covered"], "mismatch": len(res["mismatches"]),
                       "unknown": len(res["unknowns"])},
        "generated_theorem_axioms": res.get("axioms"), "lean_result_cached": res.get("lean_result_cached"),
        "translation_cached": res.get("translation_cached"), "wall_s": res.get("wall_s"),
    }
    if unk:
        out["notes"].append(f"DECTABLES-NOTE {len(unk)} of {len(rows)} decision-table rows of {pid} are not covered by the "
                            f"translator on this tree (e.g. {unk[0]['function']} {json.dumps(unk[0]['key'])}: {unk[0]['why'][:120]})")
    return out


def main(argv=None):
    import argparse
    ap = argparse.ArgumentParser()
    ap.add_argument("--repo", default=None)
    ap.add_argument("--json", default=None)
    ap.add_argument("--keep", action="store_true")
    ap.add_argument("-v", action="store_true")
    ap.add_argument("--quiet", action="store_true")
    ap.add_argument("--translate-only", action="store_true")
    a = ap.parse_args(argv)
    if a.translate_only:
        sys.setrecursionlimit(6000)
        tr = translate(Path(a.repo or os.environ.get("SA_REPO", "/repo")))
        for t in TABLE_IDS:
            for r in tr["tables"][t]:
                print(t, json.dumps(r["key"]), json.dumps(r["row"]) if r["row"] is not None else "UNKNOWN " + r["why"])
        return 0
    try:
        res = analyse(a.repo, keep=a.keep)
    except Exception as ex:  # noqa: BLE001 - a crash of the tool is a harness problem, never a verdict
        import traceback
        res = {"status": "harness-problem", "problem": f"{type(ex).__name__}: {ex}", "traceback": traceback.format_exc()[-1500:]}
    if a.json:
        Path(a.json).write_text(json.dumps(res, indent=1, default=str))
    if a.quiet:
        return 0 if res["status"] == "ok" else 1
    if "rows" not in res:
        print("dectables2: harness problem:", res.get("problem"), res.get("traceback", ""))
        return 2
    print(f"dectables2: {res['total']} rows: ok={res['covered']} mismatch={len(res['mismatches'])} "
          f"unknown={len(res['unknowns'])}; lean rc={res['lean_rc']} rounds={res['lean_rounds']} {res['wall_s']} "
          f"cached={res['lean_result_cached']}; status={res['status']}")
    for r in res["mismatches"]:
        print("MISMATCH", describe(r))
    per = {}
    for r in res["unknowns"]:
        per.setdefault(r["table"], []).append(r)
    for t, rs in per.items():
        print(f"unknown   {TABLE_FUNCS[t]}: {len(rs)} rows, e.g. {json.dumps(rs[0]['key'])}: {rs[0]['why'][:200]}")
    if a.v:
        for r in res["rows"]:
            print(f"  {r['verdict']:8s} {r['function']} {json.dumps(r['key'])} {json.dumps(r['translated'])}")
    for e in res.get("lean_errors", [])[:5]:
        print("lean:", e)
    if res["status"] == "harness-problem":
        print("problem:", res.get("problem"))
    return 0 if res["status"] == "ok" else 1


if __name__ == "__main__":
    sys.exit(main())
