"""
C20 / C16: the closed-form FORMULAS of `experimental/datasets.py` and `roc_curve._apply_rule_of_three` regenerated from the
source on every run.

    python harness/dsdefs.py --prop C20|C16 [--repo DIR] [--json FILE] [--keep] [-v]

Reads the CURRENT source under $SA_REPO (default /repo) with Python's `ast` and runs the functions SYMBOLICALLY:

 C20 `normal`        NormalDataset.fnr / fpr / threshold_at_fnr / threshold_at_fpr (argument scalar AND array: both runs must
                     give the same expression), `__post_init__` with mu_neg = None / 0.0 / 7.0 (is the value replaced?),
                     roc() in its four call shapes (thresholds and the two REPORTED rates per grid entry, or ValueError)
     `from_metrics`  the keyword arguments of the `NormalDataset(...)` it returns
     `corr`          CorrelatedBernoullilDataset.sample up to the validity test: the four joint probabilities and the test
 C16 `rule3`         `_apply_rule_of_three`: the resulting row of `ci` as a nested `ite` over (alpha, n, rate, row)

into `SA.DsDefs.DExpr` (lean/SA/Model/DsDefs.lean): variables, rational constants, + - * /, UNINTERPRETED standard-normal
`cdf` / `sf` / `ppf` / `isf` (scipy's `loc=` / `scale=`, positional, keyword, `**dict` or frozen, are normalised to
`(x - loc) / scale` resp. `loc + scale * q`), `sqrt`, `pow`, `int`, `floor`.  A generated Lean file states per item

    theorem generated_<prop>_<item> : checkRow model<Item> <item> <item>Probes = <verdict> := by decide +kernel

`ok` = the row is the model's modulo commutativity of + and * (then `SA.DsDefs.*_bridge`: it computes the model's functions for
every input and every interpretation); `mismatch` = an outcome code differs or a named probe separates an expression from the
model's under the lawful interpretation of lean/SA/Model/DsDefs.lean (rational sigmoid cdf, sf = 1 - cdf, ppf its inverse, NaN
outside [0,1], exact sqrt / roots); anything else, and anything the translator cannot follow, is `unknown` (NOT an alarm):
e.g. `1 - norm.cdf(x)` for `norm.sf(x)`, `p*n < 1` for `p < 1/n`, branches on `n > 3`.
TRUSTED BASE (this file): the reading of the Python / NumPy / scipy idioms listed above; values only (aliasing of the caller's
arrays, float rounding and the RNG protocol are not seen here).
"""
from __future__ import annotations

import ast
import json
import os
import subprocess
import sys
import time
from fractions import Fraction
from pathlib import Path

sys.path.insert(0, str(Path(__file__).resolve().parent))
from cmdefs import Unknown, cached_lean, parse_axioms, OK_AXIOMS, KV, WORK, LEAN  # noqa: E402


class E:
    def __init__(self, e):
        self.e = e


class P:
    def __init__(self, v):
        self.v = v


class Opq:
    def __init__(self, why=""):
        self.why = why


class T:
    def __init__(self, kind, x=None):
        self.kind, self.x = kind, x


class Obj:
    def __init__(self, cls, fields):
        self.cls, self.fields = cls, fields


class Pair:
    def __init__(self, lo, hi, nested=False):
        self.lo, self.hi, self.nested = lo, hi, nested


class Cond:
    def __init__(self, op, l, r):
        self.op, self.l, self.r = op, l, r


class Vec:
    def __init__(self, items):
        self.items = items


class VCond:
    def __init__(self, op, vec, rhs):
        self.op, self.vec, self.rhs = op, vec, rhs


class AnyC:
    def __init__(self, vc):
        self.vc = vc


class Ctor:
    def __init__(self, name, pos, kw):
        self.name, self.pos, self.kw = name, pos, kw


class Bound:
    def __init__(self, obj, fn):
        self.obj, self.fn = obj, fn


class Func:
    def __init__(self, fn):
        self.fn = fn


class Raised(Exception):
    def __init__(self, name):
        self.name = name


class Found(Exception):
    """the validity test of the correlated dataset was reached"""
    def __init__(self, anyc, exc):
        self.anyc, self.exc = anyc, exc


class Ret(Exception):
    def __init__(self, v):
        self.v = v


FN1 = {"cdf": 0, "sf": 1, "ppf": 2, "isf": 3, "sqrt": 4, "int": 5, "floor": 6, "log": 10, "exp": 11, "expm1": 12, "log1p": 13,
       "rint": 14, "round": 14, "ceil": 15, "fabs": 16, "abs": 16}
FN1_NAME = {v: k for k, v in FN1.items()}
FN2 = {"pow": 0, "power": 0, "binomial": 1, "maximum": 2, "minimum": 3}
FN2_NAME = {0: "pow", 1: "binomial", 2: "maximum", 3: "minimum"}
OPS = {ast.Lt: 0, ast.LtE: 1, ast.Gt: 2, ast.GtE: 3, ast.Eq: 4, ast.NotEq: 5}
OPSTR = {0: "<", 1: "<=", 2: ">", 3: ">=", 4: "==", 5: "!="}


def const(v):
    q = Fraction(v)
    return ("const", q.numerator, q.denominator)


def isnum(v):
    return isinstance(v, P) and isinstance(v.v, (int, float)) and not isinstance(v.v, bool)


class Interp:
    def __init__(self, module, cls=None, scalar=False):
        self.module, self.cls, self.scalar = module, cls, scalar
        self.funcs = {st.name: st for st in module.body if isinstance(st, ast.FunctionDef)}
        self.classes = {st.name: st for st in module.body if isinstance(st, ast.ClassDef)}
        self.depth = 0

    # ---- helpers
    def methods(self, cls):
        return {st.name: st for st in self.classes[cls].body if isinstance(st, ast.FunctionDef)}

    @staticmethod
    def decos(fn):
        return [d.id if isinstance(d, ast.Name) else ast.unparse(d) for d in fn.decorator_list]

    def sc(self, v, what="operand"):
        if isinstance(v, E):
            return v.e
        if isnum(v):
            return const(v.v)
        if isinstance(v, Opq):
            raise Unknown(f"{what} depends on a value the translator does not follow ({v.why})")
        raise Unknown(f"{what} is not a scalar ({type(v).__name__})")

    def truth(self, v):
        if isinstance(v, P):
            return bool(v.v)
        if isinstance(v, (Obj, Pair, Ctor, T, Bound, Func)):
            return True
        if isinstance(v, Opq):
            return None
        if isinstance(v, E):
            raise Unknown("truth value of a symbolic number")
        if isinstance(v, AnyC):
            return None
        raise Unknown(f"truth value of {type(v).__name__}")

    def call_fn(self, fn, args, kw, selfobj=None):
        self.depth += 1
        if self.depth > 12:
            raise Unknown("call depth")
        a = fn.args
        if a.vararg or a.kwarg:
            raise Unknown(f"*args / **kwargs parameters of {fn.name}")
        names = [x.arg for x in a.args]
        env = {}
        pos = list(args)
        if selfobj is not None:
            env[names[0]] = selfobj
            names = names[1:]
        defaults = dict(zip(reversed(names), reversed(a.defaults)))
        if len(pos) > len(names):
            raise Unknown(f"too many arguments for {fn.name}")
        for n, v in zip(names, pos):
            env[n] = v
        konly = [x.arg for x in a.kwonlyargs]
        kdef = {x.arg: d for x, d in zip(a.kwonlyargs, a.kw_defaults) if d is not None}
        for k, v in kw.items():
            if k not in names and k not in konly:
                raise Unknown(f"unexpected keyword {k} for {fn.name}")
            env[k] = v
        for n in names + konly:
            if n not in env:
                d = defaults.get(n) if n in names else kdef.get(n)
                if d is None:
                    raise Unknown(f"missing argument {n} of {fn.name}")
                env[n] = self.eval(d, {})
        try:
            self.body(fn.body, env)
            res = P(None)
        except Ret as r:
            res = r.v
        self.depth -= 1
        return res

    # ---- statements
    def body(self, stmts, env):
        for st in stmts:
            self.stmt(st, env)

    def stmt(self, st, env):
        if isinstance(st, ast.Expr):
            if isinstance(st.value, ast.Constant):
                return
            self.eval(st.value, env)
            return
        if isinstance(st, ast.Pass):
            return
        if isinstance(st, ast.Return):
            raise Ret(self.eval(st.value, env) if st.value is not None else P(None))
        if isinstance(st, ast.Raise):
            nm = "Exception"
            if isinstance(st.exc, ast.Call) and isinstance(st.exc.func, ast.Name):
                nm = st.exc.func.id
            elif isinstance(st.exc, ast.Name):
                nm = st.exc.id
            raise Raised(nm)
        if isinstance(st, ast.AnnAssign) and st.value is not None:
            self.assign(st.target, self.eval(st.value, env), env)
            return
        if isinstance(st, ast.Assign) and len(st.targets) == 1:
            self.assign(st.targets[0], self.eval(st.value, env), env)
            return
        if isinstance(st, ast.If):
            t = self.eval(st.test, env)
            only_raise = all(isinstance(x, ast.Raise) for x in st.body) and not st.orelse
            if isinstance(t, AnyC):
                if only_raise:
                    nm = "Exception"
                    ex = st.body[0].exc
                    if isinstance(ex, ast.Call) and isinstance(ex.func, ast.Name):
                        nm = ex.func.id
                    raise Found(t, nm)
                raise Unknown("the validity test guards more than a raise")
            if isinstance(t, Cond):
                raise Unknown(f"branch on the symbolic comparison `{ast.unparse(st.test)[:40]}`")
            b = self.truth(t)
            if b is None:
                if only_raise:
                    return
                raise Unknown(f"branch on a value the translator does not follow: `{ast.unparse(st.test)[:40]}`")
            self.body(st.body if b else st.orelse, env)
            return
        raise Unknown(f"statement `{ast.unparse(st)[:50]}`")

    def assign(self, tgt, v, env):
        if isinstance(tgt, ast.Name):
            env[tgt.id] = v
            return
        if isinstance(tgt, ast.Attribute):
            o = self.eval(tgt.value, env)
            if isinstance(o, Obj):
                o.fields[tgt.attr] = v
                return
            raise Unknown("attribute assignment on a non-object")
        if isinstance(tgt, (ast.Tuple, ast.List)):
            if isinstance(v, P) and isinstance(v.v, (list, tuple)) and len(v.v) == len(tgt.elts):
                for t_, x in zip(tgt.elts, v.v):
                    self.assign(t_, x, env)
                return
            raise Unknown("tuple assignment")
        if isinstance(tgt, ast.Subscript) and isinstance(tgt.value, ast.Name):
            arr = env.get(tgt.value.id)
            if isinstance(arr, Opq):
                return
            if isinstance(arr, Pair):
                idx = tgt.slice
                col = None
                if isinstance(idx, ast.Tuple) and len(idx.elts) == 2:
                    c = self.eval(idx.elts[1], env)
                    if not (isinstance(c, P) and c.v in (0, 1, -1, -2)):
                        raise Unknown("column index of a masked assignment")
                    col = c.v % 2
                    idx = idx.elts[0]
                m = self.eval(idx, env)
                if not isinstance(m, Cond):
                    raise Unknown("subscript assignment that is not a boolean mask of the rates")
                if col is None:
                    if not isinstance(v, Pair):
                        raise Unknown("masked assignment of a non-row")
                    new = Pair(self.ite(m, v.lo, arr.lo), self.ite(m, v.hi, arr.hi))
                else:
                    x = self.sc(v, "assigned value")
                    new = Pair(self.ite(m, x, arr.lo), arr.hi) if col == 0 else Pair(arr.lo, self.ite(m, x, arr.hi))
                env[tgt.value.id] = new
                return
        raise Unknown(f"assignment target `{ast.unparse(tgt)[:40]}`")

    @staticmethod
    def ite(c, t, e):
        return ("ite", c.op, c.l, c.r, t, e)

    # ---- expressions
    def eval(self, e, env):
        if isinstance(e, ast.Constant):
            return P(e.value)
        if isinstance(e, ast.Name):
            if e.id in env:
                return env[e.id]
            if e.id in ("np", "numpy"):
                return T("np")
            if e.id == "scipy":
                return T("scipy")
            if e.id == "math":
                return T("math")
            if e.id in ("float", "int", "len", "abs", "round", "pow", "dict", "bool"):
                return T("builtin", e.id)
            if e.id in self.funcs:
                return Func(self.funcs[e.id])
            if e.id in self.classes or e.id in ("ROCCurve", "Scores", "BinaryLabel"):
                return T("class", e.id)
            if e.id == "norm":
                return T("norm")
            return Opq(f"name {e.id}")
        if isinstance(e, ast.Attribute):
            b = self.eval(e.value, env)
            return self.attr(b, e.attr)
        if isinstance(e, (ast.List, ast.Tuple)):
            return P([self.eval(x, env) for x in e.elts])
        if isinstance(e, ast.Dict):
            d = {}
            for k, v in zip(e.keys, e.values):
                if k is None:
                    x = self.eval(v, env)
                    if not (isinstance(x, P) and isinstance(x.v, dict)):
                        raise Unknown("** of a non-dict")
                    d.update(x.v)
                else:
                    kk = self.eval(k, env)
                    if not (isinstance(kk, P) and isinstance(kk.v, str)):
                        raise Unknown("dict key")
                    d[kk.v] = self.eval(v, env)
            return P(d)
        if isinstance(e, ast.UnaryOp):
            v = self.eval(e.operand, env)
            if isinstance(e.op, ast.USub):
                if isnum(v):
                    return P(-v.v)
                if isinstance(v, Opq):
                    return v
                return E(("neg", self.sc(v)))
            if isinstance(e.op, ast.UAdd):
                return v
            if isinstance(e.op, ast.Not):
                b = self.truth(v)
                return Opq("not") if b is None else P(not b)
            raise Unknown("unary operator")
        if isinstance(e, ast.BoolOp):
            vals = e.values
            cur = self.eval(vals[0], env)
            for nxt in vals[1:]:
                b = self.truth(cur)
                if b is None:
                    return Opq("and/or of an unfollowed value")
                if isinstance(e.op, ast.Or):
                    if b:
                        return cur
                else:
                    if not b:
                        return cur
                cur = self.eval(nxt, env)
            return cur
        if isinstance(e, ast.IfExp):
            t = self.eval(e.test, env)
            b = self.truth(t) if not isinstance(t, Cond) else None
            if isinstance(t, Cond):
                raise Unknown("conditional expression on a symbolic comparison")
            if b is None:
                return Opq("conditional expression on an unfollowed value")
            return self.eval(e.body if b else e.orelse, env)
        if isinstance(e, ast.Compare) and len(e.ops) == 1:
            a, b = self.eval(e.left, env), self.eval(e.comparators[0], env)
            op = e.ops[0]
            if isinstance(op, (ast.Is, ast.IsNot)):
                if isinstance(a, Opq) or isinstance(b, Opq):
                    return Opq("identity test on an unfollowed value")
                an = isinstance(a, P) and a.v is None
                bn = isinstance(b, P) and b.v is None
                if not (an or bn):
                    raise Unknown("`is` between two non-None values")
                same = an and bn
                return P(same if isinstance(op, ast.Is) else not same)
            if type(op) not in OPS:
                raise Unknown(f"comparison `{ast.unparse(e)[:40]}`")
            if isinstance(a, Opq) or isinstance(b, Opq):
                return Opq("comparison of an unfollowed value")
            if isinstance(a, Vec):
                return VCond(OPS[type(op)], a, self.sc(b))
            if isnum(a) and isnum(b):
                return P(eval(f"a {OPSTR[OPS[type(op)]]} b", {"a": a.v, "b": b.v}))
            return Cond(OPS[type(op)], self.sc(a), self.sc(b))
        if isinstance(e, ast.BinOp):
            a, b = self.eval(e.left, env), self.eval(e.right, env)
            if isinstance(a, Opq):
                return a
            if isinstance(b, Opq):
                return b
            if isinstance(e.op, (ast.BitAnd, ast.BitOr)):
                raise Unknown("combination of boolean masks")
            if isnum(a) and isnum(b):
                try:
                    if isinstance(e.op, ast.Add):
                        return P(a.v + b.v)
                    if isinstance(e.op, ast.Sub):
                        return P(a.v - b.v)
                    if isinstance(e.op, ast.Mult):
                        return P(a.v * b.v)
                    if isinstance(e.op, ast.Div):
                        return P(Fraction(a.v) / Fraction(b.v)) if False else P(a.v / b.v)
                except ZeroDivisionError:
                    raise Unknown("constant division by zero")
            if isinstance(e.op, ast.Pow):
                return E(("fn2", 0, self.sc(a), self.sc(b)))
            if isinstance(e.op, ast.FloorDiv):
                return E(("fn1", 6, ("div", self.sc(a), self.sc(b))))
            k = {ast.Add: "add", ast.Sub: "sub", ast.Mult: "mul", ast.Div: "div"}.get(type(e.op))
            if k is None:
                raise Unknown(f"operator `{ast.unparse(e)[:40]}`")
            return E((k, self.sc(a), self.sc(b)))
        if isinstance(e, ast.Subscript):
            v = self.eval(e.value, env)
            if isinstance(v, Opq):
                return v
            sl = e.slice
            if isinstance(v, E):
                # p[:, np.newaxis] / p[..., None] / p[:, None]: the same per-row scalar
                parts = sl.elts if isinstance(sl, ast.Tuple) else [sl]
                ok = True
                for x in parts:
                    if isinstance(x, ast.Slice) and x.lower is None and x.upper is None and x.step is None:
                        continue
                    if isinstance(x, ast.Constant) and x.value in (None, Ellipsis):
                        continue
                    if isinstance(x, ast.Attribute) and x.attr == "newaxis":
                        continue
                    ok = False
                if ok:
                    return v
                raise Unknown(f"subscript `{ast.unparse(e)[:40]}`")
            i = self.eval(sl, env) if not isinstance(sl, (ast.Slice, ast.Tuple)) else None
            if isinstance(v, Pair) and isinstance(i, P) and isinstance(i.v, int):
                if v.nested and i.v in (0, -1):
                    return Pair(v.lo, v.hi)
                if not v.nested and i.v in (0, 1, -1, -2):
                    return E(v.lo if i.v % 2 == 0 else v.hi)
            if isinstance(v, P) and isinstance(v.v, (list, tuple)) and isinstance(i, P) and isinstance(i.v, int):
                return v.v[i.v]
            if isinstance(v, P) and isinstance(v.v, dict) and isinstance(i, P) and i.v in v.v:
                return v.v[i.v]
            if isinstance(v, Vec) and isinstance(i, P) and isinstance(i.v, int):
                return E(v.items[i.v])
            raise Unknown(f"subscript `{ast.unparse(e)[:40]}`")
        if isinstance(e, ast.Call):
            return self.call(e, env)
        raise Unknown(f"expression `{type(e).__name__}`")

    def attr(self, b, name):
        if isinstance(b, Opq):
            return Opq(b.why)
        if isinstance(b, T):
            if b.kind == "np":
                if name in ("nan", "NaN", "inf"):
                    raise Unknown(f"np.{name}")
                if name == "newaxis":
                    return P(None)
                if name == "random":
                    return Opq("np.random")
                return T("npf", name)
            if b.kind == "math":
                return T("mathf", name)
            if b.kind == "scipy" and name == "stats":
                return T("stats")
            if b.kind == "stats" and name == "norm":
                return T("norm")
            if b.kind == "norm":
                return T("normf", (name, None, None))
            if b.kind == "frozen":
                return T("normf", (name, b.x[0], b.x[1]))
            if b.kind == "class":
                if b.x in self.classes and name in self.methods(b.x):
                    return Bound(None, self.methods(b.x)[name])
                return Opq(f"{b.x}.{name}")
        if isinstance(b, Obj):
            if name in b.fields:
                return b.fields[name]
            ms = self.methods(b.cls)
            if name in ms:
                fn = ms[name]
                d = self.decos(fn)
                if "property" in d:
                    return self.call_fn(fn, [], {}, selfobj=b)
                if "staticmethod" in d:
                    return Bound(None, fn)
                return Bound(b, fn)
            raise Unknown(f"attribute .{name} of the dataset object")
        if isinstance(b, (E, Pair, Vec, VCond)):
            return T("meth", (b, name))
        if isinstance(b, P) and isinstance(b.v, dict):
            return T("meth", (b, name))
        raise Unknown(f"attribute .{name}")

    def call(self, e, env):
        f = self.eval(e.func, env)
        pos = []
        for a in e.args:
            if isinstance(a, ast.Starred):
                raise Unknown("*args in a call")
            pos.append(self.eval(a, env))
        kw = {}
        for k in e.keywords:
            v = self.eval(k.value, env)
            if k.arg is None:
                if not (isinstance(v, P) and isinstance(v.v, dict)):
                    raise Unknown("** of a value that is not a literal dict")
                kw.update(v.v)
            else:
                kw[k.arg] = v
        if isinstance(f, Opq):
            return Opq(f.why)
        if isinstance(f, Func):
            return self.call_fn(f.fn, pos, kw)
        if isinstance(f, Bound):
            return self.call_fn(f.fn, pos, kw, selfobj=f.obj)
        if not isinstance(f, T):
            raise Unknown(f"call `{ast.unparse(e.func)[:40]}(...)`")
        if f.kind == "class":
            return Ctor(f.x, pos, kw)
        if f.kind == "norm":
            if pos and len(pos) > 2:
                raise Unknown("scipy.stats.norm(...) arguments")
            loc = pos[0] if pos else kw.get("loc")
            scale = pos[1] if len(pos) > 1 else kw.get("scale")
            return T("frozen", (loc, scale))
        if f.kind == "normf":
            nm, loc0, scale0 = f.x
            if nm not in ("cdf", "sf", "ppf", "isf"):
                raise Unknown(f"scipy.stats.norm.{nm}")
            if not pos or len(pos) > 3 or set(kw) - {"loc", "scale"}:
                raise Unknown(f"scipy.stats.norm.{nm} arguments")
            x = pos[0]
            loc = pos[1] if len(pos) > 1 else kw.get("loc", loc0)
            scale = pos[2] if len(pos) > 2 else kw.get("scale", scale0)
            if isinstance(x, Opq):
                return x
            xe = self.sc(x, f"argument of norm.{nm}")
            le = None if loc is None or (isnum(loc) and loc.v == 0) else self.sc(loc, "loc")
            se = None if scale is None or (isnum(scale) and scale.v == 1) else self.sc(scale, "scale")
            if nm in ("cdf", "sf"):
                a = xe if le is None else ("sub", xe, le)
                a = a if se is None else ("div", a, se)
                return E(("fn1", FN1[nm], a))
            q = ("fn1", FN1[nm], xe)
            q = q if se is None else ("mul", se, q)
            return E(q if le is None else ("add", le, q))
        if f.kind == "builtin":
            if f.x == "float" and len(pos) == 1:
                return pos[0]
            if f.x == "int" and len(pos) == 1:
                if isinstance(pos[0], Opq):
                    return pos[0]
                if isnum(pos[0]):
                    return P(int(pos[0].v))
                return E(("fn1", 5, self.sc(pos[0])))
            if f.x == "pow" and len(pos) == 2:
                return E(("fn2", 0, self.sc(pos[0]), self.sc(pos[1])))
            if f.x == "dict" and not pos:
                return P(dict(kw))
            return Opq(f"{f.x}(...)")
        if f.kind == "mathf":
            if f.x in FN2 and len(pos) == 2:
                return E(("fn2", FN2[f.x], self.sc(pos[0]), self.sc(pos[1])))
            if f.x in FN1 and len(pos) == 1:
                return E(("fn1", FN1[f.x], self.sc(pos[0])))
            raise Unknown(f"math.{f.x}")
        if f.kind == "meth":
            b, nm = f.x
            if nm == "item" and not pos:
                return b
            if nm == "any" and isinstance(b, VCond) and not pos:
                return AnyC(b)
            if nm in ("copy",) and not pos:
                return b
            if nm == "astype" and isinstance(b, (E, Pair)) and pos and isinstance(pos[0], T) and pos[0].x == "float":
                return b
            if nm == "get" and isinstance(b, P) and pos and isinstance(pos[0], P) and pos[0].v in b.v:
                return b.v[pos[0].v]
            raise Unknown(f"method .{nm}()")
        if f.kind == "npf":
            return self.np_call(f.x, pos, kw)
        raise Unknown(f"call `{ast.unparse(e.func)[:40]}(...)`")

    def np_call(self, nm, pos, kw):
        if any(isinstance(x, Opq) for x in pos):
            return Opq(f"np.{nm} of an unfollowed value")
        if nm == "isscalar" and len(pos) == 1:
            return P(self.scalar)
        if nm in ("asarray", "array", "asanyarray", "ascontiguousarray", "atleast_1d", "copy") and len(pos) == 1:
            dt = kw.get("dtype")
            if dt is not None and not (isinstance(dt, T) and dt.x in ("float", "float64", "double")):
                raise Unknown(f"np.{nm} dtype")
            if set(kw) - {"dtype", "copy"}:
                raise Unknown(f"np.{nm} arguments")
            x = pos[0]
            if isinstance(x, (E, Vec)):
                return x
            if isinstance(x, Pair):
                return Pair(x.lo, x.hi, x.nested)
            if isinstance(x, P) and isinstance(x.v, list):
                if len(x.v) == 1 and isinstance(x.v[0], P) and isinstance(x.v[0].v, list) and len(x.v[0].v) == 2:
                    return Pair(self.sc(x.v[0].v[0]), self.sc(x.v[0].v[1]), nested=True)
                if len(x.v) == 2 and not any(isinstance(y, P) and isinstance(y.v, list) for y in x.v) and self.want_pairs:
                    return Pair(self.sc(x.v[0]), self.sc(x.v[1]))
                return Vec([self.sc(y, "array element") for y in x.v])
            raise Unknown(f"np.{nm}(...)")
        if nm in ("sqrt", "floor", "rint", "log", "exp", "expm1", "log1p", "ceil", "abs", "fabs") and len(pos) == 1 and not kw:
            return E(("fn1", FN1[nm], self.sc(pos[0])))
        if nm in ("power", "maximum", "minimum") and len(pos) == 2 and not kw:
            return E(("fn2", FN2[nm], self.sc(pos[0]), self.sc(pos[1])))
        if nm in ("divide", "true_divide") and len(pos) == 2 and not kw:
            return E(("div", self.sc(pos[0]), self.sc(pos[1])))
        if nm == "multiply" and len(pos) == 2 and not kw:
            return E(("mul", self.sc(pos[0]), self.sc(pos[1])))
        if nm == "any" and len(pos) == 1 and isinstance(pos[0], VCond) and not kw:
            return AnyC(pos[0])
        if nm == "where" and len(pos) == 3 and not kw and isinstance(pos[0], Cond):
            return self.select([pos[0]], [pos[1]], pos[2])
        if nm == "select":
            args = dict(zip(["condlist", "choicelist", "default"], pos))
            args.update(kw)
            cl, ch, df = args.get("condlist"), args.get("choicelist"), args.get("default")
            if not (isinstance(cl, P) and isinstance(cl.v, list) and isinstance(ch, P) and isinstance(ch.v, list)
                    and len(cl.v) == len(ch.v) and df is not None and all(isinstance(c, Cond) for c in cl.v)):
                raise Unknown("np.select arguments")
            return self.select(cl.v, ch.v, df)
        raise Unknown(f"np.{nm}(...)")

    want_pairs = False

    def select(self, conds, choices, default):
        """first matching condition wins"""
        def parts(v):
            if isinstance(v, Pair):
                return v.lo, v.hi
            x = self.sc(v, "np.where branch")
            return x, x
        pair = isinstance(default, Pair) or any(isinstance(c, Pair) for c in choices)
        lo, hi = parts(default)
        for c, ch in reversed(list(zip(conds, choices))):
            a, b = parts(ch)
            lo, hi = self.ite(c, a, lo), self.ite(c, b, hi)
        return Pair(lo, hi) if pair else E(lo)


# --------------------------------------------------------------------------------------------------------------------
# the items
# --------------------------------------------------------------------------------------------------------------------
def V(i):
    return E(("var", i))


def normal_obj(it, mu_neg):
    cls = "NormalDataset"
    o = Obj(cls, {"mu_pos": V(0), "mu_neg": mu_neg, "sigma_pos": V(2), "sigma_neg": V(3), "p_pos": Opq("p_pos"), "n": Opq("n"),
                  "score_class": Opq("score_class")})
    ms = it.methods(cls)
    if "__post_init__" in ms:
        it.call_fn(ms["__post_init__"], [], {}, selfobj=o)
    return o


def fresh_normal(it):
    o = normal_obj(it, P(7.0))
    if isinstance(o.fields.get("mu_neg"), P) and o.fields["mu_neg"].v == 7.0:
        o.fields["mu_neg"] = V(1)
    else:
        raise Unknown("__post_init__ replaces a non-zero mu_neg")
    return o


def translate_normal(module):
    if "NormalDataset" not in {st.name for st in module.body if isinstance(st, ast.ClassDef)}:
        raise Unknown("no class NormalDataset")
    exprs, codes = [], []
    for name in ("fnr", "fpr", "threshold_at_fnr", "threshold_at_fpr"):
        got = []
        for scalar in (True, False):
            it = Interp(module, scalar=scalar)
            o = fresh_normal(it)
            ms = it.methods("NormalDataset")
            if name not in ms:
                raise Unknown(f"no method {name}")
            try:
                r = it.call_fn(ms[name], [V(4)], {}, selfobj=o)
            except Raised as ex:
                raise Unknown(f"{name} raises {ex.name}")
            got.append(it.sc(r, f"result of {name}"))
        if got[0] != got[1]:
            raise Unknown(f"{name}: scalar and array arguments are treated differently")
        exprs.append(got[0])
    # __post_init__
    default = None
    for cfg in (None, 0.0, 7.0):
        it = Interp(module)
        o = normal_obj(it, P(cfg))
        r = o.fields.get("mu_neg")
        if isinstance(r, P) and (r.v is cfg or (cfg is not None and r.v == cfg and r.v is not None)):
            codes.append(0)
        else:
            codes.append(1)
            x = it.sc(r, "the default of mu_neg")
            if default is not None and default != x:
                raise Unknown("two different defaults of mu_neg")
            default = x
    exprs.append(default if default is not None else ("var", 1))
    # roc
    rc = []
    for fn_given, fp_given in ((False, False), (True, True), (True, False), (False, True)):
        it = Interp(module)
        o = fresh_normal(it)
        ms = it.methods("NormalDataset")
        if "roc" not in ms:
            raise Unknown("no method roc")
        kw = {"fnr": V(4) if fn_given else P(None), "fpr": V(4) if fp_given else P(None)}
        try:
            r = it.call_fn(ms["roc"], [], kw, selfobj=o)
        except Raised as ex:
            codes.append(1 if ex.name == "ValueError" else 2)
            continue
        codes.append(0)
        if not (isinstance(r, Ctor) and r.name == "ROCCurve"):
            raise Unknown("roc does not return ROCCurve(...)")
        a = dict(zip(["fnr", "fpr", "thresholds"], r.pos))
        a.update(r.kw)
        if set(a) != {"fnr", "fpr", "thresholds"}:
            raise Unknown(f"ROCCurve arguments {sorted(a)}")
        rc.append([it.sc(a["thresholds"], "thresholds"), it.sc(a["fnr"], "reported fnr"), it.sc(a["fpr"], "reported fpr")])
    if codes[3:] == [1, 1, 0, 0]:
        exprs += rc[0] + rc[1]
    else:
        exprs += [("var", 4)] * 6
    return {"exprs": exprs, "codes": codes}


def translate_fm(module):
    it = Interp(module)
    ms = it.methods("NormalDataset")
    if "from_metrics" not in ms:
        raise Unknown("no from_metrics")
    fn = ms["from_metrics"]
    if "staticmethod" not in it.decos(fn) and "classmethod" not in it.decos(fn):
        raise Unknown("from_metrics is not a static method")
    kw = {"fnr": V(0), "fpr": V(1), "fnr_support": V(2), "fpr_support": V(3), "sigma_pos": V(4), "sigma_neg": V(5)}
    try:
        r = it.call_fn(fn, [], kw, selfobj=T("class", "NormalDataset") if "classmethod" in it.decos(fn) else None)
    except Raised as ex:
        raise Unknown(f"from_metrics raises {ex.name}")
    if not (isinstance(r, Ctor) and r.name == "NormalDataset"):
        raise Unknown("from_metrics does not return NormalDataset(...)")
    fields = ["mu_pos", "mu_neg", "sigma_pos", "sigma_neg", "p_pos", "n", "score_class"]
    a = dict(zip(fields, r.pos))
    a.update(r.kw)
    miss = [f for f in fields if f not in a]
    if miss:
        raise Unknown(f"NormalDataset(...) without {miss} (dataclass defaults are not read)")
    sc = a["score_class"]
    code = 1 if isinstance(sc, P) and sc.v == "pos" else 0 if isinstance(sc, P) and sc.v == "neg" else 2
    return {"exprs": [it.sc(a[f], f) for f in fields[:6]], "codes": [code]}


def translate_corr(module):
    it = Interp(module)
    cls = "CorrelatedBernoullilDataset"
    if cls not in it.classes:
        raise Unknown(f"no class {cls}")
    o = Obj(cls, {"p1": V(0), "p2": V(1), "rho": V(2), "n": Opq("n")})
    ms = it.methods(cls)
    if "__post_init__" in ms:
        it.call_fn(ms["__post_init__"], [], {}, selfobj=o)
    try:
        it.call_fn(ms["sample"], [], {"n": Opq("n"), "random": Opq("random"), "rng": Opq("rng")}, selfobj=o)
    except Found as f:
        vc = f.anyc.vc
        if len(vc.vec.items) != 4:
            raise Unknown("the probability vector has not four entries")
        if vc.rhs[0] != "const":
            raise Unknown("validity test against a non-constant")
        rhs = Fraction(vc.rhs[1], vc.rhs[2])
        codes = []
        for x in (-1, 0, 1):
            hit = eval(f"a {OPSTR[vc.op]} b", {"a": Fraction(x), "b": rhs})
            codes.append((1 if f.exc == "ValueError" else 2) if hit else 0)
        return {"exprs": list(vc.vec.items), "codes": codes, "test": f"any(p {OPSTR[vc.op]} {rhs}) -> {f.exc}"}
    except Raised as ex:
        raise Unknown(f"sample raises {ex.name} unconditionally")
    raise Unknown("no `if np.any(p < 0): raise ...` validity test was reached")


def translate_rule3(module):
    it = Interp(module)
    it.want_pairs = True
    if "_apply_rule_of_three" not in it.funcs:
        raise Unknown("no _apply_rule_of_three")
    fn = it.funcs["_apply_rule_of_three"]
    try:
        r = it.call_fn(fn, [], {"p": V(2), "ci": Pair(("var", 3), ("var", 4)), "alpha": V(0), "n": V(1)})
    except Raised as ex:
        raise Unknown(f"raises {ex.name}")
    if not isinstance(r, Pair):
        raise Unknown("the result is not followed as a row (lower, upper)")
    return {"exprs": [r.lo, r.hi], "codes": []}


ITEMS = {
    "C20": [("normal", "score_analysis/experimental/datasets.py", translate_normal, "modelNormal", "normalProbes"),
            ("from_metrics", "score_analysis/experimental/datasets.py", translate_fm, "modelFm", "fmProbes"),
            ("corr", "score_analysis/experimental/datasets.py", translate_corr, "modelCorr", "corrProbes")],
    "C16": [("rule3", "score_analysis/roc_curve.py", translate_rule3, "modelRule3", "rule3Probes")],
}
VARS = {"normal": ["mu_pos", "mu_neg", "sigma_pos", "sigma_neg", "x"], "from_metrics": ["fnr", "fpr", "fnr_support", "fpr_support",
        "sigma_pos", "sigma_neg"], "corr": ["p1", "p2", "rho"], "rule3": ["alpha", "n", "p", "ci_lo", "ci_hi"]}
EXPR_NAMES = {
    "normal": ["fnr(x)", "fpr(x)", "threshold_at_fnr(x)", "threshold_at_fpr(x)", "default of mu_neg", "roc(fnr=[x]).thresholds",
               "roc(fnr=[x]).fnr", "roc(fnr=[x]).fpr", "roc(fpr=[x]).thresholds", "roc(fpr=[x]).fnr", "roc(fpr=[x]).fpr"],
    "from_metrics": ["mu_pos", "mu_neg", "sigma_pos", "sigma_neg", "p_pos", "n"],
    "corr": ["P(0,0)", "P(1,0)", "P(0,1)", "P(1,1)"],
    "rule3": ["lower limit", "upper limit"]}
CODE_NAMES = {
    "normal": ["__post_init__ with mu_neg=None (1 = replaced by the default)", "__post_init__ with an explicit mu_neg=0.0 (1 = replaced)",
               "__post_init__ with mu_neg=7.0 (1 = replaced)", "roc() (1 = ValueError)", "roc(fnr=.., fpr=..) (1 = ValueError)",
               "roc(fnr=..) (0 = a curve)", "roc(fpr=..) (0 = a curve)"],
    "from_metrics": ["score_class of the result (1 = 'pos')"],
    "corr": ["a joint probability of -1 (1 = ValueError)", "a joint probability of 0 (0 = accepted)", "a joint probability of 1 (0 = accepted)"],
    "rule3": []}


def show(e, names):
    k = e[0]
    if k == "var":
        return names[e[1]] if e[1] < len(names) else f"v{e[1]}"
    if k == "const":
        return str(Fraction(e[1], e[2]))
    if k == "neg":
        return f"-{show(e[1], names)}"
    if k in ("add", "sub", "mul", "div"):
        return f"({show(e[1], names)} {dict(add='+', sub='-', mul='*', div='/')[k]} {show(e[2], names)})"
    if k == "fn1":
        return f"{FN1_NAME.get(e[1], 'f' + str(e[1]))}({show(e[2], names)})"
    if k == "fn2":
        return f"{FN2_NAME.get(e[1], 'g' + str(e[1]))}({show(e[2], names)}, {show(e[3], names)})"
    if k == "ite":
        return f"[{show(e[4], names)} if {show(e[2], names)} {OPSTR.get(e[1], '!=')} {show(e[3], names)} else {show(e[5], names)}]"
    return "?"


def lean(e):
    k = e[0]
    if k == "var":
        return f"(.var {e[1]})"
    if k == "const":
        return f"(.const {e[1]} {e[2]})" if e[1] >= 0 else f"(.const ({e[1]}) {e[2]})"
    if k == "neg":
        return f"(.neg {lean(e[1])})"
    if k in ("add", "sub", "mul", "div"):
        return f"(.{k} {lean(e[1])} {lean(e[2])})"
    if k == "fn1":
        return f"(.fn1 {e[1]} {lean(e[2])})"
    if k == "fn2":
        return f"(.fn2 {e[1]} {lean(e[2])} {lean(e[3])})"
    if k == "ite":
        return f"(.ite {e[1]} {lean(e[2])} {lean(e[3])} {lean(e[4])} {lean(e[5])})"
    raise Unknown("expression outside the IR")


def lean_row(r):
    cs = ", ".join(str(c) if c >= 0 else f"({c})" for c in r["codes"])
    return f"⟨[{', '.join(lean(x) for x in r['exprs'])}], [{cs}]⟩"


GEN_X = "GeneratedDs_X"
DEPS = [LEAN / "SA" / "Model" / "DsDefs.lean", LEAN / "SA" / "Model" / "CIDefs.lean", LEAN / "SA" / "Model" / "CmDefs.lean",
        LEAN / "SA" / "Model" / "MetricExpr.lean", LEAN / "SA" / "Model" / "Datasets.lean", LEAN / "SA" / "Model" / "RocCI.lean"]


def thm_name(prop, item):
    return f"generated_{prop.lower()}_{item}"


def lean_text(repo, prop, module, rows, verdicts=None):
    lines = [f"-- GENERATED by harness/dsdefs.py from {repo}; do not edit", "import SA.Model.DsDefs", "set_option maxRecDepth 100000",
             "open SA.DsDefs", f"namespace SA.{module}", ""]
    for name, _src, _f, model, probes in ITEMS[prop]:
        if name not in rows:
            continue
        r = rows[name]
        lines.append("/-- " + "; ".join(f"{n} = {show(x, VARS[name])}" for n, x in zip(EXPR_NAMES[name], r["exprs"])).replace("-/", "- /")
                     + f"; codes {r['codes']} -/")
        lines.append(f"def row_{name} : Row := {lean_row(r)}")
        lines.append(f'#eval IO.println (rowReport "{name}" {model} row_{name} {probes})')
        if verdicts is not None:
            v = verdicts[name]
            vv = ".ok" if v == "ok" else f"(.mismatch {v.split(':')[1]})" if v.startswith("mismatch") else ".undecided"
            lines += [f"theorem {thm_name(prop, name)} : checkRow {model} row_{name} {probes} = {vv} := by decide +kernel",
                      f"#print axioms {thm_name(prop, name)}"]
    lines.append(f"end SA.{module}")
    return "\n".join(lines) + "\n"


def analyse(prop, repo: Path = None, keep=False):
    repo = Path(repo or os.environ.get("SA_REPO", "/repo")).resolve()
    WORK.mkdir(exist_ok=True)
    module = f"GeneratedDs{prop}_{os.getpid()}"
    t0 = time.time()
    items, rows, trees = {}, {}, {}
    for name, src, fn, _m, _p in ITEMS[prop]:
        it = {"status": "unknown", "where": src}
        items[name] = it
        try:
            if src not in trees:
                trees[src] = ast.parse((repo / src).read_text())
            r = fn(trees[src])
            for x in r["exprs"]:
                lean(x)
            rows[name] = r
            it["translated"] = {n: show(x, VARS[name]) for n, x in zip(EXPR_NAMES[name], r["exprs"])}
            it["codes"] = r["codes"]
            if "test" in r:
                it["translated"]["validity test"] = r["test"]
        except Unknown as ex:
            it["why"] = str(ex)
        except RecursionError:
            it["why"] = "translator recursion limit"
        except (OSError, SyntaxError) as ex:
            it["why"] = f"source not readable: {ex}"
        except (KeyError, IndexError, TypeError, AttributeError, ValueError) as ex:
            it["why"] = f"translator could not follow the code ({type(ex).__name__}: {ex})"
    t_tr = time.time() - t0
    res = {"repo": str(repo), "prop": prop, "items": items, "theorems": {}, "bad_axioms": [], "lean_errors": []}
    if not rows:
        res["status"] = "unknown"
        res["wall_s"] = {"translate": round(t_tr, 2), "lean": 0.0}
        return res
    rc1, out1, t1, c1 = cached_lean(lean_text(repo, prop, module, rows), module, GEN_X, "_report", DEPS, "dsdefs_cache", keep)
    reps = {}
    for ln in out1.splitlines():
        if ln.startswith("DS "):
            d = dict(KV.findall(ln[3:]))
            reps[d.get("item")] = d
    if rc1 != 0 or set(reps) != set(rows):
        return {"status": "harness-problem", "repo": str(repo), "prop": prop, "items": items,
                "problem": "the checker's report could not be read: " + "; ".join(x for x in out1.splitlines() if "error" in x)[:400]}
    verdicts = {}
    for name, d in reps.items():
        it = items[name]
        v = d["verdict"]
        verdicts[name] = v
        if v == "ok":
            it["status"] = "ok"
        elif v.startswith("mismatch"):
            it["status"] = "mismatch"
            if "code" in d:
                j = int(d["code"])
                cn = CODE_NAMES[name][j] if j < len(CODE_NAMES[name]) else f"code {j}"
                it["mismatch"] = [f"{cn}: the source gives {d.get('got')}, the model {d.get('want')}"]
            else:
                got, want = d.get("got", "").split(";"), d.get("want", "").split(";")
                ws = dict(zip(VARS[name], d.get("probe", "").split(",")))
                diff = [f"{EXPR_NAMES[name][k]} = {show(rows[name]['exprs'][k], VARS[name])} is {g}, the model's {w}"
                        for k, (g, w) in enumerate(zip(got, want)) if g != w and "bad" not in (g, w)]
                it["witness"] = ws
                it["mismatch"] = [f"at {ws} (lawful interpretation: sigmoid cdf, sf = 1 - cdf, ppf its inverse, exact roots): " + "; ".join(diff[:3])]
        else:
            it["status"] = "unknown"
            it["why"] = ("the row differs from the model's as data and no probe separates them under the lawful interpretation (a "
                         "mathematically equal rewrite, or values outside the fragment at the probes)")
    text = lean_text(repo, prop, module, rows, verdicts)
    rc2, out2, t2, c2 = cached_lean(text, module, GEN_X, "", DEPS, "dsdefs_cache", keep)
    axs = parse_axioms(out2)
    errors = [x for x in out2.splitlines() if "error:" in x][:6]
    bad = False
    for name in rows:
        ax = axs.get(thm_name(prop, name))
        res["theorems"][thm_name(prop, name)] = ax
        if ax is None or set(ax) - OK_AXIOMS:
            bad = True
    res.update({"lean_rc": rc2, "lean_errors": errors, "stated": verdicts, "wall_s": {"translate": round(t_tr, 2), "lean": round(t1 + t2, 2)},
                "lean_result_cached": bool(c1 and c2), "generated_lean": text if keep else None})
    if rc2 != 0 or bad:
        res["status"] = "harness-problem"
        res["problem"] = "a generated theorem was not accepted: " + ("; ".join(errors)[:300] or out2[-300:])
    else:
        sts = [it["status"] for it in items.values()]
        res["status"] = "mismatch" if "mismatch" in sts else "unknown" if "unknown" in sts else "ok"
    return res


def start(prop, repo: Path):
    WORK.mkdir(exist_ok=True)
    out = WORK / f"dsdefs_result_{prop}_{os.getpid()}.json"
    p = subprocess.Popen([sys.executable, str(Path(__file__).resolve()), "--prop", prop, "--repo", str(repo), "--json", str(out), "--quiet"],
                         stdout=subprocess.PIPE, stderr=subprocess.STDOUT, text=True)
    return p, out


def finish(handle, timeout=900):
    p, out = handle
    try:
        log, _ = p.communicate(timeout=timeout)
    except subprocess.TimeoutExpired:
        p.kill()
        return {"status": "harness-problem", "problem": "translation timed out"}
    try:
        res = json.loads(out.read_text())
        out.unlink()
        return res
    except Exception as ex:  # noqa: BLE001
        return {"status": "harness-problem", "problem": f"translation produced no result ({type(ex).__name__}): {log[-400:]}"}


WHAT = {
    "C20": "Python ast -> symbolic run of NormalDataset.fnr / fpr / threshold_at_fnr / threshold_at_fpr / __post_init__ / roc / from_metrics "
           "and of CorrelatedBernoullilDataset.sample up to its validity test, as SA.DsDefs.DExpr rows with uninterpreted cdf / sf / ppf / isf "
           "/ sqrt; ok = the row is the model's modulo commutativity (SA.DsDefs.normal_bridge / fm_bridge / corr_bridge: the model's functions "
           "on every input, for every oracle); mismatch = an outcome code or a probe under the lawful interpretation separates them",
    "C16": "Python ast -> symbolic run of roc_curve._apply_rule_of_three: the resulting row of ci as nested ite over (alpha, n, rate, row) "
           "with an uninterpreted pow; ok = the model's row (SA.DsDefs.rule3_bridge: SA.ruleOfThreeRow on every input, for every pow); "
           "mismatch = a probe (alpha, n, rate) with an exact rational root separates them",
}


def gate_result(res):
    """-> the dictionary `extra_gate_finish` returns"""
    prop = res.get("prop", "?")
    gate = {"problems": [], "theorems": {}, "obligations": 0, "discharged": 0, "notes": [], "evidence": {}, "evidence_key": "generated_definitions"}
    if res.get("status") == "harness-problem":
        gate["notes"].append(f"GENERATED-DEFINITIONS-PROBLEM the closed forms could not be regenerated / checked on this tree "
                             f"({(res.get('problem') or '')[:300]}); the sampled runs remain the only tie for them")
        gate["evidence"] = {"status": "not evaluated (harness problem)", "detail": (res.get("problem") or "")[:600]}
        return gate
    for name, it in res["items"].items():
        if it["status"] in ("ok", "mismatch"):
            gate["obligations"] += 1
        if it["status"] == "ok":
            gate["discharged"] += 1
            gate["theorems"][f"{thm_name(prop, name)} (regenerated from the source by harness/dsdefs.py on this run)"] = \
                (res.get("theorems") or {}).get(thm_name(prop, name))
        for m in it.get("mismatch", []):
            gate["problems"].append(f"regenerated from the source: definite mismatch with the model in {it.get('where')} [{name}]: {m}")
        if it["status"] == "unknown":
            gate["notes"].append(f"GENERATED-DEFINITIONS-UNKNOWN {prop} {name}: {it.get('why', '')[:200]} (evidence only, not an alarm)")
    gate["evidence"] = {"status": res.get("status"), "what": WHAT.get(prop, ""), "items": res["items"],
                        "generated_theorem_axioms": res.get("theorems"), "lean_result_cached": res.get("lean_result_cached"),
                        "wall_s": res.get("wall_s")}
    return gate


def main(argv=None):
    import argparse
    ap = argparse.ArgumentParser()
    ap.add_argument("--prop", default="C20", choices=sorted(ITEMS))
    ap.add_argument("--repo", default=None)
    ap.add_argument("--json", default=None)
    ap.add_argument("--keep", action="store_true")
    ap.add_argument("-v", action="store_true")
    ap.add_argument("--quiet", action="store_true")
    a = ap.parse_args(argv)
    try:
        res = analyse(a.prop, a.repo, keep=a.keep)
    except Exception as ex:  # noqa: BLE001
        import traceback
        res = {"status": "harness-problem", "prop": a.prop, "problem": f"{type(ex).__name__}: {ex}", "traceback": traceback.format_exc()[-1500:]}
    if a.json:
        Path(a.json).write_text(json.dumps(res, indent=1, default=str))
    if a.quiet:
        return 0 if res["status"] == "ok" else 1
    print(f"dsdefs {a.prop}: status={res['status']} {res.get('wall_s')} cached={res.get('lean_result_cached')}")
    for n, it in res.get("items", {}).items():
        print(f"{it['status']:9s} {n} [{it.get('where')}]")
        if it.get("why"):
            print("          why:", it["why"])
        for m in it.get("mismatch", []):
            print("          MISMATCH", m)
        if a.v and "translated" in it:
            for k, v in it["translated"].items():
                print(f"          {k} = {v}")
            print("          codes:", it.get("codes"))
    for e in res.get("lean_errors", [])[:5]:
        print("lean:", e)
    if res.get("problem"):
        print("problem:", res["problem"])
        print(res.get("traceback", ""))
    return 0 if res["status"] == "ok" else 1


if __name__ == "__main__":
    sys.exit(main())
