"""
C10 effect model, regenerated from the source on every run.

    python harness/effects.py [--repo DIR] [--out DIR] [--json FILE] [--no-lean]

Reads the CURRENT source of `score_analysis/{scores,cm,metrics,utils,roc_curve}.py` under $SA_REPO (default
/repo) with Python's `ast`, translates every function body into the effect IR of `lean/SA/Model/Effects.lean`,
writes a generated Lean file `.work/GeneratedC10Effects_<pid>.lean` that defines the bodies as data, prints the
checker's report (`#eval reportLines bodies`) and states

    theorem generated_c10_effects_ok : analysis table bodies = ⟨true, [violators], [covered]⟩ := by decide +kernel

and compiles it with `lake env lean`.  `analysis` = (every summary in `table` was checked against its body, the entry
bodies with a definite violation — none on a clean tree —, the entry bodies with verdict ok); `SA.Effects.analysis_sound` +
`SA.Effects.C10_effects_no_mutation` (proved once, for all bodies) then give "no cell allocated at entry changes,
self's field table is the same" for every covered body.  The per-body abstract environments and the summary table
in the generated file are CERTIFICATES computed here (a small fixpoint, `solve` / `summarise`); the kernel re-checks
them (`closed`, `tableChecked`), so they are not trusted.

Outcome per ENTRY body (public query), decided by the Lean checker, not here:
  ok          every in-place write (own or through summarised callees) reaches fresh memory only, no store to self
  violation   an in-place write whose target resolves to a parameter or a field of self, a store to a field of
              self, or a call of a summarised callee that does this with the caller's parameter / own self
  notcovered  something resolves to `unknown` (unclassified call, write through a name the translator cannot
              resolve, augmented assignment on a name that may be a scalar, dynamic dispatch): NOT an alarm.

TRUSTED BASE (this file).  The translation and the classification below are not verified; they are the tie
between the Python source and the IR.

Provenance of an expression (what memory the value may share)
  fresh    literals; arithmetic, comparisons, boolean operators, unary operators on anything; f-strings;
           np.array (unless copy=False) zeros ones empty full *_like arange linspace eye identity concatenate stack
           vstack hstack column_stack sort argsort lexsort searchsorted nextafter where minimum maximum floor ceil
           abs absolute fabs sqrt sum nansum prod mean nanmean std nanstd var median min max amin amax nanmin
           nanmax any all isnan isfinite isinf isclose allclose array_equal unique nonzero flatnonzero argwhere
           argmin argmax nanargmin nanargmax quantile nanquantile percentile nanpercentile copy repeat tile take
           compress count_nonzero diff cumsum cumprod trapz trapezoid interp logical_and/or/not/xor add subtract
           multiply divide true_divide floor_divide power mod exp log log2 log10 clip round around sign isscalar ndim
           shape size dot outer inner matmul digitize bincount histogram float64/int64/... (scalar types),
           np.random.* (except shuffle), math.*, scipy.stats.norm.{ppf,cdf,isf,sf,pdf};
           methods .astype (without copy=False) .copy .sum .mean .std .var .min .max .any .all .argmin .argmax
           .item .tolist .flatten .nonzero .round .clip .cumsum .dot .repeat .take .compress .searchsorted
           .argsort .tobytes .prod; indexing with an array / boolean mask / list; builtins float int bool str len
           abs round isinstance range sum any all ...
           (a ufunc / reduction with `out=X` WRITES X in place and its result is X)
  alias / view of x (same memory)
           np.asarray asanyarray ascontiguousarray asfortranarray atleast_1d/2d/3d reshape ravel squeeze expand_dims
           transpose swapaxes moveaxis rollaxis diagonal broadcast_to flip fliplr flipud real imag
           np.array(x, copy=False); x.astype(.., copy=False) (fresh OR x); methods .reshape .ravel .transpose
           .swapaxes .squeeze .view .diagonal; attributes .T .real .imag .flat and ANY other attribute
           (a field of an object shares the object's cell); basic indexing (slices, Ellipsis, None / np.newaxis,
           integers in a tuple with slices); containers [x, y] (x, y) {k: x} hold
           their elements; list(x) tuple(x) sorted(x) zip enumerate reversed iter min max (may return an
           argument); an index tuple that mixes an array-valued index with a slice / Ellipsis is fresh OR a view
           (x[i, ...] is a view when i is 0-d: the seeded change C10_3).
  in-place write to x
           x[...] = v; x[...] op= v; x op= v when x holds an array (when x may be a scalar: `maybe`, reported as
           unknown, never as a violation; when x can only be a scalar: a rebinding); `out=x`; x.sort() .fill()
           .resize() .put() .itemset() .partition() .setfield() .setflags() .byteswap(); list .append .extend
           .insert .remove .pop .clear .reverse; dict .update .setdefault .pop .popitem .clear; set .add .discard
           ...; np.put np.place np.copyto np.putmask np.fill_diagonal np.random.shuffle (first argument);
           del x[...]; obj.attr = v on a local object (and `self.attr = v`: a store to self)
  maybe    x[i] with an integer-like i (Python int, NumPy integer, unknown kind) READ as a value: an element (a copy)
           or a row (a view) - the translator cannot tell, so a later write through it is `unknown`, never a
           violation; the same x[i] in WRITE-TARGET position (x[i][k] = v, x[i].sort(), x[i].attr = v) reaches x's
           memory or an inner container of x for sure and counts as a write to x.
  unknown  everything else: unresolved globals, results of calls the table does not know, calls through a
           callable PARAMETER (the caller's own code: its effects are not attributed to the query, its result is
           unknown), `getattr(self, name)(...)` (dynamic dispatch: an unknown callee on self), unsupported syntax.

Containers / objects created by the function itself (list / tuple / dict / set literals, comprehensions, list()
dict() sorted(), constructor calls) have kind `local`: mutating THEM (append, x[i] = v, x.attr = v) writes a fresh
cell; what they hold is still reachable through them (reading an element gives everything ever put in).

Kinds.  scalar: a name whose every reaching definition is a literal, float()/int()/len()/bool()/str(), .item(),
.ndim / .size / .shape, `for j in range(..)`, or arithmetic of such.  ndarray: certainly an ndarray object
(np.asarray / np.array / zeros / views / astype / arange / concatenate / sort ...): `x op= v` on it is a definite
in-place write, and indexing WITH it is advanced indexing (a copy).  npbool: a boolean NumPy value (comparison
with a NumPy operand, isnan / isfinite / logical_*, ~ & | of such): indexing with it is a copy.  npvalue: the result of
a ufunc / reduction / arithmetic with a NumPy operand - an ndarray OR a NumPy scalar; indexing with a NumPy INTEGER
scalar is basic indexing, so `x[i]` / `x[i, ...]` with such an i is "fresh or a view of x" (seeded C10_3), and
`y op= v` on a y of any NumPy kind is a definite in-place write wherever y is not fresh (a NumPy value that
shares memory with a parameter / a field is an ndarray: NumPy scalars are always new objects).  any: everything else (parameters, fields not
assigned an ndarray in __init__, results of unknown calls).  Parameters of a private (underscore) function get the join of the kinds of the
arguments at its call sites inside the analysed modules.

Control flow: if/else -> branch; for/while -> loop (any number of iterations); break/continue/try -> every
statement boundary of the enclosed block is an optional exit ("prefix closure"); raise -> halt; return -> ret.
A real execution is a prefix of a modelled one (implicit exceptions), and the invariant of the soundness proof
holds at every intermediate state.
Closures: a nested `def` is a body of its own whose captured variables are extra parameters; where the function
object escapes (is passed on) its effects are accounted at that point, in a loop.  A decorator's wrapper calls
"any function decorated with it".  Constructors of analysed classes run `__init__` on a fresh object that then
aliases every argument; dataclasses / enums retain / are pure.

Not modelled: global state other than through `unknown`, `__setattr__`/descriptor tricks, monkeypatching, C
extensions that keep references, metadata-only mutation (`arr.shape = ..`, `arr.flags.writeable = ..` ARE treated
as writes because they are attribute stores on a local object).
"""
from __future__ import annotations

import ast
import json
import os
import re
import subprocess
import sys
import time
from pathlib import Path

VERIF = Path(__file__).resolve().parent.parent
LEAN = VERIF / "lean"
WORK = VERIF / ".work"
MODULES = ["utils", "metrics", "cm", "scores", "roc_curve"]

# private functions that the property names explicitly (checked as entry points: no parameter may be written)
ENTRY_PRIVATE = {"_threshold_at_ratio", "_invert_increasing_function", "_find_root", "_find_support_thresholds"}
# never entry points: constructors and pure sampling plumbing (still analysed: callers use their summaries)
NON_ENTRY = {"__init__", "__post_init__"}

NP_FRESH = set("""array zeros ones empty full zeros_like ones_like empty_like full_like arange linspace logspace eye
identity concatenate stack vstack hstack dstack column_stack sort argsort lexsort searchsorted nextafter where minimum
maximum fmin fmax floor ceil trunc rint abs absolute fabs sqrt square sum nansum prod nanprod mean nanmean std nanstd
var nanvar median nanmedian min max amin amax nanmin nanmax any all isnan isfinite isinf isclose allclose array_equal
array_equiv unique nonzero flatnonzero argwhere argmin argmax nanargmin nanargmax quantile nanquantile percentile
nanpercentile copy repeat tile take compress count_nonzero diff ediff1d cumsum cumprod nancumsum trapz trapezoid
interp logical_and logical_or logical_not logical_xor add subtract multiply divide true_divide floor_divide power
float_power mod remainder fmod exp expm1 log log1p log2 log10 clip round around round_ sign isscalar ndim shape size
dot vdot outer inner matmul tensordot einsum digitize bincount histogram average ptp cov corrcoef less less_equal greater
greater_equal equal not_equal bitwise_and bitwise_or bitwise_xor invert negative positive reciprocal sin cos tan arcsin
arccos arctan arctan2 sinh cosh tanh hypot maximum_accumulate result_type promote_types can_cast dtype finfo iinfo
float64 float32 float16 int64 int32 int16 int8 uint64 uint32 uint16 uint8 bool_ intp isin in1d intersect1d union1d
setdiff1d meshgrid indices tril triu diag trace delete insert append pad roll nan_to_num errstate seterr geterr
iscomplexobj isrealobj issubdtype sctype2char asscalar frompyfunc vectorize piecewise select choose partition
argpartition convolve correlate cross kron gradient heaviside signbit copysign ldexp frexp spacing""".split())
NP_VIEW = set("""asarray asanyarray ascontiguousarray asfortranarray asarray_chkfinite atleast_1d atleast_2d atleast_3d
reshape ravel squeeze expand_dims transpose swapaxes moveaxis rollaxis diagonal broadcast_to broadcast_arrays flip fliplr
flipud rot90 real imag split array_split hsplit vsplit dsplit require""".split())
NP_MUTATE_FIRST = set("put place copyto putmask fill_diagonal put_along_axis".split())
NP_CONST = set("inf nan pi e newaxis NINF PINF NAN Inf Infinity euler_gamma".split())

ARR_FRESH_METHODS = set("""astype copy sum mean std var min max any all argmin argmax item tolist flatten nonzero round
clip cumsum cumprod dot repeat take compress searchsorted argsort tobytes prod ptp trace conj conjugate choose
tostring dumps""".split())
ARR_VIEW_METHODS = set("reshape ravel transpose swapaxes squeeze view diagonal newbyteorder getfield".split())
MUTATOR_METHODS = set("""sort fill resize put itemset partition setfield setflags byteswap append extend insert remove
pop clear reverse update setdefault popitem add discard difference_update intersection_update
symmetric_difference_update appendleft extendleft popleft rotate""".split())
CONTAINER_READ_METHODS = set("keys values items get index count".split())
STR_METHODS = set("""format join startswith endswith lower upper strip lstrip rstrip split rsplit replace find rfind
encode decode isdigit isalpha title capitalize zfill ljust rjust center partition splitlines""".split())
SCALAR_ATTRS = set("shape ndim size dtype itemsize nbytes strides".split())
VIEW_ATTRS = set("T real imag flat base mT".split())

SCALAR_BUILTINS = set("float int bool str len isinstance issubclass callable hasattr id hash repr ord chr format bin hex oct ascii".split())
FRESH_BUILTINS = set("""range print abs round sum any all divmod pow type object super vars dir locals globals
input open bytes bytearray memoryview complex slice frozenset ValueError TypeError KeyError IndexError RuntimeError
AttributeError ZeroDivisionError NotImplementedError Exception AssertionError StopIteration OverflowError
FloatingPointError ArithmeticError LookupError Warning UserWarning DeprecationWarning RuntimeWarning""".split())
ALIAS_BUILTINS = set("list tuple set dict sorted zip enumerate reversed iter next min max map filter".split())
HARMLESS_DECORATORS = {"staticmethod", "classmethod", "property", "wraps", "dataclass", "cached_property",
                       "lru_cache", "cache", "abstractmethod", "overload"}
PURE_SCIPY = {("scipy", "stats", "norm", m) for m in ("ppf", "cdf", "isf", "sf", "pdf", "logpdf", "logcdf")}


# --------------------------------------------------------------------------------------
# scanning the modules
# --------------------------------------------------------------------------------------
class Func:
    def __init__(self, qual, module, cls, node, parent=None):
        self.qual, self.module, self.cls, self.node, self.parent = qual, module, cls, node, parent
        self.name = node.name
        a = node.args
        names = [x.arg for x in a.posonlyargs + a.args]
        self.decorators = [_dec_name(d) for d in node.decorator_list]
        self.is_static = "staticmethod" in self.decorators
        self.is_classmethod = "classmethod" in self.decorators
        self.is_property = "property" in self.decorators or "cached_property" in self.decorators
        self.has_self = bool(names) and names[0] == "self" and not self.is_static
        if self.has_self or (self.is_classmethod and names):
            names = names[1:]
        self.params = names + [x.arg for x in a.kwonlyargs]
        self.npos = len(names)
        self.vararg = a.vararg.arg if a.vararg else None
        self.kwarg = a.kwarg.arg if a.kwarg else None
        if self.vararg:
            self.params.append(self.vararg)
        if self.kwarg:
            self.params.append(self.kwarg)
        self.annotations = {}
        for x in a.posonlyargs + a.args + a.kwonlyargs:
            if x.annotation is not None:
                self.annotations[x.arg] = x.annotation
        self.returns = node.returns
        self.captured = []      # names of the enclosing function's locals read here (appended to params)
        self.nested = {}        # name -> Func
        self.locals = set()
        self.self_cls = cls     # class whose `self` this body sees (nested functions inherit it)
        self.entry = False

    @property
    def all_params(self):
        return self.params + self.captured


def _dec_name(d):
    if isinstance(d, ast.Call):
        d = d.func
    if isinstance(d, ast.Attribute):
        return d.attr
    if isinstance(d, ast.Name):
        return d.id
    return "?"


class ClassInfo:
    def __init__(self, qual, module, node):
        self.qual, self.module, self.node, self.name = qual, module, node, node.name
        self.methods = {}       # name -> Func
        self.aliases = {}       # name -> name
        self.bases = [_dotted(b) for b in node.bases]
        decs = [_dec_name(d) for d in node.decorator_list]
        self.is_dataclass = "dataclass" in decs
        self.is_enum = any(b and b[-1] in ("Enum", "IntEnum", "StrEnum", "Flag") for b in self.bases)
        self.field_kinds = {}
        self.field_types = {}

    def find(self, name):
        name = self.aliases.get(name, name)
        return self.methods.get(name)


def _dotted(e):
    parts = []
    while isinstance(e, ast.Attribute):
        parts.append(e.attr)
        e = e.value
    if isinstance(e, ast.Name):
        parts.append(e.id)
        return tuple(reversed(parts))
    return None


class Module:
    def __init__(self, name, path):
        self.name, self.path = name, path
        self.src = path.read_text()
        self.lines = self.src.splitlines()
        import warnings
        with warnings.catch_warnings():
            warnings.simplefilter("ignore")     # invalid escape sequences in docstrings of the analysed source
            self.tree = ast.parse(self.src)
        self.funcs = {}         # top-level functions
        self.classes = {}
        self.imports = {}       # local name -> ("module", dotted) | ("object", module, name)
        self.constants = {}     # name -> kind of a module-level literal
        self.decorator_names = set()


def _local_names(fn_node):
    """names bound in the function's own scope (parameters, assignment / loop / with / import targets, nested defs)"""
    out = set()
    a = fn_node.args
    for x in a.posonlyargs + a.args + a.kwonlyargs:
        out.add(x.arg)
    if a.vararg:
        out.add(a.vararg.arg)
    if a.kwarg:
        out.add(a.kwarg.arg)
    nonlocal_ = set()

    def tgt(t):
        if isinstance(t, ast.Name):
            out.add(t.id)
        elif isinstance(t, (ast.Tuple, ast.List)):
            for e in t.elts:
                tgt(e)
        elif isinstance(t, ast.Starred):
            tgt(t.value)

    def walk(n):
        for c in ast.iter_child_nodes(n):
            if isinstance(c, (ast.FunctionDef, ast.AsyncFunctionDef)):
                out.add(c.name)
                continue
            if isinstance(c, ast.ClassDef):
                out.add(c.name)
                continue
            if isinstance(c, ast.Lambda):
                continue
            if isinstance(c, ast.Assign):
                for t in c.targets:
                    tgt(t)
            elif isinstance(c, (ast.AugAssign, ast.AnnAssign)):
                tgt(c.target)
            elif isinstance(c, (ast.For, ast.AsyncFor)):
                tgt(c.target)
            elif isinstance(c, (ast.With, ast.AsyncWith)):
                for it in c.items:
                    if it.optional_vars is not None:
                        tgt(it.optional_vars)
            elif isinstance(c, ast.comprehension):
                tgt(c.target)
            elif isinstance(c, ast.NamedExpr):
                tgt(c.target)
            elif isinstance(c, ast.ExceptHandler) and c.name:
                out.add(c.name)
            elif isinstance(c, (ast.Import, ast.ImportFrom)):
                for al in c.names:
                    out.add((al.asname or al.name).split(".")[0])
            elif isinstance(c, (ast.Global, ast.Nonlocal)):
                nonlocal_.update(c.names)
            walk(c)

    walk(fn_node)
    return out - nonlocal_, nonlocal_


def _loaded_names(fn_node):
    """every Name read or written anywhere inside (nested scopes included)"""
    return {n.id for n in ast.walk(fn_node) if isinstance(n, ast.Name)}


class Registry:
    def __init__(self, repo: Path):
        self.repo = repo
        self.pkg = repo / "score_analysis"
        self.modules = {}
        self.funcs = {}         # qual -> Func
        self.classes = {}       # qual -> ClassInfo
        self.notes = []
        for m in MODULES:
            p = self.pkg / f"{m}.py"
            if p.exists():
                self.modules[m] = Module(m, p)
            else:
                self.notes.append(f"module score_analysis/{m}.py not found")
        for mod in self.modules.values():
            self._scan(mod)
        for f in self.funcs.values():       # wrappers that name `self` explicitly: class from the annotation
            if f.parent is not None and f.has_self and f.self_cls is None and "self" in f.annotations:
                f.self_cls = self._class_of_annotation(f.module, f.annotations["self"])
        for mod in self.modules.values():
            self._decorators(mod)
        for mod in self.modules.values():
            for ci in mod.classes.values():
                init = ci.methods.get("__init__")
                if init is not None:
                    self._field_kinds(ci, init)
        self._entries()

    # ---- scanning ----
    def _scan(self, mod: Module):
        for n in mod.tree.body:
            if isinstance(n, (ast.Import, ast.ImportFrom)):
                self._import(mod, n)
            elif isinstance(n, ast.FunctionDef):
                f = Func(f"{mod.name}.{n.name}", mod, None, n)
                mod.funcs[n.name] = f
                self._register(f)
            elif isinstance(n, ast.ClassDef):
                ci = ClassInfo(f"{mod.name}.{n.name}", mod, n)
                mod.classes[n.name] = ci
                self.classes[ci.qual] = ci
                for c in n.body:
                    if isinstance(c, ast.FunctionDef):
                        f = Func(f"{ci.qual}.{c.name}", mod, ci, c)
                        ci.methods[c.name] = f
                        self._register(f)
                    elif isinstance(c, ast.Assign) and len(c.targets) == 1 and isinstance(c.targets[0], ast.Name) \
                            and isinstance(c.value, ast.Name):
                        ci.aliases[c.targets[0].id] = c.value.id
            elif isinstance(n, (ast.Assign, ast.AnnAssign)):
                tg = n.targets if isinstance(n, ast.Assign) else [n.target]
                v = n.value
                for t in tg:
                    if isinstance(t, ast.Name):
                        if isinstance(v, ast.Constant) or (isinstance(v, ast.UnaryOp) and isinstance(v.operand, ast.Constant)):
                            mod.constants[t.id] = "scalar"
                        else:
                            mod.constants[t.id] = "any"
            elif isinstance(n, ast.If):
                # `if TYPE_CHECKING:` / try-imports: take imports inside
                for c in ast.walk(n):
                    if isinstance(c, (ast.Import, ast.ImportFrom)):
                        self._import(mod, c)

    def _import(self, mod, n):
        if isinstance(n, ast.Import):
            for al in n.names:
                local = al.asname or al.name.split(".")[0]
                mod.imports[local] = ("module", tuple((al.name if al.asname else al.name.split(".")[0]).split(".")))
        else:
            base = n.module or ""
            for al in n.names:
                local = al.asname or al.name
                if n.level > 0:     # relative: sibling module of the package
                    if base == "":
                        mod.imports[local] = ("module", ("score_analysis", al.name))
                    else:
                        mod.imports[local] = ("object", base.split(".")[-1], al.name)
                else:
                    mod.imports[local] = ("extobject", tuple(base.split(".")), al.name)

    def _register(self, f: Func):
        self.funcs[f.qual] = f
        loc, _nl = _local_names(f.node)
        f.locals = loc
        self._nested(f)

    def _nested(self, f: Func):
        def direct_defs(n):
            for c in ast.iter_child_nodes(n):
                if isinstance(c, ast.FunctionDef):
                    yield c
                elif isinstance(c, (ast.Lambda, ast.ClassDef)):
                    continue
                else:
                    yield from direct_defs(c)

        for c in direct_defs(f.node):
            g = Func(f"{f.qual}.{c.name}", f.module, None, c, parent=f)
            names = [x.arg for x in c.args.posonlyargs + c.args.args]
            if names and names[0] == "self":
                # a wrapper that takes `self` explicitly: a method of the annotated class
                ann = g.annotations.get("self")
                g.self_cls = self._class_of_annotation(f.module, ann) if ann is not None else None
                g.has_self = True
            else:
                g.self_cls = f.self_cls if f.has_self or f.parent is not None else None
            loc, _ = _local_names(c)
            g.locals = loc
            used = _loaded_names(c)
            outer = set()
            p = f
            while p is not None:
                outer |= p.locals
                p = p.parent
            cap = sorted((used - loc) & outer)
            uses_self = "self" in cap
            cap = [x for x in cap if x != "self"]
            g.captured = cap
            if not (names and names[0] == "self"):
                g.has_self = uses_self and (f.has_self or _chain_has_self(f))
                if not g.has_self:
                    g.self_cls = None
            f.nested[c.name] = g
            self.funcs[g.qual] = g
            self._nested(g)

    def _class_of_annotation(self, mod, ann):
        if ann is None:
            return None
        if isinstance(ann, ast.Constant) and isinstance(ann.value, str):
            try:
                ann = ast.parse(ann.value, mode="eval").body
            except SyntaxError:
                return None
        d = _dotted(ann)
        if d is None:
            return None
        return self.resolve_class(mod, d[-1])

    def resolve_class(self, mod, name):
        if name in mod.classes:
            return mod.classes[name]
        imp = mod.imports.get(name)
        if imp and imp[0] == "object" and imp[1] in self.modules:
            return self.modules[imp[1]].classes.get(imp[2])
        return None

    def resolve_func(self, mod, name):
        if name in mod.funcs:
            return mod.funcs[name]
        imp = mod.imports.get(name)
        if imp and imp[0] == "object" and imp[1] in self.modules:
            return self.modules[imp[1]].funcs.get(imp[2])
        return None

    def _field_kinds(self, ci, init):
        """kind of `self.f` from the assignments in __init__ (array iff every assignment gives an array)"""
        tr = Translator(self, init, {}, dry=True)
        try:
            tr.run()
        except Exception:
            return
        for f, ks in tr.field_assign_kinds.items():
            k = ks[0]
            for k2 in ks[1:]:
                k = kjoin(k, k2)
            # `local` (a container created by the function itself) is only meaningful inside that function
            ci.field_kinds[f] = k if k in ("ndarray", "scalar") else "any"

    def _decorators(self, mod):
        """functions of this module that are used as decorators, and what they decorate"""
        self.decorated = getattr(self, "decorated", {})
        for f in list(self.funcs.values()):
            if f.module is not mod:
                continue
            for d in f.node.decorator_list:
                nm = _dec_name(d)
                if nm in HARMLESS_DECORATORS:
                    continue
                df = self.resolve_func(mod, nm)
                if df is not None:
                    self.decorated.setdefault(df.qual, []).append(f)
                    mod.decorator_names.add(nm)

    def wrapper_of(self, f: Func):
        """the innermost nested function of the decorator applied to `f` that takes *args/**kwargs or self: the
        function object that replaces `f`"""
        for d in f.node.decorator_list:
            nm = _dec_name(d)
            if nm in HARMLESS_DECORATORS:
                continue
            df = self.resolve_func(f.module, nm)
            if df is None:
                return "unknown"
            cands = [g for g in self._all_nested(df) if not g.nested]
            if len(cands) != 1:
                return "unknown"
            return cands[0]
        return None

    def _all_nested(self, f):
        out = []
        for g in f.nested.values():
            out.append(g)
            out += self._all_nested(g)
        return out

    def decorator_root(self, f: Func):
        p = f
        while p.parent is not None:
            p = p.parent
        return p

    def _entries(self):
        for f in self.funcs.values():
            if f.parent is not None:
                # nested: the wrapper of a decorator is what callers reach; closures are helpers
                root = self.decorator_root(f)
                f.entry = root.qual in getattr(self, "decorated", {}) and not f.nested
                continue
            nm = f.name
            if nm in NON_ENTRY:
                f.entry = False
            elif nm.startswith("__") and nm.endswith("__"):
                f.entry = True
            elif nm.startswith("_"):
                f.entry = nm in ENTRY_PRIVATE
            else:
                f.entry = True


def _chain_has_self(f):
    p = f
    while p is not None:
        if p.has_self:
            return True
        p = p.parent
    return False


NP_KINDS = {"ndarray", "npvalue", "npbool"}


def ekjoin(a, b):
    """element kinds of a local container: None = nothing put in yet"""
    if a is None:
        return b
    if b is None:
        return a
    return kjoin(a, b)


def kjoin(a, b):
    """kinds: scalar (Python scalar / tuple of ints / str), ndarray (certainly an ndarray object), npbool (a boolean
    NumPy value: mask or np.bool_), npvalue (an ndarray OR a NumPy scalar: results of ufuncs and reductions), local
    (container / object created by this function), any"""
    if a == b:
        return a
    if a in NP_KINDS and b in NP_KINDS:
        return "npvalue"
    return "any"


# NumPy functions whose result is certainly an ndarray object (never a NumPy scalar); the others in NP_FRESH may
# return a scalar for 0-d input, and indexing with a NumPy integer scalar is BASIC indexing (a view)
NP_NDARRAY = set("""array zeros ones empty full zeros_like ones_like empty_like full_like arange linspace logspace eye identity
concatenate stack vstack hstack dstack column_stack sort argsort lexsort unique flatnonzero argwhere copy repeat tile
compress diff ediff1d cumsum cumprod nancumsum where meshgrid indices tril triu diag delete insert append pad roll
intersect1d union1d setdiff1d bincount histogram convolve correlate""".split())
NP_BOOL = set("""isnan isfinite isinf isclose logical_and logical_or logical_not logical_xor isin in1d less less_equal greater
greater_equal equal not_equal signbit""".split())


def np_result_kind(leaf):
    return "ndarray" if leaf in NP_NDARRAY else "npbool" if leaf in NP_BOOL else "npvalue"


# --------------------------------------------------------------------------------------
# translation of one function body
# --------------------------------------------------------------------------------------
FRESH = ("fresh",)
UNKNOWN = ("unknown",)


class V:
    """abstract value of an expression: provenances, kind (scalar / array / any), class, tuple parts, dynamic"""
    __slots__ = ("srcs", "kind", "typ", "parts", "dyn", "ek")

    def __init__(self, srcs, kind="any", typ=None, parts=None, dyn=False, ek=None):
        self.srcs = _uniq(srcs) or [FRESH]
        self.kind, self.typ, self.parts, self.dyn = kind, typ, parts, dyn
        self.ek = ek        # for kind `local`: kind of the elements put into the container so far (None: none yet)


def _uniq(xs):
    out = []
    for x in xs:
        if x not in out:
            out.append(x)
    return out


def views(srcs):
    return [("view", s[1]) if s[0] == "alias" else s for s in srcs]


def maybe_views(srcs):
    """`x[i]` with an integer-like i: a copy of an element or a view of a row - not known"""
    return [("maybe", s[1]) if s[0] in ("alias", "view", "maybe") else (FRESH if s == FRESH else UNKNOWN) for s in srcs]


class Shared:
    """tables shared by all bodies of one run"""

    def __init__(self):
        self.fields = {"<self>": 0}
        self.sites = [{"what": "none"}]
        self.func_ids = {}
        self.unknown_ids = {}
        self.callsite_kinds = {}    # qual -> {param index: [kinds]}
        self.next_id = 0

    def field(self, name):
        return self.fields.setdefault(name, len(self.fields))

    def fid(self, qual):
        if qual not in self.func_ids:
            self.func_ids[qual] = self.next_id
            self.next_id += 1
        return self.func_ids[qual]

    def uid(self, text):
        if text not in self.unknown_ids:
            self.unknown_ids[text] = self.next_id
            self.next_id += 1
        return self.unknown_ids[text]


class Translator:
    def __init__(self, reg: Registry, fn: Func, param_kinds, shared: Shared = None, dry=False):
        self.reg, self.fn, self.mod = reg, fn, fn.module
        self.sh = shared or Shared()
        self.param_kinds = param_kinds or {}
        self.names = {}
        self.ntmp = 0
        self.blocks = [[]]
        self.kinds, self.types, self.dynamic = {}, {}, set()
        self.ekinds = {}                    # element kinds of the containers created here
        self.ver, self.hist = {}, {}        # Python name -> current IR name / all IR names it ever had
        self.dynamic_bound = {}             # names bound from getattr(self, ..) (bound method) rather than type(self)
        self.scopes = []                    # enclosing loop / try scopes: Python name -> IR name with the latest value
        self.dry = 1 if dry else 0
        self.callees = set()
        self.notes = []
        self.field_assign_kinds = {}
        self.stats = {"statements": 0, "writes": 0, "self_stores": 0, "calls_summarised": 0, "calls_unknown": 0,
                      "calls_callable_param": 0, "unsupported": 0}
        self.cls = fn.self_cls
        self.nonlocal_names = _local_names(fn.node)[1]

    # ---- plumbing ----
    def _new(self, key):
        return self.names.setdefault(key, len(self.names))

    def nid(self, name):
        """IR name that holds the current value of the Python name (reads)"""
        if name not in self.ver:
            self.newver(name)
        return self.ver[name]

    def newver(self, name):
        """a fresh IR name for a new assignment of the Python name (the analysis is flow-insensitive: every
        assignment gets its own IR name, joins get explicit copies)"""
        k = len(self.hist.setdefault(name, []))
        v = self._new(f"{name}#{k}" if k else name)
        while v in self.hist[name]:
            k += 1
            v = self._new(f"{name}#{k}")
        self.hist[name].append(v)
        self.ver[name] = v
        return v

    def define(self, name, srcs):
        """assignment of a Python name: a new IR name; every enclosing loop / try scope keeps a name that always holds
        the latest value (read at the top of the next iteration, after the loop / a break, in an except handler)"""
        v = self.newver(name)
        self.emit(("bind", v, list(srcs)))
        for heads in self.scopes:
            if name in heads:
                self.emit(("bind", heads[name], [("alias", v)]))
        return v

    def enter_scope(self, assigned):
        heads = {}
        for n in sorted(assigned):
            if not self.is_local(n):
                continue
            old = self.ver.get(n)
            h = self.newver(n)
            if old is not None:
                self.emit(("bind", h, [("alias", old)]))
            heads[n] = h
        return heads

    def tmp(self):
        self.ntmp += 1
        return self._new(f"$t{self.ntmp}")

    def emit(self, st):
        self.blocks[-1].append(st)

    def block(self, fn):
        self.blocks.append([])
        fn()
        return self.blocks.pop()

    def site(self, node, what, target=""):
        if self.dry:
            return 0
        ln = getattr(node, "lineno", 0)
        text = self.mod.lines[ln - 1].strip() if 0 < ln <= len(self.mod.lines) else ""
        self.sh.sites.append({"function": self.fn.qual, "file": f"score_analysis/{self.mod.name}.py", "line": ln,
                              "text": text[:160], "what": what, "target": target})
        return len(self.sh.sites) - 1

    def note(self, node, msg):
        if not self.dry:
            self.notes.append(f"{self.mod.name}.py:{getattr(node, 'lineno', 0)}: {msg}")

    def stat(self, k):
        if not self.dry:
            self.stats[k] += 1

    def name_for(self, v_or_srcs):
        srcs = v_or_srcs.srcs if isinstance(v_or_srcs, V) else v_or_srcs
        if len(srcs) == 1 and srcs[0][0] in ("alias", "view"):
            return srcs[0][1]
        if list(srcs) == [FRESH]:
            return self._new("$fresh")      # one shared name for every value that is certainly new memory
        if list(srcs) == [UNKNOWN]:
            return self._new("$unknown")
        t = self.tmp()
        self.emit(("bind", t, list(srcs)))
        return t

    def is_local(self, name):
        return name in self.fn.locals or name in self.fn.captured

    def snap(self):
        return dict(self.kinds), dict(self.types), set(self.dynamic), dict(self.ver), dict(self.ekinds)

    def restore(self, s):
        self.kinds, self.types, self.dynamic, self.ver = dict(s[0]), dict(s[1]), set(s[2]), dict(s[3])
        self.ekinds = dict(s[4])

    def branch2(self, fa, fb):
        """translate two alternative blocks, join kinds / types, give every name that ends with different IR
        names on the two sides a common IR name (copies appended to the sides), emit `branch`"""
        s0 = self.snap()
        a = self.block(fa)
        sa = self.snap()
        self.restore(s0)
        b = self.block(fb)
        sb = self.snap()
        self.merge(sa, sb)
        va, vb = sa[3], sb[3]
        ver = {}
        for n in sorted(set(va) | set(vb)):
            if va.get(n) == vb.get(n):
                ver[n] = va[n]
            else:
                m = self.newver(n)
                if n in va:
                    a.append(("bind", m, [("alias", va[n])]))
                if n in vb:
                    b.append(("bind", m, [("alias", vb[n])]))
                ver[n] = m
        self.ver = ver
        self.emit(("branch", a, b))

    def merge(self, a, b):
        ka, ta, da = a[:3]
        kb, tb, db = b[:3]
        kinds = {}
        for n in set(ka) | set(kb):
            kinds[n] = kjoin(ka[n], kb[n]) if n in ka and n in kb else (ka.get(n) if n not in kb else kb.get(n))
        types = {n: ta[n] for n in ta if n in tb and ta[n] is tb[n]}
        for n in set(ta) ^ set(tb):
            types[n] = ta.get(n) or tb.get(n)
        self.kinds, self.types, self.dynamic = kinds, types, da | db
        ea, eb = a[4], b[4]
        self.ekinds = {n: ekjoin(ea.get(n), eb.get(n)) for n in set(ea) | set(eb)}

    # ---- the body ----
    def run(self):
        fn = self.fn
        for i, p in enumerate(fn.all_params):
            self.emit(("bind", self.newver(p), [("param", i)]))
            k = self.param_kinds.get(p)
            if k is None:
                k = self._annotation_kind(fn.annotations.get(p))
            self.kinds[p] = k
            t = self.reg._class_of_annotation(self.mod, fn.annotations.get(p))
            if t is not None:
                self.types[p] = t
        at = len(self.blocks[0])
        self.stmts(fn.node.body)
        self.emit(("ret", [FRESH]))    # falling off the end returns None
        for key, src in (("$unknown", UNKNOWN), ("$fresh", FRESH)):
            if key in self.names:
                self.blocks[0].insert(at, ("bind", self.names[key], [src]))
        return self.blocks[0]

    @staticmethod
    def _annotation_kind(ann):
        if isinstance(ann, ast.Name) and ann.id in ("float", "int", "bool", "str"):
            return "scalar"
        return "any"

    def stmts(self, body):
        for s in body:
            self.stat("statements")
            self.stmt(s)

    # ---- expressions ----
    def ev(self, e) -> V:
        m = getattr(self, "ev_" + type(e).__name__, None)
        if m is None:
            self.unsupported(e, f"expression {type(e).__name__}")
            return V([UNKNOWN])
        return m(e)

    def unsupported(self, node, what):
        self.stat("unsupported")
        self.note(node, f"unsupported {what}: treated as an unknown write")
        t = self.tmp()
        self.emit(("bind", t, [UNKNOWN]))
        self.emit(("write", t, False, self.site(node, f"unsupported {what}")))

    def ev_Constant(self, e):
        return V([FRESH], "scalar")

    def ev_JoinedStr(self, e):
        for v in e.values:
            if isinstance(v, ast.FormattedValue):
                self.ev(v.value)
        return V([FRESH], "scalar")

    def ev_FormattedValue(self, e):
        self.ev(e.value)
        return V([FRESH], "scalar")

    def ev_Name(self, e):
        n = e.id
        if n == "self" and self.fn.has_self:
            return V([("self", 0)], "any", self.cls)
        if self.is_local(n):
            g = self.fn.nested.get(n)
            if g is not None:
                self.escape(g, e)
                return V([FRESH], "any")
            return V([("alias", self.nid(n))], self.kinds.get(n, "any"), self.types.get(n), dyn=n in self.dynamic,
                     ek=self.ekinds.get(n))
        return self.global_value(n, e)

    def global_value(self, n, node):
        mod = self.mod
        if n in ("True", "False", "None"):
            return V([FRESH], "scalar")
        if n in mod.funcs or n in mod.classes:
            return V([FRESH], "any")
        if n in mod.imports:
            return V([FRESH], "any")
        if n in mod.constants:
            return V([FRESH] if mod.constants[n] == "scalar" else [UNKNOWN], mod.constants[n])
        if n in SCALAR_BUILTINS or n in FRESH_BUILTINS or n in ALIAS_BUILTINS or n in ("getattr", "setattr"):
            return V([FRESH], "any")
        p = self.fn.parent
        while p is not None:        # a name of an enclosing function that was not recorded as captured
            if n in p.locals:
                return V([UNKNOWN])
            p = p.parent
        self.note(node, f"unresolved global name {n}")
        return V([UNKNOWN])

    def module_path(self, e):
        """dotted path of an attribute chain rooted at an imported module, else None"""
        d = _dotted(e)
        if d is None or self.is_local(d[0]) or (d[0] == "self" and self.fn.has_self):
            return None
        imp = self.mod.imports.get(d[0])
        if imp is None:
            return None
        if imp[0] == "module":
            return tuple(imp[1]) + d[1:]
        if imp[0] == "extobject":
            return tuple(imp[1]) + (imp[2],) + d[1:]
        return None

    def ev_Attribute(self, e):
        mp = self.module_path(e)
        if mp is not None:
            if mp[0] in ("numpy", "math") and mp[-1] in NP_CONST:
                return V([FRESH], "scalar")
            return V([FRESH], "any")
        if isinstance(e.value, ast.Name) and e.value.id == "self" and self.fn.has_self:
            return self.self_attr(e)
        if isinstance(e.value, ast.Name) and not self.is_local(e.value.id):
            ci = self.reg.resolve_class(self.mod, e.value.id)
            if ci is not None:      # Class.member (enum member, unbound method)
                return V([FRESH], "any", ci if ci.is_enum else None)
        v = self.ev(e.value)
        if e.attr in SCALAR_ATTRS:
            return V([FRESH], "scalar")
        if e.attr in VIEW_ATTRS:
            return V(views(v.srcs), "ndarray")
        if v.typ is not None:
            m = v.typ.find(e.attr)
            if m is not None and m.is_property:
                return self.summary_call(m, ("obj", self.name_for(v)), [], {}, e, star=False)
            if m is not None:
                return V([FRESH], "any")
            return V(v.srcs, v.typ.field_kinds.get(e.attr, "any"), v.typ.field_types.get(e.attr))
        return V(v.srcs, "any")

    def self_attr(self, e):
        cls = self.cls
        if cls is not None:
            m = cls.find(e.attr)
            if m is not None and m.is_property:
                return self.summary_call(m, ("self",), [], {}, e, star=False)
            if m is not None:
                return V([FRESH], "any")
            return V([("self", self.sh.field(e.attr))], cls.field_kinds.get(e.attr, "any"),
                     cls.field_types.get(e.attr))
        return V([("self", self.sh.field(e.attr))], "any")

    def ev_write_target(self, e):
        """the object a write goes INTO (`e[...] = v`, `e.sort()`, `e.attr = v`): if `e` is itself `x[j]`, the write
        reaches x's memory (a row view) or an inner container of x - definitely, not maybe"""
        if isinstance(e, ast.Subscript):
            return self.ev_Subscript(e, for_write=True)
        return self.ev(e)

    def ev_Subscript(self, e, for_write=False):
        v = self.ev_write_target(e.value) if for_write else self.ev(e.value)
        cls_ = self.index_class(e.slice)
        if v.kind == "scalar":
            return V([FRESH], "scalar")     # tuple of ints, string
        if v.kind == "local":
            # an element of a container created here: itself created here if everything put in was
            return V(views(v.srcs), "local" if v.ek == "local" else "any")
        if cls_ == "basic":
            return V(views(v.srcs), "ndarray" if v.kind == "ndarray" else "any")
        if cls_ == "fancy":
            return V([FRESH], "ndarray")
        if cls_ == "mixed":
            return V([FRESH] + views(v.srcs), "any")    # x[i, ...]: a copy (i an array) or a view (i a NumPy integer)
        # x[i], i an integer (Python or NumPy) or of unknown kind: an element / a copy (fresh) or a row view
        if for_write:
            return V(views(v.srcs), "any")
        return V([FRESH] + maybe_views(v.srcs), "any")

    def index_class(self, sl):
        """basic (view) | fancy (copy) | elem (integer) | mixed"""
        def one(x):
            if isinstance(x, ast.Slice):
                for p in (x.lower, x.upper, x.step):
                    if p is not None:
                        self.ev(p)
                return "s"
            if isinstance(x, ast.Constant):
                if x.value is None or x.value is Ellipsis:
                    return "s"
                return "i"
            if isinstance(x, ast.Attribute) and self.module_path(x) and x.attr == "newaxis":
                return "s"
            if isinstance(x, (ast.List, ast.Compare, ast.ListComp)):
                self.ev(x)
                return "a"
            if isinstance(x, ast.UnaryOp) and isinstance(x.op, ast.Invert):
                self.ev(x)
                return "a"
            k = self.ev(x).kind
            return {"scalar": "i", "ndarray": "a", "npbool": "a"}.get(k, "u")

        if isinstance(sl, ast.Tuple):
            ks = [one(x) for x in sl.elts]
            if all(k in "si" for k in ks):
                return "basic"
            if "s" not in ks and "a" in ks:
                return "fancy"
            return "mixed"
        k = one(sl)
        return {"s": "basic", "i": "elem", "a": "fancy", "u": "elem"}[k]

    def ev_BinOp(self, e):
        a, b = self.ev(e.left), self.ev(e.right)
        if a.kind == b.kind == "scalar":
            return V([FRESH], "scalar")
        if isinstance(e.op, (ast.BitAnd, ast.BitOr, ast.BitXor)) and a.kind == b.kind == "npbool":
            return V([FRESH], "npbool")
        return V([FRESH], "npvalue" if NP_KINDS & {a.kind, b.kind} else "any")

    def ev_UnaryOp(self, e):
        a = self.ev(e.operand)
        if a.kind == "scalar" or isinstance(e.op, ast.Not):
            return V([FRESH], "scalar")
        if isinstance(e.op, ast.Invert) and a.kind == "npbool":
            return V([FRESH], "npbool")
        return V([FRESH], "npvalue" if a.kind in NP_KINDS else "any")

    def ev_Compare(self, e):
        vs = [self.ev(e.left)] + [self.ev(c) for c in e.comparators]
        ident = all(isinstance(o, (ast.Is, ast.IsNot, ast.In, ast.NotIn)) for o in e.ops)
        if ident or all(v.kind == "scalar" for v in vs):
            return V([FRESH], "scalar")
        return V([FRESH], "npbool" if any(v.kind in NP_KINDS for v in vs) else "any")

    def ev_BoolOp(self, e):
        vs = [self.ev(x) for x in e.values]
        k = vs[0].kind
        for v in vs[1:]:
            k = kjoin(k, v.kind)
        return V([s for v in vs for s in v.srcs], k)

    def ev_IfExp(self, e):
        self.ev(e.test)
        t = self.tmp()
        res = []

        def side(x):
            def f():
                v = self.ev(x)
                res.append(v)
                self.emit(("bind", t, list(v.srcs)))
            return f
        self.branch2(side(e.body), side(e.orelse))
        typ = res[0].typ if res[0].typ is res[1].typ else None
        return V([("alias", t)], kjoin(res[0].kind, res[1].kind), typ, dyn=res[0].dyn or res[1].dyn)

    def _container(self, elts):
        vs = [self.ev(x.value if isinstance(x, ast.Starred) else x) for x in elts]
        ek = None
        for x, v in zip(elts, vs):
            ek = ekjoin(ek, "any" if isinstance(x, ast.Starred) else v.kind)
        return V([FRESH] + [s for v in vs for s in v.srcs if s != FRESH], "local", parts=vs, ek=ek)

    def ev_Tuple(self, e):
        v = self._container(e.elts)
        if all(p.kind == "scalar" for p in v.parts):
            v.kind = "scalar"
        return v

    def ev_List(self, e):
        return self._container(e.elts)

    def ev_Set(self, e):
        return self._container(e.elts)

    def ev_Dict(self, e):
        for k in e.keys:
            if k is not None:
                self.ev(k)
        v = self._container(e.values)
        v.parts = None
        return v

    def ev_Starred(self, e):
        return self.ev(e.value)

    def ev_NamedExpr(self, e):
        v = self.ev(e.value)
        self.assign(e.target, v, e)
        return v

    def ev_Lambda(self, e):
        # the body may run later, any number of times: its effects are accounted here (its parameters are unknown)
        self.note(e, "lambda: effects of its body accounted where it is created")
        self.loop(lambda: self.ev(e.body), set())
        return V([FRESH], "any")

    def _comp(self, e, elts):
        acc = self.tmp()
        self.emit(("bind", acc, [FRESH]))

        def body():
            for g in e.generators:
                it = self.ev(g.iter)
                self.assign(g.target, V(views(it.srcs), "scalar" if self._is_range(g.iter) else "any"), g.iter)
                for c in g.ifs:
                    self.ev(c)
            vs = [self.ev(x) for x in elts]
            eks.append(vs[-1].kind)
            self.emit(("bind", acc, _uniq([("alias", acc)] + [s for v in vs for s in v.srcs if s != FRESH])))
        eks = []
        self.loop(body, stored_names(e))
        ek = None
        for k in eks:
            ek = ekjoin(ek, k)
        return V([("alias", acc)], "local", ek=ek)

    def ev_ListComp(self, e):
        return self._comp(e, [e.elt])

    ev_SetComp = ev_ListComp
    ev_GeneratorExp = ev_ListComp

    def ev_DictComp(self, e):
        return self._comp(e, [e.key, e.value])

    @staticmethod
    def _is_range(it):
        return isinstance(it, ast.Call) and isinstance(it.func, ast.Name) and it.func.id == "range"

    # ---- calls ----
    def eval_args(self, call):
        pos, kw, star = [], {}, False
        for a in call.args:
            if isinstance(a, ast.Starred):
                star = True
                pos.append(self.ev(a.value))
            else:
                pos.append(self.ev(a))
        for k in call.keywords:
            if k.arg is None:
                star = True
                pos.append(self.ev(k.value))
            else:
                kw[k.arg] = self.ev(k.value)
        return pos, kw, star

    def ev_Call(self, e):
        f = e.func
        if isinstance(f, ast.Name):
            return self.call_name(e, f.id)
        if isinstance(f, ast.Attribute):
            return self.call_attr(e, f)
        if isinstance(f, ast.Call) and isinstance(f.func, ast.Name) and f.func.id == "getattr" and f.args:
            g = self.ev(f)
            pos, kw, _ = self.eval_args(e)
            if g.dyn:
                bound = isinstance(f.args[0], ast.Name)     # getattr(self, ..) is bound, getattr(type(self), ..) is not
                return self.dynamic_call(e, "getattr(self, ...)(...)", pos, kw, bound)
        else:
            self.ev(f)
            pos, kw, _ = self.eval_args(e)
        self.stat("calls_callable_param")
        self.note(e, "call of a computed callable: result unknown, no effect attributed")
        return V([UNKNOWN])

    def call_name(self, e, n):
        if self.is_local(n):
            g = self.fn.nested.get(n)
            if g is not None:
                pos, kw, star = self.eval_args(e)
                return self.summary_call(g, ("self",) if g.has_self else ("none",), pos, kw, e, star)
            cands = self.decorated_candidates(n)
            pos, kw, star = self.eval_args(e)
            if cands is not None:
                return self.dispatch(e, cands, pos, kw)
            if n in self.dynamic:
                return self.dynamic_call(e, f"{n} = getattr(self, ...)", pos, kw, self.dynamic_bound.get(n, False))
            self.stat("calls_callable_param")
            self.note(e, f"call through the local / parameter `{n}`: the caller's code, result unknown, no effect attributed")
            return V([UNKNOWN])
        if n == "getattr":
            return self.call_getattr(e)
        if n == "super" and self.fn.has_self:
            return V([("self", 0)], "any")      # a method reached through super() works on this object
        if n == "setattr":
            pos, kw, _ = self.eval_args(e)
            if pos:
                self.store_attr(e, pos[0], "<setattr>", pos[-1], is_self=(pos[0].srcs == [("self", 0)]))
            return V([FRESH], "scalar")
        fn = self.reg.resolve_func(self.mod, n)
        if fn is not None:
            pos, kw, star = self.eval_args(e)
            return self.call_function(fn, ("none",), pos, kw, e, star)
        ci = self.reg.resolve_class(self.mod, n)
        if ci is not None:
            pos, kw, star = self.eval_args(e)
            return self.construct(ci, pos, kw, e, star)
        pos, kw, star = self.eval_args(e)
        allv = pos + list(kw.values())
        if n in SCALAR_BUILTINS:
            return V([FRESH], "scalar")
        if n in FRESH_BUILTINS:
            k = "scalar" if n in ("abs", "round", "sum", "pow", "divmod") and all(v.kind == "scalar" for v in allv) else "any"
            return V([FRESH], k)
        if n in ALIAS_BUILTINS:
            if n in ("min", "max") and all(v.kind == "scalar" for v in allv):
                return V([FRESH], "scalar")
            return V([FRESH] + views([s for v in allv for s in v.srcs if s != FRESH]),
                     "local" if n in ("list", "tuple", "set", "dict", "sorted") else "any")
        imp = self.mod.imports.get(n)
        if imp is not None and imp[0] == "extobject" and tuple(imp[1]) + (imp[2],) in PURE_SCIPY:
            return V([FRESH], "npvalue")
        return self.unknown_call(e, n, ("none",), allv)

    def call_getattr(self, e):
        pos, kw, _ = self.eval_args(e)
        a0 = e.args[0] if e.args else None
        dyn = False
        if isinstance(a0, ast.Name) and a0.id == "self" and self.fn.has_self:
            dyn = True
        if isinstance(a0, ast.Call) and isinstance(a0.func, ast.Name) and a0.func.id == "type" and a0.args \
                and isinstance(a0.args[0], ast.Name) and a0.args[0].id == "self" and self.fn.has_self:
            dyn = True
        srcs = [s for v in pos[:1] + pos[2:] for s in v.srcs]
        v = V(srcs or [FRESH], "any", dyn=dyn)
        self._last_getattr_bound = isinstance(a0, ast.Name)
        return v

    def decorated_candidates(self, n):
        """inside a decorator's nested function: a call of the decorated-function parameter"""
        if self.fn.parent is None:
            return None
        root = self.reg.decorator_root(self.fn)
        cands = self.reg.decorated.get(root.qual)
        if not cands:
            return None
        p = self.fn
        holders = set()
        while p is not None:
            holders |= set(p.params)
            p = p.parent
        if n in holders and (n in self.fn.captured or n in self.fn.params):
            return cands
        return None

    def dynamic_call(self, e, text, pos, kw, bound):
        """`getattr(self, name)(...)` / `m = getattr(type(self), name); m(self, ...)`: the callee is one of the PUBLIC
        methods of the class (the name is a metric / method name chosen by the caller) - or, when the name was a
        parameter holding a callable, the caller's own code, which is not attributed to the query"""
        cls = self.cls
        if cls is None:
            return self.unknown_call(e, text, ("self",), pos + list(kw.values()))
        cands = [m for n, m in sorted(cls.methods.items())
                 if not n.startswith("_") and not m.is_property and self.reg.wrapper_of(m) is None]
        if not cands or any(self.reg.wrapper_of(m) == "unknown" for m in cls.methods.values()):
            return self.unknown_call(e, text, ("self",), pos + list(kw.values()))
        self.note(e, f"dynamic dispatch {text}: any public method of {cls.name} ({len(cands)} candidates)")
        if bound:       # bound method: the receiver is self, every argument is a real argument
            return self.dispatch(e, cands, [V([("self", 0)], "any", cls)] + pos, kw)
        return self.dispatch(e, cands, pos, kw)

    def dispatch(self, e, cands, pos, kw):
        """call of ANY of the candidate functions (the first positional argument is the receiver): nested branches,
        each binding the same result name"""
        dst = self.tmp()
        allv = pos + list(kw.values())
        recv_v = pos[0] if pos else None
        rest = allv[1:] if pos else allv
        u = self.tmp()
        self.emit(("bind", u, _uniq([s for v in rest for s in v.srcs]) or [FRESH]))
        recv_name = self.name_for(recv_v) if recv_v is not None else None

        def mk(c):
            def f():
                args = [u] * len(c.all_params)
                recv = ("none",)
                if c.has_self and recv_name is not None:
                    recv = ("self",) if recv_v.srcs == [("self", 0)] else ("obj", recv_name)
                self.callees.add(c.qual)
                self.emit(("call", dst, self.sh.fid(c.qual), recv, args, self.site(e, f"dispatch to {c.qual}")))
            return f
        blocks = [self.block(mk(c)) for c in cands]
        cur = blocks[-1]
        for b in reversed(blocks[:-1]):
            cur = [("branch", b, cur)]
        for s in cur:
            self.emit(s)
        self.stat("calls_summarised")
        return V([("alias", dst)], "any")

    def call_attr(self, e, f):
        mp = self.module_path(f)
        if mp is not None:
            return self.call_module(e, mp)
        if isinstance(f.value, ast.Call) and isinstance(f.value.func, ast.Name) and f.value.func.id == "super" \
                and self.fn.has_self:
            pos, kw, _ = self.eval_args(e)
            return self.unknown_call(e, f"super().{f.attr}", ("self",), pos + list(kw.values()))
        # method of self
        if isinstance(f.value, ast.Name) and f.value.id == "self" and self.fn.has_self:
            pos, kw, star = self.eval_args(e)
            m = self.cls.find(f.attr) if self.cls is not None else None
            if m is None:
                return self.unknown_call(e, f"self.{f.attr}", ("self",), pos + list(kw.values()))
            if m.is_property:
                self.summary_call(m, ("self",), [], {}, e, False)
                return V([UNKNOWN])
            return self.call_function(m, ("none",) if m.is_static else ("self",), pos, kw, e, star)
        # Class.method(...)
        if isinstance(f.value, ast.Name) and not self.is_local(f.value.id):
            ci = self.reg.resolve_class(self.mod, f.value.id)
            if ci is not None:
                pos, kw, star = self.eval_args(e)
                m = ci.find(f.attr)
                if m is not None and m.is_static:
                    return self.call_function(m, ("none",), pos, kw, e, star)
                if m is not None and m.has_self and pos and not star:
                    r = pos[0]
                    recv = ("self",) if r.srcs == [("self", 0)] else ("obj", self.name_for(r))
                    return self.call_function(m, recv, pos[1:], kw, e, star)
                return self.unknown_call(e, f"{ci.name}.{f.attr}", ("none",), pos + list(kw.values()))
        v = self.ev_write_target(f.value) if f.attr in MUTATOR_METHODS else self.ev(f.value)
        pos, kw, star = self.eval_args(e)
        allv = pos + list(kw.values())
        a = f.attr
        if v.typ is not None:
            m = v.typ.find(a)
            if m is not None and not m.is_property:
                recv = ("self",) if v.srcs == [("self", 0)] else ("obj", self.name_for(v))
                return self.call_function(m, ("none",) if m.is_static else recv, pos, kw, e, star)
            return self.unknown_call(e, f"<{v.typ.name}>.{a}", ("obj", self.name_for(v)), allv)
        if a in MUTATOR_METHODS:
            self.write_through(v.srcs if v.kind != "local" else [FRESH], True, e,
                               f".{a}()" + (" on a container created here" if v.kind == "local" else ""))
            if a in ("append", "extend", "insert", "add", "update", "setdefault", "appendleft", "extendleft"):
                self.retain(f.value, [s for x in allv for s in x.srcs if s != FRESH])
                if isinstance(f.value, ast.Name) and v.kind == "local" and allv:
                    put = allv[-1].kind if a in ("append", "insert", "add", "appendleft", "setdefault") else "any"
                    self.ekinds[f.value.id] = ekjoin(self.ekinds.get(f.value.id), put)
            if a in ("pop", "setdefault", "popitem", "popleft"):
                return V([FRESH] + views(v.srcs), "any")
            return V([FRESH], "scalar")
        if "out" in kw:
            self.write_through(kw["out"].srcs, True, e, f".{a}(out=)")
            return V(kw["out"].srcs, "ndarray")
        if a == "astype":
            cp = next((k.value for k in e.keywords if k.arg == "copy"), None)
            if cp is not None and not (isinstance(cp, ast.Constant) and cp.value is True):
                return V([FRESH] + list(v.srcs), "ndarray")
            return V([FRESH], "ndarray")
        if a in ("item", "tolist"):
            return V([FRESH], "scalar" if a == "item" else "any")
        if a in ARR_FRESH_METHODS:
            return V([FRESH], "npvalue")
        if a in ARR_VIEW_METHODS:
            return V(views(v.srcs), "ndarray")
        if a in CONTAINER_READ_METHODS:
            return V([FRESH] + views(v.srcs) + [s for x in allv for s in x.srcs if s != FRESH], "any")
        if a in STR_METHODS and (v.kind == "scalar" or isinstance(f.value, (ast.Constant, ast.JoinedStr))):
            return V([FRESH], "scalar")
        return self.unknown_call(e, f"<expr>.{a}", ("obj", self.name_for(v)), allv)

    def call_module(self, e, mp):
        pos, kw, star = self.eval_args(e)
        allv = pos + list(kw.values())
        root, leaf = mp[0], mp[-1]
        if root == "numpy":
            if len(mp) == 3 and mp[1] == "random":
                if leaf == "shuffle" and pos:
                    self.write_through(pos[0].srcs, True, e, "np.random.shuffle")
                return V([FRESH], "npvalue")
            if "out" in kw and not (isinstance(kw["out"], V) and kw["out"].kind == "scalar"):
                self.write_through(kw["out"].srcs, True, e, f"np.{leaf}(out=)")
                return V(kw["out"].srcs, "ndarray")
            if len(mp) == 2 and leaf in NP_MUTATE_FIRST and pos:
                self.write_through(pos[0].srcs, True, e, f"np.{leaf}")
                return V([FRESH], "scalar")
            if len(mp) == 2 and leaf in ("array", "asarray", "asanyarray") :
                cp = next((k.value for k in e.keywords if k.arg == "copy"), None)
                if leaf == "array" and (cp is None or (isinstance(cp, ast.Constant) and cp.value is True)):
                    return V([FRESH], "ndarray")
                if leaf == "array":
                    return V([FRESH] + (pos[0].srcs if pos else []), "ndarray")
                return V(list(pos[0].srcs) if pos else [FRESH], "ndarray")
            if len(mp) == 2 and leaf in NP_VIEW:
                return V(views([s for v in pos[:1] for s in v.srcs]) or [FRESH], "ndarray")
            if len(mp) == 2 and leaf in NP_FRESH:
                return V([FRESH], np_result_kind(leaf))
            if len(mp) == 3 and mp[1] in ("linalg", "fft", "ma", "testing", "lib"):
                if mp[1] in ("linalg", "fft"):
                    return V([FRESH], "npvalue")
            return self.unknown_call(e, ".".join(mp), ("none",), allv)
        if root == "math":
            return V([FRESH], "scalar")
        if mp in PURE_SCIPY:
            return V([FRESH], "npvalue")
        if root == "score_analysis" and len(mp) == 3 and mp[1] in self.reg.modules:
            m = self.reg.modules[mp[1]]
            if leaf in m.funcs:
                return self.call_function(m.funcs[leaf], ("none",), pos, kw, e, star)
            if leaf in m.classes:
                return self.construct(m.classes[leaf], pos, kw, e, star)
        return self.unknown_call(e, ".".join(mp), ("none",), allv)

    def call_function(self, fn: Func, recv, pos, kw, e, star):
        """call of an analysed function; a decorated one is reached through its decorator's wrapper"""
        w = self.reg.wrapper_of(fn)
        if w == "unknown":
            return self.unknown_call(e, f"{fn.qual} (decorated)", recv, pos + list(kw.values()))
        if w is not None:
            allv = pos + list(kw.values())
            u = self.name_for(_uniq([s for v in allv for s in v.srcs]) or [FRESH])
            fresh = self.name_for([FRESH])
            args = [u] * len(w.params) + [fresh] * len(w.captured)
            self.callees.add(w.qual)
            self.stat("calls_summarised")
            dst = self.tmp()
            self.emit(("call", dst, self.sh.fid(w.qual), recv if w.has_self else ("none",), args,
                       self.site(e, f"call of {fn.qual} through its decorator wrapper {w.qual}")))
            return V([("alias", dst)], "any", self.reg._class_of_annotation(fn.module, fn.returns))
        return self.summary_call(fn, recv, pos, kw, e, star)

    def summary_call(self, fn: Func, recv, pos, kw, e, star):
        params = fn.params
        slots = [None] * len(params)
        if star:
            u = self.name_for(_uniq([s for v in pos + list(kw.values()) for s in v.srcs]) or [FRESH])
            slots = [u] * len(params)
            kinds = ["any"] * len(params)
        else:
            kinds = [None] * len(params)
            extra = []
            for i, v in enumerate(pos):
                if i < fn.npos:
                    slots[i], kinds[i] = v, v.kind
                else:
                    extra.append(v)
            for k, v in kw.items():
                if k in params and k not in (fn.vararg, fn.kwarg):
                    j = params.index(k)
                    slots[j], kinds[j] = v, v.kind
                else:
                    extra.append(v)
            for nm in (fn.vararg, fn.kwarg):
                if nm is not None:
                    j = params.index(nm)
                    mine = [s for v in extra for s in v.srcs]
                    slots[j] = V(_uniq([FRESH] + mine), "any")
                    kinds[j] = "any"
            if extra and fn.vararg is None and fn.kwarg is None:
                self.note(e, f"call of {fn.qual} with arguments that do not fit its signature")
        if not self.dry:
            rec = self.sh.callsite_kinds.setdefault(fn.qual, {})
            for i, k in enumerate(kinds):
                rec.setdefault(i, []).append(k if k is not None else "default")
        args = []
        for s in slots:
            if s is None:
                args.append(self.name_for([FRESH]))     # default value
            elif isinstance(s, V):
                args.append(self.name_for(s))
            else:
                args.append(s)
        for c in fn.captured:       # closure conversion: captured variables are extra parameters
            if self.is_local(c):
                args.append(self.nid(c))
            else:
                args.append(self.name_for([UNKNOWN]))
        dst = self.tmp()
        self.callees.add(fn.qual)
        self.stat("calls_summarised")
        self.emit(("call", dst, self.sh.fid(fn.qual), recv, args, self.site(e, f"call of {fn.qual}")))
        typ = self.reg._class_of_annotation(fn.module, fn.returns)
        return V([("alias", dst)], "any", typ)

    def construct(self, ci: ClassInfo, pos, kw, e, star):
        allv = pos + list(kw.values())
        held = [s for v in allv for s in v.srcs if s != FRESH]
        if ci.is_enum:
            return V([FRESH], "scalar", ci)
        new = self.tmp()
        self.emit(("bind", new, [FRESH]))
        init = ci.methods.get("__init__")
        if init is not None:
            self.summary_call(init, ("obj", new), pos, kw, e, star)
        elif not ci.is_dataclass and ci.bases:
            self.note(e, f"constructor of {ci.name} has no __init__ here (inherited): arguments retained, no effect assumed")
        obj = self.tmp()
        self.emit(("bind", obj, _uniq([("alias", new)] + views(held))))
        return V([("alias", obj)], "local", ci)

    def unknown_call(self, e, text, recv, vals):
        self.stat("calls_unknown")
        self.note(e, f"unknown callee {text}")
        args = []
        for v in vals:
            if all(s == FRESH for s in v.srcs):
                continue        # a callee cannot harm anything through a fresh value
            args.append(self.name_for(v))
        dst = self.tmp()
        self.emit(("call", dst, self.sh.uid(text), recv, args, self.site(e, f"unknown callee {text}")))
        return V([("alias", dst)], "any")

    def escape(self, g: Func, node):
        """the function object of a nested def is used as a value: it may be called later, any number of times"""
        def body():
            args = [self.name_for([UNKNOWN]) for _ in g.params]
            for c in g.captured:
                args.append(self.nid(c) if self.is_local(c) else self.name_for([UNKNOWN]))
            self.callees.add(g.qual)
            recv = ("self",) if g.has_self else ("none",)
            a0 = g.node.args.posonlyargs + g.node.args.args
            if g.has_self and a0 and a0[0].arg == "self":
                recv = ("obj", self.name_for([UNKNOWN]))    # a wrapper that takes its own `self`: receiver unknown here
            self.emit(("call", None, self.sh.fid(g.qual), recv, args,
                       self.site(node, f"closure {g.qual} escapes here; its effects are accounted at this point")))
        self.loop(body, set())

    # ---- writes ----
    def write_through(self, srcs, definite, node, what):
        srcs = [s for s in srcs if s != FRESH]
        self.stat("writes")
        if not srcs:
            srcs = [FRESH]
        x = self.name_for(srcs)
        self.emit(("write", x, bool(definite), self.site(node, f"in-place write {what}", self.describe(srcs))))

    def describe(self, srcs):
        inv = {v: k for k, v in self.names.items()}
        finv = {v: k for k, v in self.sh.fields.items()}
        out = []
        for s in srcs:
            if s[0] in ("alias", "view", "maybe"):
                out.append(f"{s[0]} {'view ' if s[0] == 'maybe' else ''}of {inv.get(s[1], s[1])}")
            elif s[0] == "self":
                out.append(f"self.{finv.get(s[1], s[1])}")
            else:
                out.append(s[0])
        return ", ".join(out)

    def retain(self, base_expr, srcs):
        """a container now holds references: weak update of the base name"""
        base_expr = self.base_name(base_expr)
        if isinstance(base_expr, ast.Name) and self.is_local(base_expr.id) and srcs:
            n = self.nid(base_expr.id)
            self.emit(("bind", n, _uniq([("alias", n)] + views(srcs))))

    def store_attr(self, node, objv: V, attr, val: V, is_self):
        if is_self:
            self.stat("self_stores")
            x = self.name_for(val)
            self.field_assign_kinds.setdefault(attr, []).append(val.kind)
            self.emit(("setself", self.sh.field(attr), x, self.site(node, f"store to self.{attr}")))
            return
        self.write_through(objv.srcs if objv.kind != "local" else [FRESH], True, node, f"attribute store .{attr} =")
        for s in objv.srcs:
            if s[0] in ("alias", "view"):
                self.emit(("bind", s[1], _uniq([("alias", s[1])] + views([t for t in val.srcs if t != FRESH]))))

    def base_name(self, e):
        while isinstance(e, (ast.Subscript, ast.Attribute)):
            e = e.value
        return e

    def assign(self, t, v: V, node):
        if isinstance(t, ast.Name):
            if t.id in self.nonlocal_names or not self.is_local(t.id):
                self.note(node, f"assignment to the global / nonlocal name {t.id}")
                self.write_through([UNKNOWN], True, node, f"global {t.id} =")
                return
            self.define(t.id, v.srcs)
            self.kinds[t.id] = v.kind
            if v.kind == "local":
                self.ekinds[t.id] = v.ek
            else:
                self.ekinds.pop(t.id, None)
            if v.typ is not None:
                self.types[t.id] = v.typ
            else:
                self.types.pop(t.id, None)
            if v.dyn:
                self.dynamic.add(t.id)
                self.dynamic_bound[t.id] = getattr(self, "_last_getattr_bound", False)
            else:
                self.dynamic.discard(t.id)
        elif isinstance(t, (ast.Tuple, ast.List)):
            if v.parts is not None and len(v.parts) == len(t.elts) and not any(isinstance(x, ast.Starred) for x in t.elts):
                for x, p in zip(t.elts, v.parts):
                    self.assign(x, p, node)
            else:
                for x in t.elts:
                    self.assign(x.value if isinstance(x, ast.Starred) else x, V(views(v.srcs), "any"), node)
        elif isinstance(t, ast.Starred):
            self.assign(t.value, V(views(v.srcs), "any"), node)
        elif isinstance(t, ast.Subscript):
            b = self.ev_write_target(t.value)
            self.index_class(t.slice)
            self.write_through(b.srcs if b.kind != "local" else [FRESH], True, node,
                               "subscript assignment" + (" into a container created here" if b.kind == "local" else ""))
            if b.kind != "ndarray":
                self.retain(self.base_name(t), [s for s in v.srcs if s != FRESH])
                if isinstance(t.value, ast.Name) and b.kind == "local":
                    self.ekinds[t.value.id] = ekjoin(self.ekinds.get(t.value.id), v.kind)
        elif isinstance(t, ast.Attribute):
            if isinstance(t.value, ast.Name) and t.value.id == "self" and self.fn.has_self:
                self.store_attr(node, None, t.attr, v, True)
            else:
                self.store_attr(node, self.ev_write_target(t.value), t.attr, v, False)
        else:
            self.unsupported(node, f"assignment target {type(t).__name__}")

    # ---- statements ----
    def stmt(self, s):
        m = getattr(self, "st_" + type(s).__name__, None)
        if m is None:
            self.unsupported(s, f"statement {type(s).__name__}")
            return
        m(s)

    def st_Expr(self, s):
        if isinstance(s.value, ast.Constant):
            return
        self.ev(s.value)

    def st_Pass(self, s):
        pass

    st_Break = st_Continue = st_Import = st_ImportFrom = st_Global = st_Nonlocal = st_Pass

    def st_FunctionDef(self, s):
        pass        # a body of its own (closure conversion); the def has no effect

    def st_ClassDef(self, s):
        self.unsupported(s, "nested class")

    def st_Return(self, s):
        if s.value is None:
            self.emit(("ret", [FRESH]))
        else:
            v = self.ev(s.value)
            self.emit(("ret", list(v.srcs)))

    def st_Raise(self, s):
        if s.exc is not None:
            self.ev(s.exc)
        self.emit(("ret", []))      # halts without a result

    def st_Assert(self, s):
        self.ev(s.test)

    def st_Delete(self, s):
        for t in s.targets:
            if isinstance(t, (ast.Subscript, ast.Attribute)):
                b = self.ev_write_target(t.value)
                if isinstance(t, ast.Attribute) and isinstance(t.value, ast.Name) and t.value.id == "self" \
                        and self.fn.has_self:
                    self.store_attr(s, None, t.attr, V([FRESH]), True)
                else:
                    self.write_through(b.srcs, True, s, "del")

    def st_Assign(self, s):
        v = self.ev(s.value)
        for t in s.targets:
            self.assign(t, v, s)

    def st_AnnAssign(self, s):
        if s.value is not None:
            self.assign(s.target, self.ev(s.value), s)

    def st_AugAssign(self, s):
        val = self.ev(s.value)
        t = s.target
        if isinstance(t, ast.Name):
            if not self.is_local(t.id) or t.id in self.nonlocal_names:
                self.write_through([UNKNOWN], True, s, f"global {t.id} op=")
                return
            k = self.kinds.get(t.id, "any")
            if k == "local":      # list += [...]: extends the container created here
                self.write_through([FRESH], True, s, "augmented assignment on a container created here")
                self.retain(t, [x for x in val.srcs if x != FRESH])
                self.ekinds[t.id] = ekjoin(self.ekinds.get(t.id), "any")
                return
            if k == "scalar":
                self.define(t.id, [FRESH])
                self.kinds[t.id] = "scalar" if val.kind == "scalar" else "npvalue"
                return
            self.stat("writes")
            # a NumPy value that shares memory with a parameter / a field can only be an ndarray (NumPy scalars are
            # always new objects), so `x op= v` on a NumPy-kinded name is a definite write wherever it is not fresh
            self.emit(("write", self.nid(t.id), k in NP_KINDS,
                       self.site(s, "augmented assignment" + ("" if k in NP_KINDS else " (the name may hold a scalar)"),
                                 t.id)))
        elif isinstance(t, ast.Subscript):
            b = self.ev_write_target(t.value)
            self.index_class(t.slice)
            self.write_through(b.srcs if b.kind != "local" else [FRESH], True, s, "augmented subscript assignment")
        elif isinstance(t, ast.Attribute):
            if isinstance(t.value, ast.Name) and t.value.id == "self" and self.fn.has_self:
                cur = self.self_attr(t)
                self.write_through(cur.srcs, cur.kind in NP_KINDS, s, f"self.{t.attr} op=")
                self.store_attr(s, None, t.attr, cur, True)
            else:
                b = self.ev_write_target(t.value)
                self.write_through(b.srcs, True, s, f".{t.attr} op=")
        else:
            self.unsupported(s, "augmented assignment target")

    def st_If(self, s):
        self.ev(s.test)
        self.branch2(lambda: self.stmts(s.body), lambda: self.stmts(s.orelse))

    def loop(self, body_fn, assigned, closure=False):
        """translate a loop body until the kinds are stable, emit `loop`.  Every Python name assigned in the body
        gets a loop-head IR name that receives the value from before the loop and every value the body gives it
        (so a read at the top of the body, after a `continue`, or after the loop / a `break` sees all of them)."""
        heads = self.enter_scope(assigned)
        self.scopes.append(heads)
        for _ in range(4):
            s0 = self.snap()
            h0 = {k: list(v) for k, v in self.hist.items()}
            self.dry += 1
            self.block(body_fn)
            self.dry -= 1
            s1 = self.snap()
            self.merge(s0, s1)
            self.ver = dict(s0[3])
            self.hist = h0
            if self.snap()[:3] == s0[:3]:
                break
        s0 = self.snap()
        blk = self.block(body_fn)
        self.merge(s0, self.snap())
        self.ver = dict(s0[3])
        self.scopes.pop()
        for n, h in heads.items():
            self.ver[n] = h
        self.emit(("loop", prefix_closure(blk) if closure else blk))

    @staticmethod
    def _has_jump(body):
        def walk(n):
            for c in ast.iter_child_nodes(n):
                if isinstance(c, (ast.Break, ast.Continue)):
                    return True
                if isinstance(c, (ast.For, ast.While, ast.FunctionDef, ast.Lambda, ast.ClassDef)):
                    continue
                if walk(c):
                    return True
            return False
        return any(isinstance(c, (ast.Break, ast.Continue)) or walk(c) for c in body)

    def st_For(self, s):
        it = self.ev(s.iter)
        rng = self._is_range(s.iter)

        def body():
            self.assign(s.target, V([FRESH], "scalar") if rng else V(views(it.srcs), "any"), s)
            self.stmts(s.body)
        self.loop(body, stored_names(s), closure=self._has_jump(s.body))
        if s.orelse:
            self.branch2(lambda: self.stmts(s.orelse), lambda: None)

    def st_While(self, s):
        self.ev(s.test)

        def body():
            self.stmts(s.body)
            self.ev(s.test)
        self.loop(body, stored_names(s), closure=self._has_jump(s.body))
        if s.orelse:
            self.branch2(lambda: self.stmts(s.orelse), lambda: None)

    def st_Try(self, s):
        # the handlers may start after ANY prefix of the body: names assigned in the body get a common IR name
        # that receives the value from before and every value the body gives them
        assigned = set()
        for st in s.body:
            assigned |= stored_names(st)
        heads = self.enter_scope(assigned)
        self.scopes.append(heads)
        s0 = self.snap()
        body = self.block(lambda: self.stmts(s.body))
        self.scopes.pop()
        for st in prefix_closure(body):
            self.emit(st)
        self.merge(s0, self.snap())
        self.ver = dict(s0[3])
        for n, h in heads.items():
            self.ver[n] = h
        for h in s.handlers:
            if h.type is not None:
                self.ev(h.type)
            self.branch2(lambda h=h: self.stmts(h.body), lambda: None)
        if s.orelse:
            self.branch2(lambda: self.stmts(s.orelse), lambda: None)
        if s.finalbody:
            self.stmts(s.finalbody)

    def st_With(self, s):
        for it in s.items:
            v = self.ev(it.context_expr)
            if it.optional_vars is not None:
                self.assign(it.optional_vars, V(v.srcs, "any"), s)
        self.stmts(s.body)


def stored_names(node):
    """Python names assigned anywhere inside the node"""
    out = set()
    for n in ast.walk(node):
        if isinstance(n, ast.Name) and isinstance(n.ctx, (ast.Store, ast.Del)):
            out.add(n.id)
        elif isinstance(n, ast.ExceptHandler) and n.name:
            out.add(n.name)
    return out


def prefix_closure(block):
    """every statement boundary is an optional exit (break / continue / an exception inside try)"""
    def one(st):
        if st[0] == "branch":
            return ("branch", prefix_closure(st[1]), prefix_closure(st[2]))
        if st[0] == "loop":
            return ("loop", prefix_closure(st[1]))
        return st
    out = []
    for st in reversed(block):
        out = [("branch", [one(st)] + out, [])]
    return out


# --------------------------------------------------------------------------------------
# whole run: all bodies, Lean file, report
# --------------------------------------------------------------------------------------
def translate_all(repo: Path):
    reg = Registry(repo)
    param_kinds = {}
    result = None
    for _pass in range(2):
        sh = Shared()
        for q in reg.funcs:     # stable ids: source order
            sh.fid(q)
        bodies = {}
        for q, fn in reg.funcs.items():
            tr = Translator(reg, fn, param_kinds.get(q, {}), sh)
            try:
                ir = tr.run()
            except RecursionError:
                raise
            except Exception as ex:  # noqa: BLE001  - never crash the check: the body becomes "not covered"
                tr = Translator(reg, fn, {}, sh)
                tr.unsupported(fn.node, f"translator error {type(ex).__name__}: {ex}")
                ir = tr.blocks[0] + [("ret", [FRESH])]
            bodies[q] = (ir, tr)
        result = (reg, sh, bodies)
        # parameters of private functions: join of the kinds at the call sites inside the analysed modules
        new = {}
        for q, fn in reg.funcs.items():
            if not (fn.name.startswith("_") and not fn.name.startswith("__")) and fn.parent is None:
                continue
            rec = sh.callsite_kinds.get(q)
            if not rec:
                continue
            pk = {}
            for i, ks in rec.items():
                if i < len(fn.params) and ks and all(k == "scalar" for k in ks):
                    pk[fn.params[i]] = "scalar"
                elif i < len(fn.params) and ks and all(k in NP_KINDS for k in ks):
                    kk = ks[0]
                    for k2 in ks[1:]:
                        kk = kjoin(kk, k2)
                    pk[fn.params[i]] = kk
            if pk:
                new[q] = pk
        if new == param_kinds:
            break
        param_kinds = new
    reg.param_kinds = param_kinds
    return result


def topo_order(reg, bodies):
    """callees first (Tarjan); members of a cycle keep source order (a callee not yet summarised is unknown)"""
    order, state = [], {}
    quals = list(bodies)

    def visit(q):
        stack = [(q, iter(sorted(bodies[q][1].callees)))]
        state[q] = 1
        while stack:
            cur, it = stack[-1]
            nxt = next(it, None)
            if nxt is None:
                stack.pop()
                state[cur] = 2
                order.append(cur)
            elif nxt in bodies and state.get(nxt, 0) == 0:
                state[nxt] = 1
                stack.append((nxt, iter(sorted(bodies[nxt][1].callees))))
    for q in quals:
        if state.get(q, 0) == 0:
            visit(q)
    return order


# ---- certificate: abstract environment of a body and summary table (NOT trusted: the Lean kernel re-checks
# closure, the write conditions and the table; a wrong certificate gives a harness problem, never a verdict) ----
def sccs(bodies, order):
    """strongly connected components of the call graph, callees first (order = a post-order of the graph)"""
    index = {q: i for i, q in enumerate(order)}
    rev = {q: [] for q in order}
    for q in order:
        for c in bodies[q][1].callees:
            if c in rev:
                rev[c].append(q)
    # Kosaraju: `order` is a DFS post-order of the call graph; components = DFS of the reversed graph from the
    # nodes in reverse post-order; emitted callers-first, so reverse at the end
    seen, comps = set(), []
    for q in reversed(order):
        if q in seen:
            continue
        comp, stack = [], [q]
        seen.add(q)
        while stack:
            x = stack.pop()
            comp.append(x)
            for y in rev[x]:
                if y not in seen:
                    seen.add(y)
                    stack.append(y)
        comps.append(sorted(comp, key=index.get))
    return list(reversed(comps))


def flatten(block, out=None):
    out = [] if out is None else out
    for st in block:
        if st[0] == "branch":
            flatten(st[1], out)
            flatten(st[2], out)
        elif st[0] == "loop":
            flatten(st[1], out)
        else:
            out.append(st)
    return out


def _resolve(R, src):
    k = src[0]
    if k in ("alias", "view"):
        return R.get(src[1], set())
    if k == "maybe":
        return {r if r == FRESH else UNKNOWN for r in R.get(src[1], set())}
    if k == "self":
        return {("self", src[1])}
    return {src}


def _ret_src(recv, args, root):
    k = root[0]
    if k == "param":
        return ("alias", args[root[1]]) if root[1] < len(args) else UNKNOWN
    if k == "self":
        return root if recv[0] == "self" else ("alias", recv[1]) if recv[0] == "obj" else UNKNOWN
    return root


def solve(ir, table):
    """least environment closed under the bindings of the body"""
    stmts = [st for st in flatten(ir) if st[0] == "bind" or (st[0] == "call" and st[1] is not None)]
    R = {}
    changed = True
    while changed:
        changed = False
        for st in stmts:
            if st[0] == "bind":
                x, new = st[1], set()
                for src in st[2]:
                    new |= _resolve(R, src)
            else:
                x = st[1]
                summ = table.get(st[2])
                if summ is None:
                    new = {UNKNOWN}
                else:
                    new = set()
                    for root in summ["ret"]:
                        new |= _resolve(R, _ret_src(st[3], st[4], root))
            cur = R.setdefault(x, set())
            if not new <= cur:
                cur |= new
                changed = True
    return R


def mirror_findings(ir, R, table):
    out = []
    for st in flatten(ir):
        if st[0] == "write":
            out.append(("write", R.get(st[1], set()), st[2]))
        elif st[0] == "setself":
            out.append(("selfstore", set(), True))
        elif st[0] == "call":
            summ, recv, args = table.get(st[2]), st[3], st[4]
            if summ is not None:
                for i in summ["writes"]:
                    if i < len(args):
                        out.append(("write", R.get(args[i], set()), True))
                if summ["effSelf"]:
                    if recv[0] == "self":
                        out.append(("selfeffect", {("self", 0)}, True))
                    elif recv[0] == "obj":
                        out.append(("selfeffect", R.get(recv[1], set()), True))
            else:
                for a in args:
                    out.append(("write", R.get(a, set()), False))
                if recv[0] == "self":
                    out.append(("unknownself", set(), False))
                elif recv[0] == "obj":
                    out.append(("write", R.get(recv[1], set()), False))
    return out


def summarise(ir, R, table):
    """summary of a body all of whose findings can be expressed by one, else None"""
    fs = mirror_findings(ir, R, table)
    writes, eff = set(), False
    for kind, roots, definite in fs:
        if kind == "unknownself":
            return None
        if kind == "selfstore":
            eff = True
            continue
        for r in roots:
            if r[0] == "unknown":
                return None
            if r[0] in ("param", "self") and not definite and kind == "write":
                return None
            if r[0] == "param":
                writes.add(r[1])
            if r[0] == "self":
                eff = True
    ret = set()
    for st in flatten(ir):
        if st[0] == "ret":
            for src in st[1]:
                ret |= _resolve(R, src)
    return {"writes": sorted(writes), "effSelf": eff, "ret": sorted(ret)}


def lean_root(r):
    k = r[0]
    if k in ("fresh", "unknown"):
        return "Root." + k
    if k == "param":
        return f"Root.param {r[1]}"
    return f"Root.selfField {r[1]}"


def lean_roots(rs):
    return "[" + ", ".join(lean_root(r) for r in sorted(rs)) + "]"


def lean_tree(items):
    """literal of SA.Effects.Tree: key 0 at the root, 2m+1 in the left subtree under m, 2m+2 in the right one"""
    if not items:
        return "Tree.leaf"
    v = items.get(0)
    left = {(k - 1) // 2: x for k, x in items.items() if k % 2 == 1}
    right = {k // 2 - 1: x for k, x in items.items() if k % 2 == 0 and k > 0}
    return f"Tree.node ({lean_tree(left)}) ({'none' if v is None else 'some (' + v + ')'}) ({lean_tree(right)})"


def lean_cert(R):
    return lean_tree({x: lean_roots(rs) for x, rs in R.items()})


def lean_src(s):
    k = s[0]
    if k in ("fresh", "unknown"):
        return "Src." + k
    if k == "param":
        return f"Src.param {s[1]}"
    if k == "self":
        return f"Src.selfField {s[1]}"
    if k == "view":
        return f"Src.viewOf {s[1]}"
    if k == "maybe":
        return f"Src.maybeViewOf {s[1]}"
    return f"Src.aliasOf {s[1]}"


def lean_srcs(srcs):
    return "[" + ", ".join(lean_src(s) for s in srcs) + "]"


def lean_recv(r):
    return {"none": "Recv.none", "self": "Recv.self"}.get(r[0]) or f"(Recv.obj {r[1]})"


def lean_stmt(st):
    k = st[0]
    if k == "bind":
        return f"Stmt.bind {st[1]} {lean_srcs(st[2])}"
    if k == "write":
        return f"Stmt.writeInPlace {st[1]} {'true' if st[2] else 'false'} {st[3]}"
    if k == "setself":
        return f"Stmt.setSelfField {st[1]} {st[2]} {st[3]}"
    if k == "ret":
        return f"Stmt.ret {lean_srcs(st[1])}"
    if k == "call":
        dst = "none" if st[1] is None else f"(some {st[1]})"
        return f"Stmt.call {dst} {st[2]} {lean_recv(st[3])} [{', '.join(str(a) for a in st[4])}] {st[5]}"
    if k == "branch":
        return f"Stmt.branch ({lean_block(st[1])}) ({lean_block(st[2])})"
    if k == "loop":
        return f"Stmt.loop ({lean_block(st[1])})"
    raise ValueError(k)


def lean_block(block):
    if not block:
        return "Stmt.skip"
    # right-nested seq, built iteratively
    out = lean_stmt(block[-1])
    for st in reversed(block[:-1]):
        out = f"Stmt.seq ({lean_stmt(st)}) ({out})"
    return out


def count_ir(block):
    n = 0
    for st in block:
        n += 1
        if st[0] == "branch":
            n += count_ir(st[1]) + count_ir(st[2])
        elif st[0] == "loop":
            n += count_ir(st[1])
    return n


def generate(repo: Path, out_dir: Path, tag: str):
    reg, sh, bodies = translate_all(repo)
    order = topo_order(reg, bodies)
    mod_name = f"GeneratedC10Effects_{tag}"
    lines = ["-- GENERATED by harness/effects.py from the source under " + str(repo) + "; do not edit",
             "import SA.Model.Effects", "set_option maxRecDepth 100000", "open SA.Effects",
             f"namespace SA.{mod_name}", ""]
    table, certs = {}, {}
    for comp in sccs(bodies, order):    # callees first
        rec = len(comp) > 1 or comp[0] in bodies[comp[0]][1].callees
        if rec:     # (mutually) recursive: start from "no effect, returns nothing new" and iterate; the kernel checks
            for q in comp:      # the result against the bodies (tableChecked), so the iteration is not trusted
                table[sh.func_ids[q]] = {"writes": [], "effSelf": False, "ret": []}
        for _round in range(12 if rec else 1):
            changed = False
            for q in comp:
                ir, tr = bodies[q]
                R = solve(ir, table)
                certs[q] = R
                summ = summarise(ir, R, table)
                g = sh.func_ids[q]
                if summ is None:
                    if g in table:
                        del table[g]
                        changed = True
                elif table.get(g) != summ and (not rec or g in table):
                    table[g] = summ
                    changed = True
            if not changed:
                break
        else:
            if rec:     # no fixpoint: the members are unknown callees
                for q in comp:
                    table.pop(sh.func_ids[q], None)
                for q in comp:
                    certs[q] = solve(bodies[q][0], table)
    for q in order:
        ir, tr = bodies[q]
        fn = reg.funcs[q]
        lines.append(f"/-- {q}  ({'entry' if fn.entry else 'helper'}; parameters {fn.all_params}) -/")
        lines.append(f"def b{sh.func_ids[q]} : Body := Body.mk {sh.func_ids[q]} {'true' if fn.entry else 'false'}")
        lines.append(f"  ({lean_block(ir)})")
        lines.append(f"  ({lean_cert(certs[q])})")
    lines.append("")
    lines.append("def bodies : List Body := [" + ", ".join(f"b{sh.func_ids[q]}" for q in order) + "]")
    lines.append("")
    lines.append("/-- summaries of the callees (certificate: checked against the bodies by `tableChecked`) -/")
    lines.append("def table : Table := " + lean_tree(
        {g: f"Summary.mk {t['writes']} {'true' if t['effSelf'] else 'false'} {lean_roots(t['ret'])}" for g, t in table.items()}))
    lines.append("")
    lines.append('#eval IO.println ("\\n".intercalate (reportLines table bodies))')
    lines.append("")
    # the covered entry bodies as the mirror sees them (the kernel recomputes the list: a wrong guess fails)
    covered, violators = [], []
    for q in order:
        if not reg.funcs[q].entry:
            continue
        fs = mirror_findings(bodies[q][0], certs[q], table)
        viol = any((k == "selfstore") or (k == "selfeffect" and any(r[0] in ("param", "self") for r in roots))
                   or (k == "write" and definite and any(r[0] in ("param", "self") for r in roots))
                   for k, roots, definite in fs)
        ok = all(k in ("write", "selfeffect") and all(r == FRESH for r in roots) for k, roots, definite in fs)
        if viol:
            violators.append(sh.func_ids[q])
        elif ok:
            covered.append(sh.func_ids[q])
    lines.append("/-- every summary in use was checked against its body; the entry bodies with a definite violation (none on a")
    lines.append("clean tree); the entry bodies with verdict ok, which satisfy the hypotheses of")
    lines.append("`SA.Effects.C10_effects_no_mutation` (`SA.Effects.analysis_sound`) -/")
    lines.append("theorem generated_c10_effects_ok : analysis table bodies = ⟨true, [" + ", ".join(map(str, violators))
                 + "], [" + ", ".join(map(str, covered)) + "]⟩ := by decide +kernel")
    lines.append("")
    lines.append("#print axioms generated_c10_effects_ok")
    lines.append(f"end SA.{mod_name}")
    out_dir.mkdir(parents=True, exist_ok=True)
    f = out_dir / f"{mod_name}.lean"
    f.write_text("\n".join(lines) + "\n")
    meta = {"repo": str(repo), "lean_file": str(f), "module": mod_name, "order": order,
            "ids": {str(v): k for k, v in sh.func_ids.items()},
            "unknown_callees": {str(v): k for k, v in sh.unknown_ids.items()},
            "fields": {str(v): k for k, v in sh.fields.items()},
            "sites": sh.sites, "param_kinds": reg.param_kinds, "registry_notes": reg.notes,
            "table": {str(g): t for g, t in table.items()}, "functions": {},
            "stated_violators": [order_q for order_q in order if sh.func_ids[order_q] in violators],
            "stated_covered": [order_q for order_q in order if sh.func_ids[order_q] in covered]}
    for q in order:
        ir, tr = bodies[q]
        fn = reg.funcs[q]
        meta["functions"][q] = {"id": sh.func_ids[q], "entry": fn.entry, "params": fn.all_params,
                                "file": f"score_analysis/{fn.module.name}.py", "line": fn.node.lineno,
                                "ir_statements": count_ir(ir), "stats": tr.stats, "notes": tr.notes,
                                "names": {str(v): k for k, v in tr.names.items()}}
    return f, meta


REPORT_KV = re.compile(r"(\w+)=(\S*)")


def run_lean(lean_file: Path, timeout=600):
    t0 = time.time()
    p = subprocess.run(["lake", "env", "lean", str(lean_file)], cwd=LEAN, capture_output=True, text=True,
                       timeout=timeout)
    return p.returncode, p.stdout + p.stderr, time.time() - t0


def cached_lean(lean_file: Path, module: str):
    """compile the generated file, or reuse the result of an earlier run on a byte-identical file (same generated
    text up to the process id in the module name, same checker source, same toolchain)"""
    import hashlib
    h = hashlib.sha256()
    h.update(lean_file.read_text().replace(module, "GeneratedC10Effects_X").replace(str(lean_file), "").encode())
    for dep in (LEAN / "SA" / "Model" / "Effects.lean", LEAN / "lean-toolchain", LEAN / "lake-manifest.json"):
        if dep.exists():
            h.update(dep.read_bytes())
    cdir = WORK / "effects_cache"
    cdir.mkdir(parents=True, exist_ok=True)
    cf = cdir / (h.hexdigest()[:32] + ".json")
    if cf.exists() and os.environ.get("VERIF_EFFECTS_NOCACHE") != "1":
        try:
            c = json.loads(cf.read_text())
            return c["rc"], c["text"].replace("GeneratedC10Effects_X", module), 0.0, True
        except Exception:  # noqa: BLE001
            pass
    rc, text, t = run_lean(lean_file)
    try:
        tmp = cf.with_suffix(f".{os.getpid()}.tmp")
        tmp.write_text(json.dumps({"rc": rc, "text": text.replace(module, "GeneratedC10Effects_X")}))
        tmp.replace(cf)
        old = sorted(cdir.glob("*.json"), key=lambda p: p.stat().st_mtime)
        for p in old[:-40]:
            p.unlink()
    except OSError:
        pass
    return rc, text, t, False


def parse_report(text, meta):
    bodies, findings, axioms = {}, [], {}
    for ln in text.splitlines():
        if ln.startswith("BODY "):
            d = dict(REPORT_KV.findall(ln[5:]))
            q = meta["ids"].get(d["name"], d["name"])
            summ = meta["table"].get(d["name"])
            bodies[q] = {"entry": d["entry"] == "1", "verdict": d["verdict"], "has_summary": d["summary"] == "1",
                         "cert_closed": d.get("closed") == "1",
                         "writes_params": summ["writes"] if summ else None,
                         "effect_on_self": summ["effSelf"] if summ else None,
                         "result_roots": d.get("ret", ""), "returns_no_input_alias": d.get("noalias") == "1"}
        elif ln.startswith("FINDING "):
            d = dict(REPORT_KV.findall(ln[8:]))
            q = meta["ids"].get(d["body"], d["body"])
            site = meta["sites"][int(d["site"])] if d.get("site", "").isdigit() and int(d["site"]) < len(meta["sites"]) else {}
            fn = meta["functions"].get(q, {})
            f = {"function": q, "class": d["class"], "kind": d["kind"], "roots": d.get("roots", ""),
                 "site": site}
            if "name" in d:
                f["name"] = fn.get("names", {}).get(d["name"], d["name"])
            if "callee" in d:
                f["callee"] = meta["ids"].get(d["callee"]) or meta["unknown_callees"].get(d["callee"], d["callee"])
            if "field" in d:
                f["field"] = meta["fields"].get(d["field"], d["field"])
            if "definite" in d:
                f["definite"] = d["definite"] == "1"
            findings.append(f)
    for m in re.finditer(r"'([^']+)' depends on axioms: \[([^\]]*)\]", text, flags=re.S):
        axioms[m.group(1).split(".")[-1]] = [a.strip() for a in m.group(2).replace("\n", " ").split(",") if a.strip()]
    for m in re.finditer(r"'([^']+)' does not depend on any axioms", text):
        axioms[m.group(1).split(".")[-1]] = []
    return bodies, findings, axioms


def roots_text(roots, meta, fn):
    out = []
    for r in roots.split(","):
        if r.startswith("param:"):
            i = int(r[6:])
            ps = fn.get("params", [])
            out.append(f"parameter `{ps[i]}`" if i < len(ps) else r)
        elif r.startswith("self:"):
            f = meta["fields"].get(r[5:], r[5:])
            out.append("self" if f == "<self>" else f"self.{f}")
        elif r:
            out.append(r)
    return ", ".join(out)


def analyse(repo: Path = None, keep=False):
    """translate, compile, parse; returns the evidence dictionary (never raises for a translation problem)"""
    repo = Path(repo or os.environ.get("SA_REPO", "/repo")).resolve()
    WORK.mkdir(exist_ok=True)
    t0 = time.time()
    lean_file, meta = generate(repo, WORK, str(os.getpid()))
    t_translate = time.time() - t0
    rc, text, t_lean, cached = cached_lean(lean_file, meta["module"])
    bodies, findings, axioms = parse_report(text, meta)
    errors = [ln for ln in text.splitlines() if ": error:" in ln]
    entries = {q: b for q, b in bodies.items() if b["entry"]}
    for f in findings:
        f["target"] = roots_text(f["roots"], meta, meta["functions"].get(f["function"], {}))
    viol = [f for f in findings if f["class"] == "violation" and bodies.get(f["function"], {}).get("entry")]
    unknown = [f for f in findings if f["class"] == "unknown" and bodies.get(f["function"], {}).get("entry")]
    ok_thm = "generated_c10_effects_ok" in axioms and "sorryAx" not in axioms["generated_c10_effects_ok"]
    cov_thm = ok_thm
    bad_axioms = sorted({a for ax in axioms.values() for a in ax} - {"propext", "Classical.choice", "Quot.sound"})
    not_closed = sorted(q for q, b in bodies.items() if not b["cert_closed"])
    res = {
        "repo": str(repo), "lean_file": str(lean_file), "lean_rc": rc,
        "wall_s": {"translate": round(t_translate, 2), "lean": round(t_lean, 2)}, "lean_result_cached": cached,
        "functions_analysed": len(meta["functions"]),
        "entry_functions": len(entries),
        "ir_statements": sum(f["ir_statements"] for f in meta["functions"].values()),
        "python_statements": sum(f["stats"]["statements"] for f in meta["functions"].values()),
        "writes_classified": sum(f["stats"]["writes"] for f in meta["functions"].values()),
        "self_stores": sum(f["stats"]["self_stores"] for f in meta["functions"].values()),
        "calls": {k: sum(f["stats"][k] for f in meta["functions"].values())
                  for k in ("calls_summarised", "calls_unknown", "calls_callable_param", "unsupported")},
        "verdicts": {v: sorted(q for q, b in entries.items() if b["verdict"] == v)
                     for v in ("ok", "violation", "notcovered")},
        "helpers": {q: {"has_summary": b["has_summary"], "writes_params": b["writes_params"],
                        "effect_on_self": b["effect_on_self"]} for q, b in bodies.items() if not b["entry"]},
        "writes": [{"function": f["function"], "class": f["class"], "target": f["target"], "kind": f["kind"],
                    "where": f"{f['site'].get('file', '?')}:{f['site'].get('line', '?')}",
                    "text": f["site"].get("text", ""), "what": f["site"].get("what", "")}
                   for f in findings if f["kind"] in ("write", "selfstore", "selfeffectcall", "unknownselfcall")],
        "violations": viol, "unknowns": unknown,
        "returns_input_alias": sorted(q for q, b in entries.items() if not b["returns_no_input_alias"]),
        "theorems": {"generated_c10_effects_ok": axioms.get("generated_c10_effects_ok")},
        "bad_axioms": bad_axioms, "certificates_not_closed": not_closed,
        "lean_errors": errors[:10],
        "notes": {q: f["notes"] for q, f in meta["functions"].items() if f["notes"]},
        "param_kinds": meta["param_kinds"],
        "report_parsed": bool(bodies),
    }
    # the verdict lists are kernel-checked (the theorem states them); the report gives the details
    proved = ok_thm and rc == 0 and not bad_axioms
    res["stated"] = {"violators": meta["stated_violators"], "covered": len(meta["stated_covered"])}
    consistent = (sorted(meta["stated_violators"]) == res["verdicts"]["violation"]
                  and sorted(meta["stated_covered"]) == res["verdicts"]["ok"])
    if not proved or not consistent:
        res["status"] = "harness-problem"
    elif meta["stated_violators"]:
        res["status"] = "violation"
    else:
        res["status"] = "ok" if not not_closed else "harness-problem"
    if not keep:
        try:
            lean_file.unlink()
        except OSError:
            pass
    res["_meta"] = meta
    return res


def describe_violation(f):
    s = f["site"]
    where = f"{s.get('file', '?')}:{s.get('line', '?')}"
    if f["kind"] == "selfstore":
        what = f"store to self.{f.get('field', '?')}"
    elif f["kind"] == "selfeffectcall":
        what = f"call of {f.get('callee', '?')}, which stores to / writes into its self, on {f['target']}"
    else:
        what = f"in-place write ({s.get('what', '')}) whose target resolves to {f['target']}"
    return f"{f['function']} [{where}] `{s.get('text', '')}`: {what}"


# --------------------------------------------------------------------------------------
# integration in ./check C10 (harness/props/c10.py: extra_gate_start / extra_gate_finish)
# --------------------------------------------------------------------------------------
def start(repo: Path):
    """run the analysis in a child process (the generated cases run meanwhile)"""
    WORK.mkdir(exist_ok=True)
    out = WORK / f"effects_result_{os.getpid()}.json"
    p = subprocess.Popen([sys.executable, str(Path(__file__).resolve()), "--repo", str(repo), "--json", str(out),
                          "--quiet"], stdout=subprocess.PIPE, stderr=subprocess.STDOUT, text=True)
    return p, out


def finish(handle, timeout=900):
    p, out = handle
    try:
        log, _ = p.communicate(timeout=timeout)
    except subprocess.TimeoutExpired:
        p.kill()
        return {"status": "harness-problem", "problem": "effect analysis timed out"}
    try:
        res = json.loads(out.read_text())
        out.unlink()
        return res
    except Exception as ex:  # noqa: BLE001
        return {"status": "harness-problem", "problem": f"effect analysis produced no result ({type(ex).__name__}): {log[-400:]}"}


THEOREM = "generated_c10_effects_ok (regenerated from the source by harness/effects.py on this run)"


def gate_result(res):
    """what ./check needs: problems (broken obligation), theorems, counts, evidence"""
    out = {"problems": [], "theorems": {}, "obligations": 1, "discharged": 0, "notes": []}
    st = res.get("status")
    if st == "harness-problem":
        why = res.get("problem") or "; ".join(res.get("lean_errors", [])[:2]) or "certificate / report mismatch"
        out["notes"].append(f"EFFECT-MODEL-PROBLEM the effect model could not be evaluated on this tree ({why[:300]}); "
                            "the sampled histories remain the only evidence for the no-mutation clause")
        out["evidence"] = {"status": "not evaluated (harness problem)", "detail": why[:600]}
        out["obligations"] = 0
        return out
    seen = set()
    for f in res.get("violations", []):
        key = (f["site"].get("file"), f["site"].get("line"), f["function"])
        if key in seen:
            continue
        seen.add(key)
        out["problems"].append("effect model (regenerated from the source): definite violation of 'no query mutates "
                               "the object or a caller's array' in " + describe_violation(f))
    if st == "ok":
        out["discharged"] = 1
        out["theorems"][THEOREM] = (res.get("theorems") or {}).get("generated_c10_effects_ok")
    v = res.get("verdicts", {})
    unknown_fns = {}
    for f in res.get("unknowns", []):
        unknown_fns.setdefault(f["function"], []).append(
            f"{f['site'].get('file', '?')}:{f['site'].get('line', '?')} {f['site'].get('what', '')} -> {f.get('target') or 'unknown'}")
    out["evidence"] = {
        "status": st,
        "what": "Python ast -> effect IR (lean/SA/Model/Effects.lean) for every function of scores/cm/metrics/utils/"
                "roc_curve.py, certificates checked by the Lean kernel (decide +kernel) in a generated file; soundness of "
                "the checker: SA.Effects.C10_effects_no_mutation / analysis_sound (lean/SA/Theorems/C10Effects.lean)",
        "functions_analysed": res.get("functions_analysed"), "entry_functions": res.get("entry_functions"),
        "python_statements_classified": res.get("python_statements"), "ir_statements": res.get("ir_statements"),
        "in_place_writes_found": res.get("writes_classified"), "stores_to_self_found": res.get("self_stores"),
        "calls": res.get("calls"),
        "entry_ok": len(v.get("ok", [])), "entry_violation": v.get("violation", []),
        "not_covered_by_the_effect_model": {q: unknown_fns.get(q, [])[:4] for q in v.get("notcovered", [])},
        "writes_with_target_provenance": [
            {k: w[k] for k in ("function", "class", "target", "where", "what")} for w in res.get("writes", [])
            if w["kind"] != "write" or w["what"].startswith(("in-place", "augmented"))][:120],
        "returns_a_view_or_alias_of_an_input": res.get("returns_input_alias", []),
        "private_parameter_kinds_from_call_sites": res.get("param_kinds"),
        "translator_notes": res.get("notes"),
        "generated_theorem_axioms": res.get("theorems"),
        "lean_result_cached": res.get("lean_result_cached"), "wall_s": res.get("wall_s"),
    }
    return out


def main(argv=None):
    import argparse
    ap = argparse.ArgumentParser()
    ap.add_argument("--repo", default=None)
    ap.add_argument("--json", default=None)
    ap.add_argument("--keep", action="store_true")
    ap.add_argument("-v", action="store_true")
    ap.add_argument("--quiet", action="store_true")
    a = ap.parse_args(argv)
    try:
        res = analyse(a.repo, keep=a.keep)
        res.pop("_meta")
    except Exception as ex:  # noqa: BLE001  - a crash of the tool is a harness problem, never a verdict
        import traceback
        res = {"status": "harness-problem", "problem": f"{type(ex).__name__}: {ex}", "traceback": traceback.format_exc()[-1500:]}
    if a.json:
        Path(a.json).write_text(json.dumps(res, indent=1, default=str))
    if a.quiet or "verdicts" not in res:
        if "verdicts" not in res:
            print(res.get("problem"))
        return 0 if res["status"] == "ok" else 1
    v = res["verdicts"]
    print(f"effects: {res['functions_analysed']} functions ({res['entry_functions']} entry), "
          f"{res['python_statements']} statements -> {res['ir_statements']} IR statements, "
          f"{res['writes_classified']} writes, {res['self_stores']} self stores; "
          f"ok={len(v['ok'])} violation={len(v['violation'])} notcovered={len(v['notcovered'])}; "
          f"lean rc={res['lean_rc']} {res['wall_s']}; status={res['status']}")
    for f in res["violations"]:
        print("VIOLATION", describe_violation(f))
    if a.v:
        for f in res["unknowns"]:
            print("unknown  ", describe_violation(f))
        print("not covered:", ", ".join(v["notcovered"]))
    for e in res["lean_errors"][:5]:
        print("lean:", e)
    return 0 if res["status"] == "ok" else 1


if __name__ == "__main__":
    sys.exit(main())
