"""
Self-test of the C10 effect translator on a synthetic package:  /venv/bin/python harness/effects_selftest.py

Every function below has an expected verdict (ok / violation / notcovered); the verdicts come from the Lean
checker (the generated theorem states them and is checked by the kernel), so this also exercises the certificate
path (solve / summarise / recursion) end to end.  Exit 0 iff all verdicts are as expected.
"""
from __future__ import annotations

import shutil
import sys
import tempfile
import textwrap
from pathlib import Path

sys.path.insert(0, str(Path(__file__).resolve().parent))
import effects  # noqa: E402

SRC = {
    "utils": '''
        import numpy as np
        _CACHE = {}
        def ok1(x):
            x = np.asarray(x)
            y = x * 2
            y += 1
            y[0] = 3
            return y
        def bad_view(x):
            v = np.asarray(x)[1:]
            v[0] = 1
            return v
        def bad_out(x, y):
            np.add(x, y, out=x)
            return x
        def bad_ellipsis(x, i):
            i = np.asarray(i)
            t = x[i, ...]
            t[()] = 0
            return t
        def bad_astype(x):
            y = x.astype(float, copy=False)
            y[0] = 1.0
            return y
        def maybe_scalar(alpha, t):
            alpha /= 2
            return alpha * t
        def scalar_ok(n: int, t):
            n += 1
            k = len(t)
            k -= 1
            return n + k
        def lam(x):
            f = lambda: x.sort()
            return f
        def loopy(xs):
            acc = []
            for a in xs:
                acc.append(np.asarray(a))
            out = np.concatenate(acc)
            out.sort()
            return out
        def loopy_bad(xs):
            acc = []
            for a in xs:
                acc.append(np.asarray(a))
            acc[0].sort()
            return acc
        def rebinding(x):
            x = np.array(x, dtype=float)
            x[x < 0] = 0
            return x
        def cond_alias(x, flag):
            if flag:
                x = x.copy()
            x[0] = 1
            return x
        def glob_cache(x):
            _CACHE[1] = x
            return x
        def try_ex(x):
            try:
                y = np.zeros(3)
            except ValueError:
                y = np.asarray(x)
            y[0] = 1
            return y
        def while_brk(x):
            y = np.zeros(3)
            while True:
                if y[0] > 1:
                    y = np.asarray(x)
                    break
                y[0] += 1
            y[1] = 2
            return y
        def _sorts(a):
            a.sort()
        def helper_on_copy(x):
            y = np.array(x)
            _sorts(y)
            return y
        def helper_on_param(x):
            _sorts(x)
            return x
        def closure_ok(x):
            y = np.zeros(3)
            def inner(k):
                y[k] = 1
            inner(0)
            return y
        def closure_bad(x):
            def inner(k):
                x[k] = 1
            return inner
        def rec(x, n):
            if n == 0:
                return np.zeros(2)
            return rec(x, n - 1)
        def rec_bad(x, n):
            if n == 0:
                x[0] = 1
                return x
            return rec_bad(x, n - 1)
        def user_callable(f, x):
            return f(x)
        def row_view(x, s):
            x = np.asarray(x)
            row = x[np.argmax(s)]
            row[0] = 1
            return row
        def row_view_direct(x, s):
            x = np.asarray(x)
            x[np.argmax(s)][0] = 1
            return x
        def elem_then_asarray(x, i):
            x = np.asarray(x)
            t = np.asarray(x[np.argmax(i)])
            t[()] = 0
            return t
        def fancy_copy(x, idx):
            idx = np.asarray(idx)
            y = np.asarray(x)[idx]
            y[0] = 1
            return y
        def mask_copy(x):
            x = np.asarray(x)
            y = x[x > 0]
            y[0] = 1
            return y
        def nested_lists(x, t):
            x = np.asarray(x)
            s = [[] for _ in t]
            k = np.argmin(x)
            for j in range(len(s)):
                s[j].append(x[k])
            return s
        def nested_lists_bad(x, t):
            s = [[] for _ in t]
            s.append(x)
            s[0].append(1)
            return s
        ''',
    "metrics": "", "roc_curve": "",
    "cm": '''
        from functools import wraps
        import numpy as np
        def per_class(metric):
            @wraps(metric)
            def wrapper(self, *args, **kwargs):
                return metric(self, *args, **kwargs)
            return wrapper
        class CM:
            def __init__(self, matrix):
                self.matrix = np.asarray(matrix)
            @per_class
            def tp(self):
                return self.matrix[..., 0, 0]
            @per_class
            def cached(self):
                self._c = 1
                return 1
            def use_tp(self):
                return self.tp() + 1
        ''',
    "scores": '''
        import numpy as np
        class Scores:
            def __init__(self, pos):
                self.pos = np.asarray(pos)
                self.cache = {}
            def q_ok(self, t):
                t = np.asarray(t)
                return np.searchsorted(self.pos, t)
            def q_copy(self):
                p = self.pos.copy()
                p.sort()
                return p
            def q_dyn(self, name, t):
                return getattr(self, name)(t)
            def q_dyn2(self, metric, **kwargs):
                if isinstance(metric, str):
                    metric = getattr(type(self), metric)
                return metric(self, **kwargs)
            def swap(self):
                return Scores(self.pos)
        class Cached:
            def __init__(self, pos):
                self.pos = np.asarray(pos)
                self.cache = {}
            def q_cache(self, t):
                self.cache[1] = t
                return 1
            def q_sortself(self):
                self.pos.sort()
            def _memo(self, t):
                self._last = t
            def q_memo(self, t):
                self._memo(t)
                return 1
            def q_dyn(self, name, t):
                return getattr(self, name)(t)
            def q_local(self, t):
                p = self.pos
                p2 = p[::-1]
                p2[0] = 1
            def q_super(self, t):
                return super().foo(t)
        ''',
}

EXPECT = {
    "ok": {"utils.ok1", "utils.scalar_ok", "utils.loopy", "utils.rebinding", "utils.helper_on_copy", "utils.closure_ok",
           "utils.rec", "utils.user_callable", "utils.fancy_copy", "utils.mask_copy", "utils.nested_lists", "scores.Scores.q_ok", "scores.Scores.q_copy", "scores.Scores.swap",
           "scores.Scores.q_dyn", "scores.Scores.q_dyn2", "cm.CM.tp"},
    "violation": {"utils.bad_view", "utils.bad_out", "utils.bad_ellipsis", "utils.bad_astype", "utils.lam",
                  "utils.loopy_bad", "utils.cond_alias", "utils.try_ex", "utils.while_brk", "utils.helper_on_param",
                  "utils.closure_bad", "utils.rec_bad", "utils.row_view_direct", "utils.nested_lists_bad", "scores.Cached.q_local", "scores.Cached.q_cache",
                  "scores.Cached.q_sortself", "scores.Cached.q_memo", "scores.Cached.q_dyn", "cm.CM.cached",
                  # one wrapper body stands for all decorated functions: a caller of ANY decorated method is flagged
                  # when one of them stores to self
                  "cm.per_class.wrapper", "cm.CM.use_tp"},
    # the decorator itself lets the wrapper escape: its receiver is unknown there
    # x[i] read as a value: a copy of an element (1-d x) or a view of a row (2-d x) - "unknown", never an alarm
    "notcovered": {"utils.maybe_scalar", "utils.glob_cache", "utils.row_view", "utils.elem_then_asarray", "scores.Cached.q_super", "cm.per_class"},
}


def main():
    d = Path(tempfile.mkdtemp(prefix="t8_selftest_"))
    try:
        (d / "score_analysis").mkdir()
        for m, src in SRC.items():
            (d / "score_analysis" / f"{m}.py").write_text(textwrap.dedent(src))
        r = effects.analyse(d)
    finally:
        shutil.rmtree(d, ignore_errors=True)
    bad = 0
    if r["status"] not in ("violation",) or r["lean_errors"] or r["certificates_not_closed"]:
        print("unexpected status", r["status"], r["lean_errors"][:3], r["certificates_not_closed"])
        bad += 1
    for k, want in EXPECT.items():
        got = set(r["verdicts"][k])
        if got != want:
            bad += 1
            print(f"{k}: missing {sorted(want - got)} unexpected {sorted(got - want)}")
    print("effects selftest:", "OK" if not bad else "FAILED",
          {k: len(v) for k, v in r["verdicts"].items()}, "kernel-checked:", r["theorems"])
    return 1 if bad else 0


if __name__ == "__main__":
    sys.exit(main())
