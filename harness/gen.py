"""Input generators shared by the property modules.  Every random choice comes from the
`random.Random` passed in, which is derived from (VERIF_SEED, property, case index)."""
from __future__ import annotations

import math
import random
from typing import List, Tuple

import numpy as np

CFGS = [("pos", "pos"), ("pos", "neg"), ("neg", "pos"), ("neg", "neg")]
METRICS = ["tpr", "fnr", "tnr", "fpr", "topr", "tonr"]
ALIASES = {"tpr": "tar", "fnr": "frr", "tnr": "trr", "fpr": "far",
           "topr": "acceptance_rate", "tonr": "rejection_rate"}
METHODS = ["linear", "lower", "higher"]


def up(x: float) -> float:
    return float(np.nextafter(x, np.inf))


def down(x: float) -> float:
    return float(np.nextafter(x, -np.inf))


def exact_values(rng: random.Random, n: int) -> List[float]:
    """small dyadic rationals k/8; with ties drawn from a small pool half of the time"""
    if n == 0:
        return []
    if rng.random() < 0.5:
        pool = [rng.randint(-64, 64) / 8.0 for _ in range(rng.randint(2, 5))]
        return [rng.choice(pool) for _ in range(n)]
    return [rng.randint(-4096, 4096) / 8.0 for _ in range(n)]


def generic_values(rng: random.Random, n: int, loc=0.0) -> List[float]:
    if n == 0:
        return []
    mode = rng.choice(["normal", "uniform", "ints", "tied", "wide", "unit"])
    if mode == "normal":
        return [rng.gauss(loc, 1.0) for _ in range(n)]
    if mode == "uniform":
        return [rng.uniform(-3, 3) + loc for _ in range(n)]
    if mode == "ints":
        return [float(rng.randint(-5, 5)) for _ in range(n)]
    if mode == "tied":
        pool = [round(rng.gauss(loc, 1.0), 1) for _ in range(rng.randint(1, 4))]
        return [rng.choice(pool) for _ in range(n)]
    if mode == "wide":
        return [rng.uniform(-1e3, 1e3) for _ in range(n)]
    return [rng.random() for _ in range(n)]


def score_sets(rng: random.Random, stream: str, nmin=0, nmax=40, allow_empty=True) -> Tuple[List[float], List[float]]:
    """(pos, neg) for the exact or generic stream."""
    if stream == "exact":
        sizes = [1, 2, 4, 8, 16]
        if allow_empty and rng.random() < 0.1:
            sizes = [0] + sizes
        npos, nneg = rng.choice(sizes), rng.choice(sizes)
        kind = rng.random()
        if kind < 0.5:  # shared pool: heavy cross-class ties
            pool = [rng.randint(-40, 40) / 8.0 for _ in range(rng.randint(2, 6))]
            return [rng.choice(pool) for _ in range(npos)], [rng.choice(pool) for _ in range(nneg)]
        return exact_values(rng, npos), exact_values(rng, nneg)
    lo = nmin if not allow_empty else 0
    if rng.random() < 0.15:
        npos, nneg = rng.randint(100, 130), rng.randint(100, 130)
    else:
        npos, nneg = rng.randint(lo, nmax), rng.randint(lo, nmax)
        if not allow_empty:
            npos, nneg = max(npos, max(nmin, 1)), max(nneg, max(nmin, 1))
    shape = rng.choice(["overlap", "overlap", "separated", "inverted", "samepool"])
    if shape == "samepool":
        pool = [round(rng.gauss(0, 1), 1) for _ in range(rng.randint(1, 6))]
        return [rng.choice(pool) for _ in range(npos)], [rng.choice(pool) for _ in range(nneg)]
    if shape == "separated":
        return ([abs(x) + 0.5 for x in generic_values(rng, npos)],
                [-abs(x) - 0.5 for x in generic_values(rng, nneg)])
    if shape == "inverted":
        return ([-abs(x) - 0.5 for x in generic_values(rng, npos)],
                [abs(x) + 0.5 for x in generic_values(rng, nneg)])
    return generic_values(rng, npos, 1.0), generic_values(rng, nneg, -1.0)


def tiefree(rng: random.Random, npos: int, nneg: int, exact: bool) -> Tuple[List[float], List[float]]:
    """no value repeated within or across classes"""
    n = npos + nneg
    if exact:
        vals = rng.sample(range(-400, 400), n)
        vals = [v / 8.0 for v in vals]
    else:
        vals = set()
        while len(vals) < n:
            vals.add(rng.gauss(0, 1.5))
        vals = list(vals)
        rng.shuffle(vals)
    # mostly positives high
    mode = rng.choice(["mixed", "mixed", "mixed", "separated", "inverted"])
    if mode == "mixed":
        # positives biased upwards
        vals.sort()
        idx = list(range(n))
        w = [i + 1 + rng.random() * n for i in idx]
        order = sorted(idx, key=lambda i: -w[i])
        posi = set(order[:npos])
        return [vals[i] for i in idx if i in posi], [vals[i] for i in idx if i not in posi]
    vals.sort()
    if mode == "separated":
        return vals[nneg:], vals[:nneg]
    return vals[:npos], vals[npos:]


def easy_counts(rng: random.Random, stream: str, npos: int, nneg: int) -> Tuple[int, int]:
    if stream == "exact":
        def pick(n):
            return rng.choice([0, 0, n, 3 * n, 7 * n])
        return pick(npos), pick(nneg)
    r = rng.random()
    if r < 0.4:
        return 0, 0
    return rng.choice([0, 1, 2, 5, 30]), rng.choice([0, 1, 3, 7, 30])


def thresholds(rng: random.Random, pos: List[float], neg: List[float], k: int = 10) -> List[float]:
    allv = sorted(set(pos) | set(neg))
    ts: List[float] = []
    if allv:
        for _ in range(k):
            v = rng.choice(allv)
            ts.append(rng.choice([v, up(v), down(v)]))
        if len(allv) > 1:
            i = rng.randrange(len(allv) - 1)
            ts.append((allv[i] + allv[i + 1]) / 2)
        ts.append(allv[0] - 1.0)
        ts.append(allv[-1] + 1.0)
    ts += [math.inf, -math.inf, 0.0]
    rng.shuffle(ts)
    return ts


def shape_for(rng: random.Random, n: int) -> List[int]:
    """a shape with n elements in total (0-d when n == 1 sometimes)"""
    if n == 1 and rng.random() < 0.5:
        return []
    opts = [[n]]
    for a in range(1, n + 1):
        if n % a == 0:
            opts.append([a, n // a])
            if (n // a) % 2 == 0:
                opts.append([a, 2, n // a // 2])
    return rng.choice(opts)
