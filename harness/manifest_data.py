"""Source of MANIFEST.json (run `python3-vt tools_manifest.py` after editing)."""

def chk(pid, text, note, technique, design_ref):
    return {
        "property_id": pid,
        "quick_cmd": f"./check {pid} --tier quick",
        "thorough_cmd": f"./check {pid} --tier thorough",
        "evidence_file": f"evidence/{pid}.json",
        "replay_cmd_template": f"./check {pid} --replay {{path}}",
        "engine": "lean-model",
        "level_claimed": {"category": "proof", "text": text, "design_ref": design_ref},
        "level_note": note,
        "technique": technique,
    }

BASE_NOTE = ("Trusted: Lean 4.33 kernel; axioms propext, Classical.choice, Quot.sound only (audited by "
             "#print axioms on every run; no sorry/native_decide/user axioms); the hand-written model, tied "
             "to /repo by the correspondence run (sampled, not proved); exact rationals in place of IEEE "
             "doubles; NumPy primitives by documented meaning; harness and driver parsing. ")

CHECKS = [
 chk("C01",
     "Lean theorems (C01_cells, C01_cells_sorted_flag, C01_totals, C01_pointwise_sum, C01_from_labels) prove for "
     "ALL score lists, easy counts, 4 configurations and thresholds incl. +-inf that the model's binary-search "
     "confusion matrix equals counting by the documented rule; the model is tied to /repo on every run by an exact "
     "differential run (cells, held arrays, rates, pointwise sums) and the Lean spec predicates are evaluated on the "
     "implementation's own matrices.",
     BASE_NOTE + "np.sort/np.searchsorted assumed to sort/binary-search.",
     "Lean 4 proof about a hand-written model + differential correspondence check", "DESIGN.md §5 C01"),
 chk("C03",
     "Lean theorems C03_extreme_low / C03_extreme_high / C03_spec_extreme prove for ALL score lists, easy counts, "
     "6 metrics, 4 configurations, 3 methods and every nextafter oracle with down x < x < up x that a target <= 0 "
     "(>= 1) yields a threshold at which the metric's count is exactly its lowest (highest) achievable value; "
     "C03_error_iff covers the ValueError branch. Tied to /repo by a differential run of threshold_at_* and by "
     "evaluating the Lean predicate C03.extremeOK on the implementation's own matrices (exact integers).",
     BASE_NOTE + "np.nextafter is an oracle (driver: exact float64 neighbour, cross-checked against numpy); float "
     "rounding inside the target rescaling is outside the proof and is observed by the exact spec evaluation on every run.",
     "Lean 4 proof about a hand-written model + differential correspondence check", "DESIGN.md §5 C03"),
 chk("C02",
     "Lean theorems prove for ALL sorted/unsorted score lists (ties allowed), easy counts, 6 metrics, 4 configurations "
     "and every real target: C02_bracket (metric below/above the returned threshold brackets the clipped target within "
     "one sample), C02_within/C02_tiefree (tie-free: metric at the threshold within 1/N), rescale_spec (the easy-sample "
     "rescaling of each metric is exactly 'clip to the achievable range, express as a fraction of the scored samples'), "
     "C02_member, C02_order (metric(lower) <= metric(higher): needs the method reversal), C02_between, C02_convex, "
     "C02_monotone. Tied to /repo by a differential run of all threshold_at_* (+aliases, scalar/array) and by evaluating "
     "the Lean spec predicates on the implementation's own matrices at and a few ulp either side of its thresholds.",
     BASE_NOTE + "np.nextafter is an oracle; float rounding of the whole 'linear' path (easy-sample rescaling, 1-r "
     "normalisations, shift, index target, weight, la*a+(1-la)*b) is bounded by theorems under the standard model of "
     "floating-point arithmetic |fl x - x| <= u|x| (SA/Theorems/FloatBounds.lean: thresholdAt_fl_error, thresholdAt_fl_error_lip, "
     "threshold_fl_bracket = the property's 'few ulp' clause); that IEEE doubles satisfy the model with u = 2^-53 (no "
     "underflow/overflow) is assumed; the driver evaluates the bound (op flbound) and the run reports DISAGREE float-bound above "
     "4 x the bound (observed maximum on the pinned code: 0.54 x).",
     "Lean 4 proof about a hand-written model + differential correspondence check", "DESIGN.md §5 C02"),
 chk("C04",
     "Lean theorems C04_counts / C04_complements / C04_range / C04_nan / C04_definitions prove for ALL rational 2x2 "
     "matrices (non-negative for the range claim) the count identities, the six complement pairs, the [0,1] range, the "
     "exact NaN locus and the defining quotients of all 12 rates; C04_ci_shape / C04_ci_spec / C04_ci_mirror / "
     "C04_ci_nested / C04_ci_wrappers prove centre, half-width z*sqrt(p(1-p)/n), NaN-iff, mirroring and nesting of the "
     "normal-approximation intervals for any sqrt and z oracles. Tied to /repo by running metrics.* and "
     "ConfusionMatrix(binary=True) (+aliases) on stacked integer/float matrices incl. zero rows/columns and by evaluating "
     "the Lean spec predicates on the observed values. DEFINITIONS regenerated from /repo's source on every run "
     "(harness/metricdefs.py: Python ast -> expression IR of every function of metrics.py that is a function of one 2x2 matrix, "
     "the (count, nobs) arguments the *_ci wrappers hand to binomial_ci, and the ConfusionMatrix methods of cm.py through the "
     "cm_class_metric decorator): SA/Model/MetricExpr.lean gives the IR a value semantics (rational | NaN | outside-the-fragment) "
     "and a normaliser into num/den with integer linear forms in (tp, fn, fp, tn), NaN iff den = 0; C04Defs proves "
     "normalize_sound, model_table_sound (the table of normal forms written for the model equals SA.CMq.* on every matrix), "
     "nf_eq_model, checkAll_covered_sound / checkAll_mismatch_sound; the generated theorem `generated_c04_defs_ok` is "
     "kernel-evaluated on the translation of the CURRENT source each run (72/72 names covered on the clean tree), and a "
     "definite mismatch (the translated definition and the model differ on a named witness matrix) is a broken proof "
     "obligation naming function, both normal forms, the matrix and the two values; the case generator contains matrices of "
     "distinct primes with random zero cells, so the search that follows finds a concrete failing input. utils.binomial_ci "
     "itself is regenerated too (harness/cidefs.py -> SA/Model/CIDefs.lean: the two limits as expressions over count, nobs, "
     "z = isf(a*alpha+b) with an uninterpreted sqrt and NaN guards; C04CIDefs: modelCI_eval - the model's row evaluates to "
     "SA.binomialCI for every input and square-root function -, modelCI_nan_iff, ci_bridge, checkCI_mismatch_sound; generated "
     "theorem generated_c04_ci_ok): ok = the row IS the model's as data, definite mismatch = another isf argument (wrong tail), "
     "another stacking axis or different limits at a witness (count, nobs, z); mathematically equal rewrites are `unknown` "
     "(no rational normaliser: partial).",
     BASE_NOTE + "For the regenerated definitions the translator (its reading of NumPy indexing / np.sum axes / np.divide(where=) "
     "/ np.where, symbolic inlining of helper functions, the pass-through check of the decorator) is trusted instead of the "
     "hand-written model; it has values only (no dtypes, warnings, leading-axis bookkeeping, result types) and says `unknown` "
     "(evidence only, never an alarm) for anything else. scipy.stats.norm.isf and np.sqrt are oracles (isf antitone is a hypothesis of nesting); the harness "
     "checks that the implementation asks isf for alpha/2; float sums/quotients compared with tolerance 1e-9 / 1e-12; float "
     "rounding of the interval limits is bounded by ci_fl_error under the standard model of floating-point arithmetic (np.sqrt an "
     "oracle rounded once; ciEps, evaluated by driver op cibound; the run reports DISAGREE float-bound above 4 x the bound, "
     "observed maximum 0.89 x).",
     "Lean 4 proof about a hand-written model + differential correspondence check + definitions regenerated from the source "
     "by a translator and kernel-checked each run", "DESIGN.md §5 C04"),
 chk("C13",
     "The Lean model of utils.bootstrap_ci IS the documented formula (C13_quantile_levels, C13_bc_levels, C13_bca_levels: "
     "NumPy's linear nanquantile at alpha/2, 1-alpha/2; BC shift 2*z0; BCa acceleration term). Theorems derive, for ALL "
     "replicate lists, estimates and alpha: limits ordered (quantile, BC; BCa on the one-sided branch of its pole), "
     "within the range of the finite replicates and NaN exactly when there is none (C13_in_range), unchanged by NaN "
     "replicates and reordering (C13_invariant), equivariant under increasing affine maps incl. BCa (C13_affine), nested "
     "in alpha (quantile, BC, and BCa on the one-sided branch: C13_nested_bca / _outer / _total, with a kernel-checked "
     "counterexample off the branch, c13n_offBranch_counterexample; C13_bca_nan / C13_bca_inf cover the no-finite-replicate and "
     "z0 = +-inf branches). Tied to /repo by feeding the model the values of the real scipy.stats.norm.ppf/cdf calls "
     "(recorded; missing queries are answered by the real scipy) and comparing the limits; the derived clauses are also "
     "evaluated on the implementation's outputs and on pairs of real runs (shuffled+NaN-padded, affine image, second alpha, "
     "per component, alpha arrays).",
     BASE_NOTE + "scipy.stats.norm.ppf/cdf and x**1.5 are oracles (monotone cdf/ppf is a hypothesis of the ordering/nesting "
     "theorems; a lawful instance is exhibited); np.nanquantile(method='linear') by its documented formula; exactly AT the "
     "pole (1 - a*(z0+z) = 0) the model's rational division gives 0 where floats give +-inf - no theorem is stated there and "
     "the harness would report a disagreement; the whole-array function (reshape / stack / nanquantile(axis=0) / NumPy's moveaxis / final reshape; bc/bca: flatten, per-component loop, reshape) is modelled statement by statement on row-major N-d arrays (SA/Model/NdArray.lean, BootstrapVec.lean) and C13_vec_quantile / C13_vec_bc prove for every metric shape Y and alpha shape A that the result has shape Y++A++[2] and entry [y..,a..,k] is the one-component limit of column y at alpha[a..] (per-component independence, error branches, kernel-checked examples that the swapaxes / dropped-moveaxis variants differ); op bootcivec compares the whole array on every case; bc/bca with a vector alpha is outside the model.",
     "Lean 4 proof about a hand-written model + differential correspondence check", "DESIGN.md §5 C13"),
 chk("C19",
     "Lean theorems: FraudScores.make_eq / C19_refines (whenever construction succeeds the object IS Scores.make genuines "
     "frauds easy counts <translated score_class, equal_class=pos>, hence cm at every threshold, thresholdAt for every "
     "metric/method/target and swap coincide: C19_refines_cm / _thresholdAt / _swap), C19_validates (+_ok, _pointwise: "
     "ValueError iff some score is <0 or >1, sorting irrelevant), C19_labels_inverse, C19_from_labels, C19_aliases. Tied to "
     "/repo by comparing every query of a real FraudScores (ctor and from_labels; cm, 6 threshold_at_* x 3 methods, eer, "
     "auc, swap, aliases, label translations) with a real Scores object and with the model, incl. values one ulp outside [0,1].",
     BASE_NOTE + "The median-heuristic warning is not modelled; eer()/auc()/interior thresholds are tied to the real "
     "Scores object (same code) rather than to the model; NaN/inf scores are outside the rational model.",
     "Lean 4 proof about a hand-written model + differential correspondence check", "DESIGN.md §5 C19"),
 chk("C05",
     "Lean theorems C05_entry / C05_entry_by_label / C05_default_classes prove for ALL class lists without duplicates, "
     "sample lists and rational weights that the accumulation loop yields entry [i,j] = total weight of the samples with "
     "label classes[i] and prediction classes[j] (KeyError / ValueError branches: C05_key_error, C05_value_error); "
     "C05_reorder / C05_routes_commute / C05_array_route / C05_dict_route / C05_frame_route prove that any class "
     "reordering and the array, dict-of-dicts and DataFrame routes give the same matrix in the requested order; "
     "C05_ova_conserves / C05_ova_cells / C05_ova_marginals / C05_ova_nonneg prove population conservation and "
     "TP/P/TOP = diagonal/row sum/column sum for every N x N rational matrix; C05_class_rates / C05_as_dict / "
     "C05_class_metric_length / C05_equivariant / C05_equivariant_metrics / C05_accuracy prove the per-class metric "
     "formulas, the as_dict form, shape, permutation equivariance and accuracy = trace/population. Tied to /repo by "
     "building real ConfusionMatrix objects through all four routes (int/str classes in arbitrary order, none/int/float "
     "weights, stacks with leading shapes (), (2,), (2,3), (0,)), comparing matrices, classes, one_vs_all cells, 20 per-class "
     "metrics + CIs + aliases + as_dict with the model and evaluating the Lean spec predicates on the observed values; "
     "error branches are compared as exceptions. ONE_VS_ALL AND THE CONSTRUCTION LOOP regenerated from /repo's source on every "
     "run (harness/cmdefs.py, Python ast): (k) a symbolic run of ConfusionMatrix.one_vs_all (the per-class loop with buffer "
     "writes and reads, the per-class blocks stacked along axis -3, and the vectorised np.diagonal / np.sum(axis=-1|-2) style) "
     "gives the four cells of class j as expressions over FOUR generators M[j,j], rowsum_j, colsum_j, total "
     "(SA/Model/CmDefs.lean: OExpr, value semantics on any N x N rational matrix; normal form = integer combination of the "
     "generators, N-independent), the axis of the class index in the result and the binary flag; C05Defs proves normalize_sound "
     "(ALL rational matrices of ANY size), modelOva_block (the model's row IS SA.oneVsAll), checkOva_ok_sound / ova_bridge (an "
     "accepted row denotes the model's one-vs-all block at [..., j, a, b] of a binary result, hence conservation, TP on the "
     "diagonal, P = row sum, TOP = column sum, complements, non-negativity hold of the translated code), "
     "cellVerdict_mismatch_sound and ovaWitnesses_complete (the witnesses separate ANY two distinct normal forms); (m) the "
     "body of _assign_from_predictions run once per assignment of (classes is None, binary, weights is None) gives a row of "
     "data (ConsDef: inferred class list, binary default, index map, which zip member indexes the ROW / the COLUMN, += or =, "
     "initial value, default weight, length check) with a code-shaped denotation; modelCons_run (the model's row IS "
     "SA.fromPredictions), cons_bridge / cons_bridge_entries (bridge to C05_entry), checkCons_mismatch_sound. The generated "
     "theorems generated_c05_ova_ok / generated_c05_cons_ok are kernel-evaluated on the translation of the CURRENT source each "
     "run; a definite mismatch is a broken proof obligation naming function, cell, both forms and a witness input, and the "
     "case generators (stacks of distinct primes with random zeros, weighted repeated pairs) then supply a failing input.",
     BASE_NOTE + "For the regenerated one_vs_all / construction rows the translator harness/cmdefs.py (its reading of `...` "
     "indexing, np.sum axes, np.diagonal, buffer writes / reads / views, np.stack, the zip order and the index-map "
     "comprehension) is trusted instead of the hand-written model; it has values only (no dtypes, leading axes beyond `...`, "
     "warnings, result types; WHICH sample a weight belongs to only through the zip position) and says `unknown` (evidence "
     "only, never an alarm) for anything else (np.add.at / bincount / reduceat / Kahan vectorisations, caching, a sum without "
     "axis). hashable class labels are mapped to Nat codes by the harness (order-preserving, so np.unique = sorted "
     "dedup); pandas .loc and numpy fancy indexing by documented meaning; the leading shape X is handled member-wise; "
     "float-weight sums: every cell within 4 x wsumEps = ((k-1)u/(1-(k-1)u)) sum|w| of the exact total (C05_weighted_fl_error "
     "under the standard model of floating-point arithmetic, driver op wsumbound, clause float-bound, observed maximum 0.997 x); "
     "quotients 1e-12.",
     "Lean 4 proof about a hand-written model + differential correspondence check + one_vs_all and the construction loop "
     "regenerated from the source by a translator and kernel-checked each run", "DESIGN.md §5 C05"),
 chk("C08",
     "Lean theorems: C08_swap_cm / C08_swap_rates (at every threshold incl. +-inf the matrix of swap() is the original with "
     "rows and columns exchanged, hence FPR/TPR/TOPR <-> FNR/TNR/TONR), C08_negate_cm (negated scores + flipped score_class: "
     "same matrix at the negated threshold), C08_negate_threshold(_methods/_make) (every threshold of the negated object is the "
     "negated threshold, all metrics, easy counts, even all three methods, for oracles with down(-x) = -up(x); outside one "
     "explicitly characterised stretch of targets next to the boundary where the two results differ by exactly one nextafter "
     "step: C08_negate_threshold_excluded; the driver's float64 nextafter satisfies the oracle hypothesis), C08_affine_cm, "
     "C08_affine_threshold (a>0: same matrices at a*t+b, every threshold mapped by t -> a*t+b). Tied to /repo by running the "
     "original, swap(), the negated and an affine image through the real API, tying each to the model (op cm) and evaluating "
     "the relations on the observed outputs. AUC invariance under increasing affine maps and under negation is proved for the "
     "reference semantics on ALL inputs (mwi_mw_affine / mwi_mw_negate, mwi_step_affine / mwi_step_negate) and for the "
     "code-shaped model through C07 (C08_affine_auc*, C08_negate_auc*); EER equivariance under increasing affine maps is proved "
     "(C06_affine: mapped threshold, same rate, all inputs). EER under negation: the exact statement is REFUTED in the model with the "
     "float64 nextafter oracle even for tie-free scores (C08_negate_eer_value_tiefree_statement_false, "
     "C08_negate_eer_threshold_tiefree_false: deviations of one nextafter step / ~2^-33, below the root finder's xtol; the real "
     "implementation returns the same values) and proved in conditional form (C08_negate_eer_partial: exact whenever every "
     "threshold call of the run avoids the excluded stretch of C08_negate_threshold; C08_negate_eer_value; C08_negate_eer_shortcut "
     "unconditionally on the perfect-separation path; c08e_findRoot_congr: the root finder depends only on the signs at its probes). "
     "GroupScores (the second anchored file): the same three relations are evaluated on per-group rates and matrices.",
     BASE_NOTE + "EER equivariance under NEGATION holds only up to the root finder's tolerance (xtol = 1e-10): the run compares "
     "values to 1e-8 and thresholds to 1e-7*scale on tie-free data; the AUC theorems for the code-shaped "
     "model carry the C07 hypotheses (sorted arrays, a scored negative, lawful neighbourly nextafter oracle); EER relations are "
     "claimed for tie-free scores; float thresholds compared up to a few ulp.",
     "Lean 4 proof about a hand-written model + metamorphic correspondence check", "DESIGN.md §5 C08"),
 chk("C09",
     "Lean theorems: C09_cm (for ALL score lists, counts k,m, existing easy counts, 4 configurations and every threshold at "
     "which the materialised positive is accepted and the materialised negative rejected — every threshold strictly inside the "
     "materialised range, C09_side_pos/neg — declaring easy samples gives exactly the matrix of the object in which they are "
     "materialised as extreme scores); C09_threshold / C09_threshold_inside (all six metrics, method linear: if the "
     "materialised object's threshold lies strictly inside the range of the relevant scored samples, the easy-sample object "
     "returns the same threshold: index targets differ by exactly the number of materialised samples below, via rescale_spec); "
     "C09_threshold_boundary (at the first/last scored sample the easy-sample object returns the sentinel one ulp outside: why "
     "thresholds are compared up to a few ulp); C09_auc_full / C09_auc_partial (same full and partial AUC as the materialised "
     "object). Tied to /repo by running both constructions through the real API (both tied to "
     "the model with op cm, relation evaluated on the observed matrices, thresholds and AUC compared between the two runs).",
     BASE_NOTE + "AUC clause: proved under STRICT beyond-ness of the materialised values (mwi_mw_easy, mwi_step_easy for all "
     "inputs; C09_auc_full / C09_auc_partial for the code-shaped model under the C07 hypotheses; partial AUC without cross-class "
     "ties) - with a materialised value EQUAL to a scored sample the tie term differs, which is outside 'beyond'. The run also "
     "compares the two real AUC values on every case.",
     "Lean 4 proof about a hand-written model + metamorphic correspondence check", "DESIGN.md §5 C09"),
 chk("C15",
     "Lean theorems about the model of roc / _find_support_thresholds (nb_extra_points=None), for ALL sorted score lists, easy "
     "counts, 4 configurations, 8 x_axis names, supplied fnr/fpr/thresholds arrays and nb_points: C15_rates_match (equal lengths, "
     "entry i of FNR/FPR is the object's rate at threshold i), C15_monotone (the count behind the named axis metric is "
     "non-decreasing along the returned thresholds: sorted list, the two reversals, rateNum_eq + belowCount_mono; denominators "
     "constant), C15_contains / C15_perm (every supplied threshold and thresholdAt of every supplied FNR/FPR is returned; the "
     "result is a permutation of the support points), C15_length (supplied count, else nb_points, else |pos|+|neg|), C15_views "
     "(TPR/TNR views = the object's TPR/TNR, NaN together; aliases), C15_total (no error for valid names with both classes "
     "non-empty, ValueError for unknown names), C15_spec_* (the executable predicates hold of the model). Tied to /repo by one "
     "real roc() call per case over all 125 x 6 combinations of None/empty/1/several supplied arrays and nb_points: thresholds "
     "compared bit for bit when all float operations are exact (else as sorted multisets to 1e-9), the model's matrices and rates "
     "at the implementation's thresholds exactly, and the Lean spec predicates evaluated on the implementation's own arrays.",
     BASE_NOTE + "np.linspace(0,1,k) is modelled by its exact values i/(k-1); np.nextafter is an oracle; float rounding of the "
     "interpolated support thresholds (incl. the rounding fl(i*fl(1/(k-1))) of the linspace targets themselves) is bounded by "
     "thresholdAt_fl_error / thresholdAtE_fl_error / C15_linspace_fl_error under the standard model of floating-point arithmetic "
     "(driver ops flbound, flboundlin; the run reports DISAGREE float-bound above 4 x the bound, observed maximum 0.63 x); float "
     "rounding of the quotients is outside the proof; scalar (0-d) fnr/fpr/thresholds arguments and negative "
     "nb_points are outside the property.",
     "Lean 4 proof about a hand-written model + differential correspondence check", "DESIGN.md §5 C15"),
 chk("C06",
     "Lean theorems about a line-by-line model of eer()/_find_root: C06_paths (the five ways eer() can return), C06_range "
     "(0 <= e <= min(hard_pos_ratio, hard_neg_ratio) <= 1 on every path: the min/max mutant), C06_zero (for ALL inputs incl. "
     "ties a reported EER of exactly 0 comes only from the strict-separation shortcut and its threshold has FP = FN = 0), "
     "C06_fpr_side / C06_fpr_side_of_eer (tie-free negatives: |FPR(t) - e| <= 1/N_neg wherever the threshold is set at FPR = e), "
     "C06_fnr_side_at_fnr, c06f_findRoot_width / _tol (bracket invariant, width halving, exit by tolerance within 34 steps), "
     "c06f_eerF_mono, C06_bisect_crossing (the returned e lies in a sign-change bracket of width < 1e-10), "
     "C06_fnr_side_sandwich (|FNR(t) - e| <= 1/N_pos + delta when t lies between the FNR-thresholds of e -+ delta). The "
     "slack-free FNR statement is REFUTED in the exact model (C06_fnr_side_statement_false: excess ~1e-11 < xtol), which is why "
     "the spec is evaluated with eps = 1e-9. Tied to /repo by comparing (t, e) with the model on tie-free data and evaluating "
     "rangeOK / crossingOK / zeroOK on the implementation's own matrix at its returned threshold on every case.",
     BASE_NOTE + "The FNR side on the bisection path is proved with an explicit data-dependent slack (C06_fnr_side_bisect: |FNR(t) - e| <= 1/N_pos + "
     "xtol*(1 + N_neg*maxGap(neg)/(N_pos*minGap(pos))) + sentinel steps); the slack-free statement is refuted in the model and, at populations of about 1e8, "
     "on the real code too (open known finding eer/crossing/within-proved-slack: a failing case inside the proved slack is printed as KNOWN-FINDING, anything "
     "beyond it is a violation; generated huge-population cases use bounded gap ratios, where the proved slack is below the spec's 1e-9); affine equivariance is proved (C06_affine), negation "
     "equivariance is refuted in exact form and proved in conditional form (C08_negate_eer_partial / _value / _shortcut). With ties the EER value is "
     "not compared with the exact model. np.isclose by its formula; bisection with fuel 64.",
     "Lean 4 proof about a hand-written model (FNR side with an explicit proved slack) + differential correspondence check", "DESIGN.md §5 C06"),
 chk("C20",
     "Lean theorems over exact rationals, for any inverse pair Phi/PhiInv, any sqrt and any lawful generator: C20_inverse (fnr o "
     "threshold_at_fnr = id on (0,1), fpr o threshold_at_fpr = id, and both converses), C20_roc_consistent/_errors/_points, "
     "C20_from_metrics (FNR(0)=fnr, FPR(0)=fpr, n = floor(s1/fnr)+floor(s2/fpr), p_pos = nb_pos/n), C20_sample_split (k / n-k "
     "scores, score class kept), C20_bernoulli (exactly floor(n p) ones among n 0/1 entries), C20_joint_sum, C20_joint_valid "
     "(ValueError iff a joint probability is negative; nothing else raises), C20_marginals (n columns; 0 <= ones - n p_i < 2), "
     "C20_shape, and C20_spec_* (the model satisfies the executable clauses with eps=0). Tied to /repo by running NormalDataset / "
     "BernoulliDataset / CorrelatedBernoullilDataset on parameter sweeps (scalar, 1-d, 2-d arguments; n from call or dataset; rho "
     "inside, at and outside the valid range; random and non-random; seeded generator wrapped by a recorder and rng=None), "
     "feeding the model the real scipy standard-normal cdf/ppf values, the recorded np.sqrt and generator responses, and "
     "evaluating the Lean spec predicates on the implementation's own outputs (round trips use implementation outputs only).",
     BASE_NOTE + "scipy.stats.norm cdf/ppf (standard form), np.sqrt and np.random.Generator are oracles (inverse-pair / lawful-"
     "generator hypotheses stated per theorem, instances exhibited); scipy's loc/scale, sf, isf forms are modelled algebraically; "
     "float floors are judged with floorOK(eps=1e-9) and compared exactly only away from integers; the validity clause is skipped "
     "when a joint probability is within 1e-12 of 0 (there float rounding decides: e.g. p1=p2=0.2, rho=1 raises).",
     "Lean 4 proof about a hand-written model + differential correspondence check", "DESIGN.md §5 C20"),
 chk("C10",
     "Lean: queries as a state machine over the model (SA/Model/History.lean: step/runHistory, vectorised cmV/rateV/"
     "thresholdAtV/pointwiseV as shape + flat list + map). C10_pure (state after ANY history = state before), C10_repeat / "
     "C10_output_at / C10_repeat_across (same question, aliases resolved, anywhere in any history -> same output), "
     "C10_elementwise_cm/_rate/_threshold + C10_shape_cm + C10_threshold_error (element i = scalar call on element i, shapes "
     "X and X++[2,2], row-major cells, error iff scalar error), C10_pointwise_shape/_elementwise (A++X++[2,2]), C10_alias. "
     "These are true BY CONSTRUCTION of a pure model and the file says so; the content of C10 is the correspondence run on "
     "histories: one real Scores object per case (ndarray/list/from_labels, is_sorted=True aliasing caller arrays, read-only, "
     "int/float) and 5-30 (thorough 30-100) random public calls with arguments of shapes () ... (2,1,2), (0,), (2,0), (0,3) as "
     "ndarray (C/strided/Fortran/read-only), list, Python/NumPy scalar, 0-d array; after EVERY call byte-for-byte snapshots "
     "(bytes, dtype, shape, strides, flags, address, shares_memory) of pos/neg/easy counts/flags and of every caller array, "
     "result shape, scalar type, elementwise equality with scalar calls, alias equality, identical bytes on immediate and "
     "end-of-history repetition, first result untouched by the repetition; scalar results are compared with the model's "
     "runHistory and the Lean predicates repeatFlags / shape predicates are evaluated on the implementation's observations. "
     "EFFECT MODEL, regenerated from /repo's source on every run (harness/effects.py: Python ast -> effect IR of every public "
     "function/method of scores.py, metrics.py, cm.py, utils.py, roc_curve.py, group_scores.py ... with an untrusted certificate "
     "and callee-summary table): SA/Model/Effects.lean gives the IR a heap semantics (one cell per array buffer / object) and a "
     "certificate checker; C10Effects proves exec_sound / summary_conformance / C10_effects_no_mutation (an accepted body leaves "
     "every pre-existing cell - the object's arrays, self's field table, every caller array - byte-identical for any oracle and "
     "heap) and analysis_sound; the generated theorem `generated_c10_effects_ok` is kernel-evaluated on the translation of the "
     "CURRENT source each run, and a definite violation (an in-place write through an alias of a parameter / self, a store to "
     "self in a query) is a broken proof obligation naming function, line and statement.",
     BASE_NOTE + "No-mutation is proved for the translated effect IR (trusted: the translator and its classification of NumPy/"
     "builtin operations as fresh-result / view / in-place, static method resolution, caller-supplied callables are the "
     "caller's code); scalar-type and identical-bytes clauses are decided on sampled histories only; eer/auc/roc/threshold_at_metric/bootstrap_* (identity sampler)/"
     "pointwise_cm/ConfusionMatrix metrics are outside the model's Query type and checked on the Python side only; the defect found "
     "here (bootstrap_ci 'quantile' with an empty 1-d metric raised AxisError) is repaired (7a65ec2, listed under `fixed`).",
     "Lean 4 proof about a hand-written model + differential correspondence check on call histories + effect model "
     "regenerated from the source by a translator and kernel-checked each run", "DESIGN.md §5 C10"),
 chk("C17",
     "Lean theorems prove for ALL non-decreasing x whose duplicates carry equal y, all y and all targets: C17_solves (every "
     "point from a crossing segment j lies in [x_j, x_{j+1}), x_j < x_{j+1}, and the interpolant of segment j equals the "
     "target there), C17_in_range, C17_strictly_increasing, C17_fallback (no crossing: exactly one sample point with minimal "
     "|y - t|, first index), C17_touch (cross or touch: every returned point is a genuine solution), C17_no_solution (neither: "
     "all samples strictly on one side), C17_spec_complete (one point per segment that straddles the target or touches it at "
     "its left end only), C17_length, C17_spec (all executable predicates hold on the model with eps = 0), C17_points / "
     "linspace_spec / C17_metric (threshold_at_metric = the inversion on all sorted scores / linspace(min, max, k) / the given "
     "points, ValueError branches, precondition holds automatically). Tied to /repo by running utils.invert_pl_function "
     "(scalar/array targets, int/dyadic/float curves with duplicates, exact touches, plateaus) and Scores.threshold_at_metric "
     "(name / alias / callable, points None / int / array, error branches), comparing number and position of solutions with "
     "the model and evaluating the Lean predicates on the implementation's own output.",
     BASE_NOTE + "np.nonzero/np.argmin/np.linspace/np.sort by documented meaning; float rounding of (1-la)*x[j]+la*x[j+1] is "
     "bounded by segPoint_fl_error under the standard model of floating-point arithmetic (plEps, evaluated by driver op plbound; "
     "the run reports DISAGREE float-bound above 4 x the bound, observed maximum 0.74 x); that it does not move a point onto the "
     "next segment's start is observed, not proved; a user callable is one of the six rate metrics wrapped in a lambda.",
     "Lean 4 proof about a hand-written model + differential correspondence check", "DESIGN.md §5 C17"),
 chk("C14",
     "Lean model (SA/Model/BootMetric.lean, abstract over the sample type): bootstrapMetric sampler metric nb = row j is "
     "metric (sampler j) for j < nb; bootstrapCIOf = for every component k of metric original the C13 formula bootstrapCI on "
     "column k of that matrix with estimate component k. Theorems: C14_rows (nb rows, row j = metric of the j-th sample, every "
     "row has the metric's length), C14_rows_spec, C14_column, C14_ci / C14_ci_quantile (component k of the interval = C13 formula "
     "on column k with the metric of the ORIGINAL as estimate), C14_quantile_const (a list of n >= 1 copies of c has c as its "
     "linear quantile at EVERY level), C14_identity_component / C14_identity / C14_identity_spec (identity sampler, nb >= 1, finite "
     "estimate: both limits of every component equal the estimate for quantile, bc and bca and ANY normal / power oracles), "
     "C14_deterministic (samplers agreeing on range nb give the same matrix and interval). Tied to /repo by owning the sampler: "
     "counting deterministic custom samplers (call k returns a recognisable object and records it; called with self, exactly "
     "nb_samples times by bootstrap_metric and by bootstrap_ci), rows recomputed by the harness from the recorded samples and "
     "compared exactly, the identity sampler for all three methods, every built-in configuration under np.random.seed (two runs "
     "byte-identical; row j = metric of the j-th sample of a fresh bootstrap_sample loop; config forwarded), metrics by name "
     "(rates/aliases with scalar/1-d/2-d/size-0 thresholds, eer, auc, threshold_at_* with method=), group_* names and "
     "groupwise(...) on GroupScores (shape (nb, G, T)), recording callables (scalar, Python float, 1-d, 2-d, size-0, integer, "
     "NaN-producing; sample passed first, kwargs unchanged), shape/dtype, bootstrap_ci == utils.bootstrap_ci(theta=those rows, "
     "theta_hat=metric(original)) exactly, object and caller arrays unchanged; the Lean op bootmetric evaluates rowsOK, "
     "C13.formulaOK (model interval from the OBSERVED replicates with recorded scipy oracle values) and identityOK.",
     BASE_NOTE + "Python attribute resolution (getattr(type(self), name)), keyword forwarding and NumPy RNG determinism are "
     "observed, not proved; utils.bootstrap_ci itself is the subject of C13; a NaN estimate component under bc/bca is outside "
     "the Lean model (still compared with utils.bootstrap_ci, up to float noise: 1e-9 of the replicates' scale); the two defects found "
     "here (bca raised UFuncTypeError for integer-valued metrics; bc/bca raised ValueError when a component is NaN in every "
     "replicate) are repaired (ae64b94, f1e44e9, listed under `fixed` in known_findings.json).",
     "Lean 4 proof about a hand-written model + differential correspondence check with harness-owned samplers", "DESIGN.md §5 C14"),
 chk("C07",
     "Lean theorems about a line-by-line model of Scores.auc (points one ulp either side of every score via a nextafter oracle, "
     "sort, rates, reversal, searchsorted window, flat extension, trapezoid, abs), for sorted arrays with at least one scored "
     "negative, all 4 configurations and easy counts: C07_code_eq_mw (full AUC = Mann-Whitney statistic with half credit for "
     "ties; easy samples rank beyond everything), C07_code_equal_class (independent of equal_class), C07_partial_eq_step "
     "(no cross-class ties: partial AUC over [lower, upper] = exact area under the step ROC), C07_code_additive, C07_code_le, "
     "C07_code_ycompl, C07_code_xcompl(_mirror), C07_code_exchange; plus theorems about the reference functions "
     "(C07_step_additive, C07_step_le, C07_step_full_eq_mw, C07_mw_range, C07_mw_swap). Tied to /repo by comparing the model "
     "with Scores.auc on every case and evaluating the Lean predicates mwOK / stepOK / boundOK on the implementation's outputs, "
     "plus additivity and the complement / exchange identities as relations between real runs.",
     BASE_NOTE + "The nextafter oracle must be lawful and 'neighbourly' on the data (a < b in the data -> up a <= b and a <= down b); "
     "np.trapezoid / np.searchsorted by documented meaning; float rounding of the trapezoid part is bounded by Scores.auc_fl_error "
     "under the standard model of floating-point arithmetic (terms summed in ANY order; aucEps, evaluated by driver op aucbound; the "
     "run reports DISAGREE float-bound above 4 x the bound, observed maximum 0.54 x) and within 1e-9 everywhere; limits equal to "
     "the double nearest k/N are sent to the model as k/N.",
     "Lean 4 proof about a hand-written model + differential correspondence check", "DESIGN.md §5 C07"),
 chk("C11",
     "Lean theorems, for EVERY script of RNG answers lying in the supports of the requested distributions (Req.inRange) and "
     "long enough: C11_flags, C11_subset (smoothing off), C11_inv / C11_metrics (sample arrays sorted, incl. the is_sorted=True "
     "fast path of single-pass sampling: gathering a sorted array by repeat(arange(k), counts) is sorted; hence cm = counting "
     "by C01), C11_total (replacement keeps nb_all_samples), C11_strata (by_label: replacement keeps all four strata, "
     "single-pass the easy strata), C11_at_least_one (replacement via the class-size and hard-sample corrections - no side "
     "condition beyond in-support answers is needed -, single-pass via the forced index, proportion via max(.,1)), "
     "C11_proportion (+_feasible: max(floor(ratio*n),1) scored samples without replacement, multiplicities bounded by the "
     "source's, floor(ratio*easy) easy samples), C11_dynamic (+_requests: switch exactly at 100 scored samples per class and on "
     "smoothing), C11_reachable (the identity script selects every source score once), C11_mean / C11_mean_identities (the "
     "issued requests satisfy the unbiasedness relations: class split Bin(N, nb_all_pos/N), easy splits with the class's easy "
     "ratio and class sizes adding to N, multiplicities size=k with n*p*k=n resp. lam*k=n, replacement draws from range(k)), "
     "C11_spec (the executable clauses hold of the model). Tied to /repo by running the real bootstrap_sample under a scripted "
     "RNG (np.random.binomial/poisson/choice/normal patched; realistic and adversarial in-support answers), feeding the same "
     "answers to the model, comparing request traces exactly (p/lam 1e-12) and samples exactly, and evaluating the Lean spec "
     "predicates on the implementation's own samples and request parameters; plus runs with the real global RNG under "
     "np.random.seed (structural clauses, byte-for-byte reproducibility), callable samplers, error branches, source unchanged.",
     BASE_NOTE + "That NumPy's primitives answer inside the textbook supports with the textbook means is assumed, not proved: "
     "it is the explicit hypothesis SA.C11U.Lawful (linearity, normalisation, support, means of binomial / Poisson / choice; "
     "satisfiable, c11u_simpleOracle_lawful) of the expectation semantics in SA/Model/SamplingM.lean, where _sample_indices is "
     "written once over a monad: on scripts it is the model (c11u_sampleIndicesM_state), on lawful expectation oracles "
     "C11_unbiased proves mean multiplicity 1 of every scored sample and expected class / stratum sizes equal to the source's for "
     "the program without at-least-one corrections, which equals the model on every script triggering no correction "
     "(c11u_corrected_eq_uncorrected); by_label + replacement has no correction (c11u_byLabel_replacement). Every sixth case "
     "compares the model's exact expectation under the true binomial/choice pmf (driver op c11expect) with the mean of 1500 real "
     "samples. C11_mean remains the request-parameter form of the same clause; the smoothing noise is not modelled (only flags, sizes, strata, "
     "ordering with smoothing); the float product ratio*n is an oracle checked to be a faithful rounding; callable samplers are "
     "checked in the harness only. Progress and totality are theorems: on every ok prefix the next request is one NumPy accepts "
     "(C11_progress / _prefix / _iff: exactly when proportion sizes fit the classes), and a succeeding in-support script exists "
     "for every runnable configuration (C11_totality / _iff / _ok), so the 'for every in-support script' theorems are not vacuous.",
     "Lean 4 proof about a hand-written model with a scripted RNG + differential correspondence check", "DESIGN.md §5 C11"),
 chk("C18",
     "Lean theorems over exact rationals, for ALL data rows (key = one code per group column, label flag, score), 4 configurations, "
     "21 metrics (+ aliases) and thresholds incl. +-inf: C18_rows (the frame's rows are exactly the distinct group-value combinations "
     "of the data, strictly increasing lexicographically; every data row carries exactly one label; a row is computed from precisely "
     "the rows carrying its label), C18_entry (entry = the metric of the matrix counted with the decision rule from that group's rows "
     "= Scores.from_labels + binary-search cm (C01) = pointwise_cm sum; the four cells as counts over the data), C18_partition (group "
     "matrices add up to the whole-data matrix), C18_by_overall, C18_by_min (+_nan: divisor = smallest entry; 0 -> unchanged; else the "
     "smallest row becomes exactly 1 and every entry >= 1 for a positive minimum), sbTable_eq / C18_cell / C18_cell_by_overall (the "
     "frame cell by cell), C18_ci_same_quantity (by_overall: interval = raw interval / d for the replicate-independent divisor d > 0, "
     "via C13_affine; quantile/BC unconditional, BCa under the homogeneity of the **1.5 oracle), C18_ci_none, C18_ci_ordered_quantile/"
     "_bc (C13_ordered_*), C18_spec_* (the model satisfies labelsOK/entryOK/normOK/minRowOK/ciOrderedOK with eps = 0), and "
     "C18_ci_by_min_fails: the by_min analogue of same-quantity (C18_ci_by_min_statement) is REFUTED for the coded behaviour (known "
     "finding). Tied to /repo by calling the real showbias on random frames (1-4 groups in 1-3 arbitrarily named columns; values with "
     "'_', spaces, empty strings, unicode, '_'-join collisions; 0/1 and 'x'/'y' labels with foreign labels and any pos_label; ties "
     "with thresholds; scalar/list/tuple/ndarray/0-d thresholds; 29 metric names; 3 normalisations; bootstrap off / quantile, bc, bca "
     "with identity, leave-one-out and seeded built-in replacement sampling incl. by_label/by_group), decoding index/columns, "
     "comparing with the model table, evaluating the Lean predicates on the observed frame, recomputing every entry with numpy from "
     "the rows carrying the observed label and every interval from the recorded bootstrap samples normalised like the reported value; "
     "invalid inputs must raise AssertionError / ValueError / TypeError as documented. End to end on the scripted RNG "
     "(SA/Model/ShowbiasScript.lean, SA/Theorems/C18Script.lean): showbiasScript composes frame -> GroupScores, nb_samples "
     "GroupScores.bootstrap_sample runs threading one RngState, the group metric of every sample (NaN for a group absent from a "
     "sample), normalisation as coded and utils.bootstrap_ci per component; proved for ANY admissible tie order of the score_object "
     "(C12_tie_order_irrelevant): C18_script_refines (value frame = sbTable, every interval cell = sbCI of the component model with "
     "the script-driven replicates), C18_script_state / _requests (exactly nb_samples sample draws), C18_script_total (frames on every "
     "script for the runnable built-in samplers), C18_script_shape, C18_script_ordered_quantile / _bc, C18_script_same_quantity / "
     "_none_quantity, C18_script_nan (limits NaN exactly when the component has no finite normalised replicate), "
     "C18_script_replicates and C18_script_nan_value (in-support scripts: replicates are metrics of samples whose pairs are pairs of "
     "the data; a NaN value has all-NaN replicates for None / by_overall). Tied to /repo by the case kind 'script': the real "
     "showbias(bootstrap_ci=True) with replacement / single_pass / dynamic x None / by_label / by_group under ScriptedRNG "
     "(realistic and adversarial in-support answers), the held arrays of the implementation's GroupScores checked for admissibility "
     "and used as the model's tie order, recorded scipy ppf / cdf with the two-pass oracle protocol, request trace, replicate array, "
     "values and interval frames compared; the C18 clauses evaluated on the implementation's own frames.",
     BASE_NOTE + "The string<->code map per group column (rank among the sorted distinct values) is built and checked by the harness; "
     "pandas indexing is not modelled; scipy.stats.norm ppf/cdf and x**1.5 are oracles (C13 hypotheses); BCa ordering is evaluated "
     "only on the near side of its pole. Two open findings in known_findings.json: group values containing NUL characters (numpy/pandas "
     "truncate them; witnesses corpus/C18/nul_group_value*.json) and by_min + bootstrap (the interval belongs to "
     "another quantity; signature showbias/by_min/bootstrap/.*; refuted statement C18_ci_by_min_statement); the scripted model carries by_min as coded (minimum over the bootstrap axis), "
     "its corner 'NaN value with finite replicates under bc/bca' is outside the model. The harness keeps two "
     "descriptive signatures (showbias/bootstrap/all-nan-component/raises, showbias/bootstrap/int-metric-bca/raises) for the two "
     "utils.bootstrap_ci defects it met through showbias before they were repaired (f1e44e9, ae64b94); corpus/C18/regression_*.json "
     "pin them.",
     "Lean 4 proof about a hand-written model + differential correspondence check", "DESIGN.md §5 C18"),
 chk("C16",
     "Lean theorems about the model of roc_with_ci / _find_support_thresholds (nb_extra_points=20) / _add_extra_points / "
     "_apply_rule_of_three / _aggregate_rectangles and of pointwise_band_ci / simultaneous_joint_region_ci, for ALL score lists, "
     "configurations, supplied arrays, nb_points, axis names, rectangles, oracle values: C16_aggregate_envelope (the band at x_j "
     "is a lower/upper bound of, and attained by, rectangle j and the rectangles whose x-interval covers x_j), C16_ordered, "
     "C16_unit_interval, C16_no_nan (NumPy/Python NaN semantics are total on NaN-free input and return the rational band), "
     "C16_rule_of_three (rows replaced exactly for p < 1/n resp. p > (n-1)/n, the code's form) with C16_rule_of_three_exact / "
     "_zero_one (for a rate k/n: exactly rate 0 resp. 1) and ruleOfThreeRow_wf, C16_support_perm / _contains / _length / "
     "C16_monotone / C16_total / C16_roc_total (thresholds = plain support + extra points + four sentinels; accepted arguments), "
     "C16_rates_match (rates of the object, never NaN), C16_closed_form / C16_length / C16_roc_wellformed (bands = "
     "aggregate(rule-of-three(bootstrap intervals)); (n,2), NaN-free, ordered, within [0,1] given ordered intervals in [0,1] and "
     "0 <= pow <= 1), C16_identity_interval (all replicates equal => quantile/BC/BCa limits = (estimate, estimate)) and "
     "C16_identity_closed_form, C16_sjr_ordered, C16_pointwise_band, C16_spec_* (executable predicates hold of the model); for "
     "fixed_width_band_ci the deterministic core is modelled (SA/Model/FixedWidth.lean: _displace_curve, np.interp on monotone "
     "tables, _is_contained, the _find_tube_radius bisection, the quantile of the radii, the band assembly) and C16_fwb_total / "
     "_shape / _ordered / _range / _wellformed / _scores_wellformed (for every curve of a Scores object with both classes "
     "non-empty, every non-empty list of radii in [0,1), every alpha and slope k >= 0 the call returns and the bands are (n,2), "
     "NaN-free and ordered), C16_fwb_radius_grid / _bracket / _bisect_fuel (the radius is 0 or (2m+1)/256 in (0,1): delta >= 0), "
     "C16_fwb_contained_monotone, C16_fwb_monotone_delta, C16_fwb_curve_monotone (from C15_monotone), with kernel-checked "
     "counterexamples to 'the band contains the curve' (C16_fwb_not_contains_curve*, replayed on the real code; not claimed). Tied "
     "to /repo by real calls of the four band functions over all 16 combinations of supplied fnr/fpr/thresholds/nb_points, 8 "
     "axes, 4 alphas, 3 bootstrap methods, identity and 6 built-in sampler configurations (recorded _apply_rule_of_three / "
     "_aggregate_rectangles / Scores.bootstrap_ci calls; joint interval recomputed under the same seed), by direct calls of the "
     "two helpers (incl. NaN entries), and by evaluating the Lean predicates on the implementation's own outputs. roc_with_ci and "
     "pointwise_band_ci are also modelled END TO END on the scripted RNG (SA/Model/RocCIScript.lean: support -> metric on the object -> "
     "nb_samples consecutive bootstrap_sample runs threading one RNG state -> C13 interval per component -> rule of three -> envelope): "
     "C16_script_refines (= rocWithCI with the script-driven interval), C16_script_state / _requests / _consumes (exactly the requests of "
     "nb_samples sample draws, final state), C16_script_wellformed(_quantile/_bc) (for EVERY in-support script, every built-in sampler: "
     "returns, one row per threshold, NaN-free, in [0,1], ordered), C16_script_identity; op rocciscript replays the recorded RNG "
     "answers of real roc_with_ci / pointwise_band_ci calls through this model.",
     BASE_NOTE + "fixed_width_band_ci: the bootstrap samples are not modelled (their rates enter as the recorded arguments of "
     "_find_tube_radius); every real call is tied to the model through recorded _find_tube_radius / _displace_curve / bootstrap_ci "
     "calls (1e-9, plus a near-tie rule for containment tests decided within rounding distance) - differences in these internals "
     "are reported as a broken correspondence, only accepts-arguments / rates / (n,2) / NaN-free / ordered as violations "
     "(supports with >= 3 points; with exactly 2 support points every call raises ValueError). The joint "
     "bootstrap interval, math.pow(alpha,1/n), ksone.ppf and np.nextafter are oracles; exact rates k/m decide the rule-of-three "
     "trigger (same decision as the float comparison); the number of extra support points is taken from the implementation's "
     "own plain support (C15); thresholds compared as sorted multisets to 1e-9, band values to 1e-12.",
     "Lean 4 proof about a hand-written model + differential correspondence check", "DESIGN.md §5 C16"),
 chk("C12",
     "Lean theorems about the model of GroupScores (pairs (score, group code); joint sort; explicit cache state machine; "
     "sampling on a scripted RNG reusing the C11 model of _sample_indices): C12_sort_perm (+_sorted_flag, _from_labels: the "
     "held arrays are a permutation of the input pairs of each class, sorted by score - every score keeps its label), C12_swap "
     "(pairs move to the other class with their labels, flags flipped, swap.swap = id for the default group list), C12_getitem "
     "(gs[g] = exactly the scores carrying g, with multiplicity, sorted - the filter of a sorted list is sorted, so is_sorted=True "
     "is justified; ValueError for unlisted groups), C12_group_cm (= counting on the filtered data, by C01), C12_partition "
     "(+_default, _swap, C12_sample_partition: sum over groups = overall matrix at every threshold incl. +-inf when the group "
     "list is duplicate-free and contains every label; counterexamples when a label is missing or a name repeated), C12_cache "
     "(+_fresh, _history, _hit: over ANY sequence of gs[g] / group_cm / group_<rate> / cm queries every output equals the "
     "answer computed from the data alone and every cached entry equals the fresh one), C12_groupwise / C12_group_rate, and for "
     "EVERY in-support RNG script: C12_sample_attached (every sampled (score, label) pair is a pair of the source's same class, "
     "all 9 modes), C12_sample_inv (samples sorted, incl. the is_sorted=True single-pass path), C12_by_group_counts "
     "(replacement + by_group, duplicate-free list: each group keeps its number of samples; unlisted labels are not sampled), "
     "C12_names, C12_dynamic, C12_errors, C12_strat_requests (None draws the class split of the whole object, by_label keeps "
     "it, by_group draws it inside each listed group in order), C12_spec_* (the executable clauses hold of the model). Tied to "
     "/repo by building the real object (constructor, from_labels, is_sorted=True), sending input and observed arrays to the "
     "model, evaluating the Lean predicates on the implementation's own arrays / per-group matrices / samples / request traces, "
     "comparing request traces exactly and samples exactly (up to the order inside tied blocks after an argsort), histories of "
     "cached queries against fresh objects and the Lean state machine, the 12 group_* metrics and groupwise(str/callable) "
     "against independently filtered Scores objects, a pass with the real global RNG, error branches, source unchanged.",
     BASE_NOTE + "np.argsort is not stable while the model sorts stably: C12_tie_order_irrelevant (SA/Theorems/C12Ties.lean) proves that every admissible joint order (a permutation of the input pairs sorted by score) has the same observables (gs[g] as lists, group matrices, overall matrix, group list, swap(), cached histories, sampling requests; by_group samples identical, other samples equal up to the re-indexing of the draws inside tied blocks); the harness compares tied blocks of the held label arrays as multisets, which is exactly admissibility. Group names are "
     "mapped to Nat codes by the harness (sort order preserved); label dtypes are not modelled. 'Stratifying by group preserves "
     "each group's sample count' is read for replacement sampling (single-pass sizes vary by design; its requests are covered by "
     "C12_strat_requests). swap() does not forward group_names (modelled as coded). by_group sampling reads per-group objects "
     "through the cache; the model uses the fresh ones (equal by C12_cache).",
     "Lean 4 proof about a hand-written model with a scripted RNG and an explicit cache + differential correspondence check",
     "DESIGN.md §5 C12"),
]

ALL = [f"C{i:02d}" for i in range(1, 21)]
_claimed = {c["property_id"] for c in CHECKS}
# Second tie for the decision logic of Scores / roc_curve: tables regenerated from the source on every run
# (harness/dectables.py, lean/SA/Model/DecTables.lean, lean/SA/Theorems/DecTables.lean).
_DECTABLES = {
 "C01": "the table of Scores.cm (per score_class x equal_class: searchsorted side, below/above -> tp/fn/fp/tn, easy count per cell)",
 "C02": "the tables of the twelve threshold_at_<name> wrappers (array, emptiness guard, increasing, ratio_class, method passed on, "
        "rescaled target as an expression), of _threshold_at_ratio (48 rows: left_continuous, number of `1 - target` reflections, "
        "method reversal) and of _invert_increasing_function (6 rows: 1/N shift, floor/ceil index or linear, the two sentinel "
        "stores, the target each is decided on, and their order)",
 "C03": "the tables of the threshold_at_<name> wrappers (clipped rescaling), of _threshold_at_ratio and of "
        "_invert_increasing_function (sentinel stores `<= 0` / `>= 1`, the target each is decided on, their order)",
 "C08": "the tables of Scores.swap (fields exchanged, flags flipped, is_sorted), Scores.cm, _threshold_at_ratio and "
        "_invert_increasing_function",
 "C09": "the easy-sample rescaling rows of the threshold_at_<name> wrappers (ratio properties inlined: which hard ratio / easy "
        "count, subtraction before division, clip bounds)",
 "C15": "the tables of _find_support_thresholds (9 x_axis values x score_class: ValueError / reversed) and of roc() (rates "
        "evaluated at the support thresholds)",
}
for _c in CHECKS:
    if _c["property_id"] in _DECTABLES:
        _c["level_claimed"]["text"] += (
            " DECISION TABLES regenerated from /repo's source on every run: harness/dectables.py (Python ast, partial evaluation "
            "over the flag domain, helper functions / lookup tables / closures followed) extracts " + _DECTABLES[_c["property_id"]] +
            "; a generated Lean file states `checkTables translated = <true, [], covered>` and the kernel checks it (decide +kernel, "
            "cached on the generated text). SA/Theorems/DecTables.lean proves that a row equal to the model's row denotes the model's "
            "function for ALL inputs (cm_bridge, cm_bridge_count, swap_bridge, wrap_bridge, norm_bridge, inv_bridge, threshold_bridge, "
            "orient_bridge, rocRow_eq_model, checkTables_sound). A row that fits the IR and differs from the model's is a broken proof "
            "obligation naming function, flag row and both rows; a row the translator cannot evaluate is 'not covered' (evidence only).")
        _c["level_note"] += (" The translator harness/dectables.py (Python -> table IR) is trusted; rescaling expressions that differ "
                             "from the model's syntactically are compared at probe points only (differ -> mismatch, agree -> not covered).")
        _c["technique"] += " + decision tables regenerated from the source by a translator and kernel-checked each run"

# More decision tables regenerated from the source on every run (harness/dectables2.py, lean/SA/Model/DecTables2.lean,
# lean/SA/Theorems/DecTables2.lean): bootstrap dispatch (C11, C12), bootstrap_ci (C13), showbias normalisation (C18), FraudScores (C19).
_DECTABLES2 = {
 "C11": ("the table of Scores._sampling_method (6 sampling_method values x smoothing: the value returned, for `dynamic` the size condition "
         "as an expression over the two class sizes and SINGLE_PASS_SAMPLE_THRESHOLD) and of the dispatch of Scores.bootstrap_sample "
         "(60 rows: resolved method x smoothing x stratified_sampling in {None, by_label, another value} x ratio given: which branch runs, "
         "the by_label / single_pass arguments of _sample_indices, whether the smoothing noise is added or rejected (and whether the "
         "ValueError comes after the draws of _sample_indices), which index list gathers which array, which easy counts and flags the "
         "sample gets, is_sorted; proportion sampling: population, size expression max(int(ratio * size), 1), replace, int(ratio * easy); "
         "a callable is applied to self)",
         "smRow_eq_model, sm_bridge, bsRow_eq_model, bs_bridge, bootstrap_bridge, checkTables2_sound"),
 "C12": ("the table of GroupScores._sampling_method (6 x 4 stratifications: by_group + dynamic -> replacement, else the size condition) and of "
         "the dispatch of GroupScores.bootstrap_sample (40 rows: smoothing rejected first, whole-object sampling for None / by_label with the "
         "group labels gathered by the same index lists and group_names = self.groups, the by_group loop on each group's object without "
         "label stratification, is_sorted = single_pass only for whole-object sampling, ValueError for proportion / unknown methods / "
         "unknown stratifications, a callable applied to self)",
         "gsmRow_eq_model, gsRow_eq_model, gs_bridge, checkTables2_sound"),
 "C13": ("the table of utils.bootstrap_ci (method in {quantile, bc, bca, other} x theta_hat given): dispatch (quantile / adjusted / "
         "ValueError), the levels alpha/2 and 1 - alpha/2, the adjusted levels as expressions over (z0, z_alpha, a) (bc 2*z0 + z_alpha, "
         "bca z0 + (z0 + z_alpha) / (1 - a*(z0 + z_alpha)), applied only where z0 is finite), p0 (comparison theta <= theta_hat, "
         "denominator #not-NaN), the acceleration (cube / square of the deviations, factor 6, ** 1.5, guarded division), the NaN guard for "
         "a component without finite replicate",
         "QExp.eqv_sound, cmpQ_ok_sound, alphaE_eq_model, bcE_eq_model, bcaE_eq_model, level_bridge, p0Row_eq_model, accRow_eq_model, "
         "checkTables2_sound"),
 "C18": ("the table of showbias._apply_normalization (by_overall: divisor = metric(score_object); by_min: divisor = min over axis 0 of the "
         "group metrics; any other mode: ValueError; a zero divisor keeps the entry)",
         "nmRow_eq_model, nmRow_other_eq_model, checkTables2_sound"),
 "C19": ("the tables of doc_to_binary_label / binary_to_doc_label (strings and enum members) and of FraudScores.__init__ (per score_class: "
         "which argument feeds pos / neg / nb_easy_pos / nb_easy_neg of Scores.__init__, score_class, the hard-wired equal_class, "
         "is_sorted, and the range checks in order: array, `< 0`, `> 1`, genuines before frauds)",
         "fraudRow_eq_model, fraud_bridge, checkTables2_sound"),
}
for _c in CHECKS:
    if _c["property_id"] in _DECTABLES2:
        _what, _thms = _DECTABLES2[_c["property_id"]]
        _c["level_claimed"]["text"] += (
            " DECISION TABLES regenerated from /repo's source on every run: harness/dectables2.py (the partial evaluator of "
            "harness/dectables.py extended with inheritance, Enum classes, super(), configuration records, opaque callables, generic "
            "loop iterations) extracts " + _what + "; a generated Lean file states `checkTables2 translated = <true, [], covered>` and the "
            "kernel checks it (decide +kernel, cached on the generated text). SA/Theorems/DecTables2.lean proves that a row equal to the "
            "model's row denotes the model's function for ALL inputs (" + _thms + "). A row that fits the IR and differs from the model's "
            "is a broken proof obligation naming function, key and both rows; a row the translator cannot evaluate is 'not covered' "
            "(evidence only).")
        _c["level_note"] += (" The translator harness/dectables2.py (Python -> table IR) is trusted; expressions are accepted syntactically "
                             "modulo commutativity of + and * (sound for all inputs, QExp.eqv_sound), otherwise compared at probe points only "
                             "(differ -> mismatch, agree -> not covered); size conditions likewise; two ValueError rows that differ only in the "
                             "draws consumed before the error are 'not covered'.")
        _c["technique"] += " + decision tables regenerated from the source by a translator and kernel-checked each run"

# Closed forms regenerated from the source on every run (harness/dsdefs.py, lean/SA/Model/DsDefs.lean, lean/SA/Theorems/C20Defs.lean,
# lean/SA/Theorems/C16Defs.lean): NormalDataset / from_metrics / the correlated joint distribution (C20), _apply_rule_of_three (C16).
_DSDEFS = {
    "C20": ("NormalDataset.fnr / fpr / threshold_at_fnr / threshold_at_fpr (scalar and array argument), __post_init__ run with mu_neg = None / "
            "0.0 / 7.0 (only None may be replaced: `mu_neg or -mu_pos` is a definite mismatch), roc() in its four call shapes (thresholds and "
            "the two REPORTED rates per grid entry - the rates AT the computed thresholds, so a curve that returns the requested grid differs "
            "at an out-of-range rate: NaN vs the number -, or ValueError), the keyword arguments of the NormalDataset(...) that from_metrics "
            "returns, and CorrelatedBernoullilDataset.sample up to its validity test (the four joint probabilities, which values raise); "
            "generated theorems generated_c20_normal / _from_metrics / _corr",
            "normal_eq_model, normal_post_eq_model, normal_roc_eq_model, fm_eq_model, corr_eq_model, corr_valid_eq_model (the model's rows "
            "evaluate to SA.NormalDataset.fnr / fpr / thresholdAtFnr / thresholdAtFpr / make / roc / fromMetrics and SA.correlatedJoint for "
            "every input and every oracle), normal_bridge, fm_bridge, corr_bridge"),
    "C16": ("roc_curve._apply_rule_of_three: the resulting row of ci as a nested ite over (alpha, n, rate, row) - np.where chains, boolean-mask "
            "assignment and np.select are followed -, width 1 - pow(alpha, 1/n) with an uninterpreted pow, tests `p < 1/n` / `p > (n-1)/n` on the "
            "RATE array, the second test wins; generated theorem generated_c16_rule3",
            "rule3_eq_model (the model's row is SA.ruleOfThreeRow for every alpha, n, rate, interval and every pow), rule3_bridge"),
}
for _c in CHECKS:
    if _c["property_id"] in _DSDEFS:
        _what, _thms = _DSDEFS[_c["property_id"]]
        _c["level_claimed"]["text"] += (
            " CLOSED FORMS regenerated from /repo's source on every run: harness/dsdefs.py (Python ast, symbolic run; scipy's loc= / scale= in "
            "positional, keyword, **dict and frozen form normalised to (x - loc) / scale resp. loc + scale * q) extracts " + _what + " as rows of "
            "SA.DsDefs.DExpr expressions (uninterpreted cdf / sf / ppf / isf / sqrt / pow; norm.sf(x) and 1 - norm.cdf(x) are DIFFERENT "
            "expressions) plus outcome codes; a generated Lean file states `checkRow model<Item> row <probes> = <verdict>` per item and the "
            "kernel checks it (decide +kernel, cached on the generated text). SA/Theorems/C20Defs.lean / C16Defs.lean prove " + _thms + ", "
            "checkRow_ok_sound (an accepted row has the model's codes and the model's values for ALL inputs and ALL interpretations of the "
            "uninterpreted functions; expressions are accepted modulo commutativity of + and *, DExpr.eqv_sound) and checkRow_mismatch_sound "
            "(a reported mismatch is a differing outcome code or a named probe at which an expression differs from the model's under ONE "
            "named lawful interpretation: cdf = the rational sigmoid sig, sf = 1 - sig, ppf = its inverse on (0,1) / NaN outside [0,1], exact "
            "square and k-th roots - sig_pos, sig_lt_one, sig_strictMono, sigInv_sig, sig_sigInv, lawF1_lawful). A definite mismatch is a "
            "broken proof obligation naming item, formula, probe and both values; mathematically equal rewrites (1 - cdf for sf, p*n < 1 for "
            "p < 1/n, c*(1 + rho*sqrt(p1 p2 / c))) and anything the translator cannot follow (a branch on n > 3, the RNG protocol) are "
            "`unknown` (evidence only).")
        _c["level_note"] += (" For the regenerated closed forms the translator harness/dsdefs.py (its reading of the scipy / NumPy idioms) is "
                             "trusted instead of the hand-written model; it has values only (no aliasing of the caller's arrays, no float "
                             "rounding, no RNG protocol) and says `unknown` for anything else.")
        _c["technique"] += " + closed-form formulas regenerated from the source by a translator and kernel-checked each run"


NOT_APPLICABLE = [
 {"property_id": p, "reason": "not yet claimed: model/theorems/correspondence for this property are still being built (see DESIGN.md §5 for the plan); the technique is applicable"}
 for p in ALL if p not in _claimed
]
NOTES = ("One Lean 4 library (lean/SA) holds the model, spec predicates and theorems; ./check <ID> runs the Lean gate "
         "(build, forbidden-token grep, axiom audit) and the correspondence run against /repo's working tree. "
         "VERIF_SEED and SA_REPO are honoured. Exit 2 = harness problem, never a VIOLATION.")
