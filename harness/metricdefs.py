"""
C04, second tie: the metric DEFINITIONS regenerated from the source on every run.

    python harness/metricdefs.py [--repo DIR] [--json FILE] [--keep] [-v]

Reads the CURRENT `score_analysis/metrics.py` and `score_analysis/cm.py` under $SA_REPO (default /repo) with Python's
`ast` and turns every function that is a plain function of ONE 2x2 matrix `[[tp, fn], [fp, tn]]` into an expression
of the IR of `lean/SA/Model/MetricExpr.lean`:

    cell i j | rowSum i | colSum j | total | diagSum | const c | nan | add | sub | divRaw | whereNZ c a b | call name
    (safeDiv n d = whereNZ d (divRaw n d) nan;  divWhere n d g = whereNZ g (divRaw n d) nan;  oneMinus e = sub (const 1) e)

an interval wrapper `x_ci(matrix, alpha)` into the pair (count, nobs) it hands to `binomial_ci` together with its own
`alpha`, and a `ConfusionMatrix` method into the `metrics` function it forwards `self.matrix` to (through the
`cm_class_metric` decorator, whose wrapper is checked to pass a binary matrix and all arguments through unchanged).
It writes a generated Lean file `.work/GeneratedC04Defs_<pid>.lean` that defines the table as data, prints the
checker's report (`#eval reportLines translated`) and states

    theorem generated_c04_defs_ok : checkAll translated = ⟨true, [mismatches], [covered]⟩ := by decide +kernel

(`checkAll` = names unique and calls closed; the definitions that differ from the model's on a named witness matrix —
none on a clean tree —; the definitions whose NORMAL FORM, two integer coefficient vectors `num / den` over
(tp, fn, fp, tn, 1), is the one the model's table lists under that name).  `SA.MetricExpr.checkAll_covered_sound`
(`lean/SA/Theorems/C04Defs.lean`, proved once for all tables) then gives: every covered definition IS the model's metric
`SA.CMq.*` on every matrix with rational cells; `checkAll_mismatch_sound`: every mismatch names a concrete matrix on which the
two differ.  The lists in the statement are read off the checker's own report (first Lean run) and re-computed by the kernel
(second run): a wrong list fails the proof, it cannot be accepted.

Outcome per function
  ok        same normal form as the model's (covered by the theorem)
  mismatch  a DEFINITE difference: the translated definition and the model differ on a concrete witness matrix
            (broken proof obligation naming function, both normal forms, the matrix and the two values)
  unknown   the translator or the normaliser cannot handle something (NOT an alarm: recorded in the evidence as
            "not covered by the generated definitions"); also `undecided` = normal forms differ but no witness separates
  skipped   not a function of the matrix alone (other parameters), or a name the model's table does not list

TRUSTED BASE (this file): the reading of the NumPy idioms below.  Everything it does not recognise is `unknown`.

Symbolic values.  The matrix parameter is the 2x2 array of its four cells over an arbitrary leading shape `...`; only
operations that act on the LAST two axes elementwise over the leading shape are understood:
  m[..., i, j] (cell), m[..., i, :] (row), m[..., :, j] (column), v[..., i]; integers -2..1; the index must start
  with `...` (anything else depends on the number of leading axes: unknown);
  np.sum(x, axis=-1 | -2 | (-1, -2) | (-2, -1)) and x.sum(axis=..) (positive axes: unknown);
  np.diagonal(m, axis1=-1, axis2=-2) (or -2, -1; offset 0); np.trace(m, axis1=-2, axis2=-1) (default axes: unknown);
  + and - of scalars (np.add / np.subtract), a / b, np.divide / np.true_divide;
  np.divide(a, b, out=o, where=g != 0) = where(g != 0, a / b, o) (also as a statement that fills `o`; also g == 0, ~(..));
  np.where(g != 0, a, b); np.nan; np.full_like(x, c, dtype=float) / zeros_like / ones_like (a constant buffer; a NaN
  buffer without a float dtype: unknown); np.asarray / asanyarray / array / ascontiguousarray (optionally dtype=float),
  .astype(float), .copy(), float(x), x.item(): the identity on values;
  tests on .ndim / .shape / .size / np.ndim / np.isscalar / isinstance: opaque — BOTH branches are followed and must
  produce the same symbolic result (`res.item() if res.ndim == 0 else res`);
  `with np.errstate(..)` / `with warnings.catch_warnings()`: transparent (the IR has values only: whether a warning
  is raised or an error state honoured is the business of the sampled runs, clauses `raises` / errstate);
  calls of sibling functions: `f(matrix)` with the unmodified matrix is `call f` (resolved by the Lean checker);
  a helper with other parameters (`_safe_ratio(num, den)`) is followed with its arguments bound (inlined);
  binomial_ci(count, nobs, alpha) with the function's own unmodified `alpha`.
Not modelled: dtypes (integer overflow in a narrow dtype, truncation), leading-axis bookkeeping, warnings, exceptions,
the type of the result (array vs scalar) — all of these are decided by the sampled correspondence run only.
"""
from __future__ import annotations

import ast
import hashlib
import json
import os
import re
import subprocess
import sys
import time
from pathlib import Path

VERIF = Path(__file__).resolve().parent.parent
LEAN = VERIF / "lean"
WORK = VERIF / ".work"
MAX_DEPTH = 12


class Unknown(Exception):
    """outside the fragment: the function is `unknown` (never an alarm)"""


# --------------------------------------------------------------------------------------
# symbolic values
# --------------------------------------------------------------------------------------
class Sc:
    """a per-matrix scalar: an IR expression (nested tuples)"""
    def __init__(self, e):
        self.e = e

    def key(self):
        return ("Sc", self.e)


class Vec:
    """two scalars along the last axis"""
    def __init__(self, items, origin=None):
        self.items, self.origin = items, origin

    def key(self):
        return ("Vec", tuple(self.items))


class Mat:
    """2x2 scalars along the last two axes"""
    def __init__(self, cells, raw=False):
        self.cells, self.raw = cells, raw

    def key(self):
        return ("Mat", tuple(map(tuple, self.cells)))


def raw_matrix():
    return Mat([[("cell", 0, 0), ("cell", 0, 1)], [("cell", 1, 0), ("cell", 1, 1)]], raw=True)


class Cond:
    """elementwise `e != 0` (nz) or `e == 0`"""
    def __init__(self, e, nz):
        self.e, self.nz = e, nz

    def key(self):
        return ("Cond", self.e, self.nz)


class Opaque:
    """a shape / type-only value or test: its truth is not known, both branches must agree"""
    def key(self):
        return ("Opaque",)


class Py:
    """a Python constant (int, float, bool, None, str, tuple of such)"""
    def __init__(self, v):
        self.v = v

    def key(self):
        return ("Py", repr(self.v))


class Sym:
    """named atoms: alpha, self, *args, **kwargs, the wrapped metric, its result, modules, dtypes"""
    def __init__(self, kind, name=None):
        self.kind, self.name = kind, name

    def key(self):
        return ("Sym", self.kind, self.name)


class CI:
    def __init__(self, count, nobs):
        self.count, self.nobs = count, nobs

    def key(self):
        return ("CI", self.count, self.nobs)


class CIOf:
    def __init__(self, name):
        self.name = name

    def key(self):
        return ("CIOf", self.name)


def same(a, b):
    return a is not None and b is not None and a.key() == b.key()


NAN = ("nan",)


def as_scalar(v, what="operand"):
    if isinstance(v, Sc):
        return v.e
    if isinstance(v, Py) and isinstance(v.v, (int, float)) and not isinstance(v.v, bool):
        if isinstance(v.v, float) and v.v != v.v:
            return NAN
        if float(v.v) == int(v.v) and abs(v.v) < 2 ** 31:
            return ("const", int(v.v))
        raise Unknown(f"non-integer constant {v.v!r}")
    raise Unknown(f"{what} is not a per-matrix scalar ({type(v).__name__})")


FLOAT_DTYPES = {"float", "float64", "double", "float_"}


# --------------------------------------------------------------------------------------
# one module (metrics.py or cm.py)
# --------------------------------------------------------------------------------------
class Module:
    def __init__(self, path: Path, modname: str):
        self.path, self.modname = path, modname
        self.src = path.read_text()
        self.tree = ast.parse(self.src)
        self.funcs, self.globals, self.classes, self.notes = {}, {}, {}, []
        for st in self.tree.body:
            if isinstance(st, ast.FunctionDef):
                if st.name in self.funcs:
                    self.notes.append(f"{st.name} is defined twice (the later definition is the one callers see)")
                self.funcs[st.name] = st
                self.globals.pop(st.name, None)
            elif isinstance(st, ast.ClassDef):
                self.classes[st.name] = st
            elif isinstance(st, ast.Import):
                for a in st.names:
                    nm = a.asname or a.name.split(".")[0]
                    if a.name == "numpy":
                        self.globals[nm] = Sym("module", "np")
                    elif a.name == "warnings":
                        self.globals[nm] = Sym("module", "warnings")
            elif isinstance(st, ast.ImportFrom):
                for a in st.names:
                    nm = a.asname or a.name
                    if st.module == "utils" and st.level == 1 and a.name == "binomial_ci":
                        self.globals[nm] = Sym("binomial_ci")
                    elif st.module is None and st.level == 1 and a.name == "metrics":
                        self.globals[nm] = Sym("module", "metrics")
                    elif st.module == "numpy":
                        self.globals[nm] = Sym("npfunc", a.name)
            elif isinstance(st, ast.Assign) and len(st.targets) == 1 and isinstance(st.targets[0], ast.Name):
                nm = st.targets[0].id
                self.funcs.pop(nm, None)
                if isinstance(st.value, ast.Name):
                    self.globals[nm] = ("alias", st.value.id)       # tar = tpr
                elif isinstance(st.value, ast.Constant) and isinstance(st.value.value, (int, float)):
                    self.globals[nm] = Py(st.value.value)
                else:
                    self.globals[nm] = None                          # unknown on use

    def line_of(self, node):
        return f"score_analysis/{self.path.name}:{getattr(node, 'lineno', '?')}"


# --------------------------------------------------------------------------------------
# the interpreter
# --------------------------------------------------------------------------------------
class Translator:
    def __init__(self, repo: Path):
        pkg = repo / "score_analysis"
        self.metrics = Module(pkg / "metrics.py", "metrics")
        self.cm = Module(pkg / "cm.py", "cm") if (pkg / "cm.py").exists() else None
        self.defs = {}          # table name -> ("value", e) | ("ci", c, n) | ("ciOf", callee)
        self.failed = {}        # table name -> reason
        self.order = []         # table names, callees first
        self.stack = []
        self.info = {}          # table name -> {"where", "note"}
        self.decorator = None   # (ok, reason) for cm_class_metric

    # ---- table definitions ------------------------------------------------------------
    def metric_entry_kind(self, fn: ast.FunctionDef):
        a = fn.args
        if a.vararg or a.kwarg or a.kwonlyargs or a.posonlyargs:
            return None
        names = [x.arg for x in a.args]
        if len(names) == 1:
            return "value"
        if len(names) == 2 and names[1] == "alpha" and len(a.defaults) >= 1:
            return "ci"
        return None

    def ensure(self, name):
        """translate the table definition `name` (a function of metrics.py, or ConfusionMatrix.<method>)"""
        if name in self.defs:
            return self.defs[name]
        if name in self.failed:
            raise Unknown(f"calls {name}, which is not translated ({self.failed[name]})")
        if name in self.stack:
            raise Unknown(f"recursion through {name}")
        self.stack.append(name)
        try:
            body = self._translate(name)
        except Unknown as ex:
            self.failed[name] = str(ex)
            raise
        except RecursionError:
            self.failed[name] = "translator recursion limit"
            raise Unknown("translator recursion limit")
        finally:
            self.stack.pop()
        self.defs[name] = body
        self.order.append(name)
        return body

    def _translate(self, name):
        if name.startswith("ConfusionMatrix."):
            return self._translate_method(name[len("ConfusionMatrix."):])
        mod = self.metrics
        g = mod.globals.get(name)
        if isinstance(g, tuple) and g[0] == "alias" and name not in mod.funcs:
            target = g[1]
            b = self.ensure(target)
            self.info[name] = {"where": f"score_analysis/metrics.py (module-level alias of {target})"}
            return ("value", ("call", target)) if b[0] == "value" else ("ciOf", target)
        fn = mod.funcs.get(name)
        if fn is None:
            raise Unknown("no such function in metrics.py")
        self.info[name] = {"where": mod.line_of(fn)}
        if fn.decorator_list:
            raise Unknown("decorated function")
        kind = self.metric_entry_kind(fn)
        if kind is None:
            raise Unknown("not a function of the matrix alone")
        env = {fn.args.args[0].arg: raw_matrix()}
        if kind == "ci":
            env[fn.args.args[1].arg] = Sym("alpha")
            d = fn.args.defaults[-1]
            self.info[name]["alpha_default"] = d.value if isinstance(d, ast.Constant) else None
        res = self.run_body(fn.body, env, mod, 0)
        return self.as_body(res)

    def as_body(self, res):
        if isinstance(res, Sc):
            return ("value", res.e)
        if isinstance(res, CI):
            return ("ci", res.count, res.nobs)
        if isinstance(res, CIOf):
            return ("ciOf", res.name)
        if res is None:
            raise Unknown("no return value")
        raise Unknown(f"the result is not a per-matrix scalar ({type(res).__name__})")

    # ---- ConfusionMatrix ----------------------------------------------------------------
    def class_methods(self):
        if self.cm is None or "ConfusionMatrix" not in self.cm.classes:
            return {}
        out = {}
        for st in self.cm.classes["ConfusionMatrix"].body:
            if isinstance(st, ast.FunctionDef):
                out[st.name] = st
        return out

    def check_decorator(self):
        """is `cm_class_metric`'s wrapper, for a binary matrix and as_dict=False, `_metric(self, *args, **kwargs)`?"""
        if self.decorator is not None:
            return self.decorator
        self.decorator = (False, "cm_class_metric not found")
        fn = self.cm.funcs.get("cm_class_metric") if self.cm else None
        if fn is None:
            return self.decorator
        try:
            inner = [n for n in ast.walk(fn) if isinstance(n, ast.FunctionDef) and n is not fn]
            wrappers = [n for n in inner if n.args.vararg and n.args.kwarg]
            if len(wrappers) != 1:
                raise Unknown("no single wrapper(self, *args, **kwargs) inside cm_class_metric")
            w = wrappers[0]
            encl = [n for n in inner if n is not w and any(c is w for c in ast.walk(n))]
            if len(encl) != 1 or len(encl[0].args.args) != 1:
                raise Unknown("wrapper is not nested in a one-parameter decorator function")
            dec = encl[0]
            for d in w.decorator_list:
                ok = isinstance(d, ast.Call) and isinstance(d.func, ast.Name) and d.func.id == "wraps"
                if not ok:
                    raise Unknown("wrapper carries a decorator other than functools.wraps")
            rets = [n for n in ast.walk(dec) if isinstance(n, ast.Return) and not any(n is c for c in ast.walk(w))]
            if not rets or not all(isinstance(r.value, ast.Name) and r.value.id == w.name for r in rets):
                raise Unknown("the decorator does not return the wrapper")
            outer_rets = [n for n in ast.walk(fn) if isinstance(n, ast.Return) and not any(n is c for c in ast.walk(dec))]
            for r in outer_rets:
                v = r.value
                ok = (isinstance(v, ast.Name) and v.id == dec.name) or (
                    isinstance(v, ast.Call) and isinstance(v.func, ast.Name) and v.func.id == dec.name and len(v.args) == 1
                    and isinstance(v.args[0], ast.Name) and not v.keywords)
                if not ok:
                    raise Unknown("cm_class_metric returns something other than the decorator / the decorated metric")
            a = w.args
            if len(a.args) != 1 or a.posonlyargs:
                raise Unknown("wrapper has positional parameters besides self")
            env = {a.args[0].arg: Sym("self"), a.vararg.arg: Sym("args"), a.kwarg.arg: Sym("kwargs"),
                   dec.args.args[0].arg: Sym("wrapped")}
            for k, d in zip(a.kwonlyargs, a.kw_defaults):
                if k.arg == "as_dict":
                    env[k.arg] = Py(False)
                elif isinstance(d, ast.Constant):
                    env[k.arg] = Py(d.value)
                else:
                    raise Unknown(f"wrapper parameter {k.arg}")
            for p in fn.args.args:
                env.setdefault(p.arg, Opaque())
            res = self.run_body(w.body, env, self.cm, 0)
            if not (isinstance(res, Sym) and res.kind == "wrapped_result"):
                raise Unknown("for a binary matrix and as_dict=False the wrapper does not return "
                              "_metric(self, *args, **kwargs)")
            self.decorator = (True, "")
        except Unknown as ex:
            self.decorator = (False, str(ex))
        return self.decorator

    def _translate_method(self, mname):
        meths = self.class_methods()
        fn = meths.get(mname)
        if fn is None:
            raise Unknown("no such method in ConfusionMatrix")
        self.info["ConfusionMatrix." + mname] = {"where": self.cm.line_of(fn)}
        for d in fn.decorator_list:
            is_cmm = (isinstance(d, ast.Name) and d.id == "cm_class_metric") or (
                isinstance(d, ast.Call) and isinstance(d.func, ast.Name) and d.func.id == "cm_class_metric"
                and not d.args and all(k.arg == "axis" for k in d.keywords))
            if not is_cmm:
                raise Unknown("decorator other than cm_class_metric")
            ok, why = self.check_decorator()
            if not ok:
                raise Unknown(f"decorator cm_class_metric is not recognised as a pass-through for binary matrices: {why}")
        a = fn.args
        if a.vararg or a.kwarg or a.posonlyargs or not a.args:
            raise Unknown("method signature")
        env = {a.args[0].arg: Sym("self")}
        pos = a.args[1:]
        defaults = [None] * (len(pos) - len(a.defaults)) + list(a.defaults)
        for p, d in list(zip(pos, defaults)) + list(zip(a.kwonlyargs, a.kw_defaults)):
            if p.arg == "alpha":
                env[p.arg] = Sym("alpha")
            elif p.arg == "as_dict":
                env[p.arg] = Py(False)
            elif isinstance(d, ast.Constant):
                env[p.arg] = Py(d.value)
            else:
                raise Unknown(f"method parameter {p.arg}")
        res = self.run_body(fn.body, env, self.cm, 0)
        return self.as_body(res)

    # ---- statements ---------------------------------------------------------------------
    def run_body(self, stmts, env, mod, depth):
        """value returned by the statement list (None = falls off the end)"""
        if depth > MAX_DEPTH:
            raise Unknown("nesting too deep")
        for i, st in enumerate(stmts):
            if isinstance(st, ast.Expr):
                v = st.value
                if isinstance(v, ast.Constant):
                    continue            # docstring
                if isinstance(v, ast.Call):
                    f = self.eval(v.func, env, mod, depth)
                    if isinstance(f, Sym) and f.kind == "attr_of_module" and f.name[0] == "warnings":
                        continue        # warnings.simplefilter(...)
                    if isinstance(f, Sym) and f.kind == "npfunc" and f.name in ("divide", "true_divide") and any(
                            k.arg == "out" for k in v.keywords):
                        self.eval(v, env, mod, depth)
                        continue
                raise Unknown(f"statement `{ast.unparse(st)[:60]}`")
            if isinstance(st, ast.Pass):
                continue
            if isinstance(st, (ast.Assign, ast.AnnAssign)):
                targets = st.targets if isinstance(st, ast.Assign) else [st.target]
                if st.value is None:
                    continue
                if len(targets) != 1 or not isinstance(targets[0], ast.Name):
                    raise Unknown(f"assignment `{ast.unparse(st)[:60]}`")
                env[targets[0].id] = self.eval(st.value, env, mod, depth)
                continue
            if isinstance(st, ast.Return):
                if st.value is None:
                    raise Unknown("bare return")
                return self.eval(st.value, env, mod, depth)
            if isinstance(st, ast.If):
                t = self.eval(st.test, env, mod, depth)
                rest = stmts[i + 1:]
                if isinstance(t, Py):
                    return self.run_body((st.body if t.v else st.orelse) + rest, env, mod, depth + 1)
                if isinstance(t, Opaque):
                    r1 = self.run_body(st.body + rest, dict(env), mod, depth + 1)
                    r2 = self.run_body(st.orelse + rest, dict(env), mod, depth + 1)
                    if not same(r1, r2):
                        raise Unknown(f"the branches of `if {ast.unparse(st.test)[:40]}` give different results")
                    return r1
                raise Unknown(f"data-dependent `if {ast.unparse(st.test)[:40]}`")
            if isinstance(st, ast.With):
                for it in st.items:
                    c = it.context_expr
                    f = self.eval(c.func, env, mod, depth) if isinstance(c, ast.Call) else None
                    ok = isinstance(f, Sym) and ((f.kind == "npfunc" and f.name == "errstate") or (
                        f.kind == "attr_of_module" and f.name == ("warnings", "catch_warnings")))
                    if not ok or it.optional_vars is not None:
                        raise Unknown(f"with `{ast.unparse(c)[:40]}`")
                return self.run_body(st.body + stmts[i + 1:], env, mod, depth + 1)
            if isinstance(st, ast.Raise):
                raise Unknown("raise")
            raise Unknown(f"statement `{type(st).__name__}`")
        return None

    # ---- expressions --------------------------------------------------------------------
    def eval(self, e, env, mod, depth):
        if isinstance(e, ast.Constant):
            if e.value is Ellipsis:
                return Py(Ellipsis)
            return Py(e.value)
        if isinstance(e, ast.Name):
            if e.id in env:
                v = env[e.id]
                if v is None:
                    raise Unknown(f"name {e.id}")
                return v
            if e.id in mod.funcs:
                return Sym("func", (mod.modname, e.id))
            if e.id in mod.globals:
                g = mod.globals[e.id]
                if isinstance(g, tuple) and g[0] == "alias":
                    return Sym("func", (mod.modname, g[1]))
                if g is None:
                    raise Unknown(f"module-level name {e.id}")
                return g
            if e.id in ("float", "int", "bool", "isinstance", "len", "abs"):
                return Sym("builtin", e.id)
            if e.id in ("True", "False", "None"):
                return Py({"True": True, "False": False, "None": None}[e.id])
            raise Unknown(f"name {e.id}")
        if isinstance(e, ast.Tuple):
            vals = [self.eval(x, env, mod, depth) for x in e.elts]
            if all(isinstance(v, Py) for v in vals):
                return Py(tuple(v.v for v in vals))
            raise Unknown("tuple of non-constants")
        if isinstance(e, ast.Attribute):
            base = self.eval(e.value, env, mod, depth)
            return self.attribute(base, e.attr, mod)
        if isinstance(e, ast.Subscript):
            base = self.eval(e.value, env, mod, depth)
            return self.subscript(base, e.slice, env, mod, depth)
        if isinstance(e, ast.UnaryOp):
            v = self.eval(e.operand, env, mod, depth)
            if isinstance(e.op, ast.USub):
                if isinstance(v, Py) and isinstance(v.v, (int, float)):
                    return Py(-v.v)
                return Sc(("sub", ("const", 0), as_scalar(v)))
            if isinstance(e.op, ast.UAdd):
                return v
            if isinstance(e.op, ast.Invert) and isinstance(v, Cond):
                return Cond(v.e, not v.nz)
            if isinstance(e.op, ast.Not):
                if isinstance(v, Py):
                    return Py(not v.v)
                if isinstance(v, Opaque):
                    return v
            raise Unknown(f"operator `{ast.unparse(e)[:40]}`")
        if isinstance(e, ast.BoolOp):
            vals = [self.eval(x, env, mod, depth) for x in e.values]
            if all(isinstance(v, Py) for v in vals):
                r = vals[0].v
                for v in vals[1:]:
                    r = (r and v.v) if isinstance(e.op, ast.And) else (r or v.v)
                return Py(r)
            if all(isinstance(v, (Py, Opaque)) for v in vals):
                return Opaque()
            raise Unknown(f"boolean operator `{ast.unparse(e)[:40]}`")
        if isinstance(e, ast.BinOp):
            a = self.eval(e.left, env, mod, depth)
            b = self.eval(e.right, env, mod, depth)
            if isinstance(a, Py) and isinstance(b, Py) and isinstance(e.op, (ast.Add, ast.Sub)) and all(
                    isinstance(x.v, (int, float)) for x in (a, b)):
                return Py(a.v + b.v if isinstance(e.op, ast.Add) else a.v - b.v)
            if isinstance(e.op, ast.Add):
                return Sc(("add", as_scalar(a), as_scalar(b)))
            if isinstance(e.op, ast.Sub):
                return Sc(("sub", as_scalar(a), as_scalar(b)))
            if isinstance(e.op, ast.Div):
                return Sc(("divRaw", as_scalar(a), as_scalar(b)))
            raise Unknown(f"operator `{ast.unparse(e)[:40]}`")
        if isinstance(e, ast.Compare):
            if len(e.ops) != 1:
                raise Unknown("chained comparison")
            a = self.eval(e.left, env, mod, depth)
            b = self.eval(e.comparators[0], env, mod, depth)
            op = e.ops[0]
            if isinstance(a, Opaque) or isinstance(b, Opaque):
                if isinstance(a, (Opaque, Py)) and isinstance(b, (Opaque, Py)):
                    return Opaque()
                raise Unknown("comparison with a shape")
            if isinstance(a, Py) and isinstance(b, Py):
                if isinstance(op, (ast.Is, ast.Eq)):
                    return Py(a.v is b.v if isinstance(op, ast.Is) else a.v == b.v)
                if isinstance(op, (ast.IsNot, ast.NotEq)):
                    return Py(a.v is not b.v if isinstance(op, ast.IsNot) else a.v != b.v)
            if isinstance(op, (ast.Eq, ast.NotEq)):
                if isinstance(b, Py) and b.v == 0 and not isinstance(b.v, bool) and isinstance(a, Sc):
                    return Cond(a.e, isinstance(op, ast.NotEq))
                if isinstance(a, Py) and a.v == 0 and not isinstance(a.v, bool) and isinstance(b, Sc):
                    return Cond(b.e, isinstance(op, ast.NotEq))
            raise Unknown(f"comparison `{ast.unparse(e)[:40]}`")
        if isinstance(e, ast.IfExp):
            t = self.eval(e.test, env, mod, depth)
            if isinstance(t, Py):
                return self.eval(e.body if t.v else e.orelse, env, mod, depth)
            if isinstance(t, Opaque):
                r1 = self.eval(e.body, env, mod, depth)
                r2 = self.eval(e.orelse, env, mod, depth)
                if not same(r1, r2):
                    raise Unknown(f"the branches of `... if {ast.unparse(e.test)[:40]} else ...` differ")
                return r1
            raise Unknown(f"data-dependent conditional `{ast.unparse(e.test)[:40]}`")
        if isinstance(e, ast.Call):
            return self.call(e, env, mod, depth)
        raise Unknown(f"expression `{type(e).__name__}`")

    def attribute(self, base, attr, mod):
        if isinstance(base, Sym):
            if base.kind == "module" and base.name == "np":
                if attr in ("nan", "NaN", "NAN"):
                    return Sc(NAN)
                if attr in ("float64", "float_", "double"):
                    return Sym("dtype", "float64")
                if attr in ("ndarray", "generic", "number", "floating", "integer"):
                    return Sym("type", attr)
                return Sym("npfunc", attr)
            if base.kind == "module" and base.name == "warnings":
                return Sym("attr_of_module", ("warnings", attr))
            if base.kind == "module" and base.name == "metrics":
                g = self.metrics.globals.get(attr)
                if attr in self.metrics.funcs:
                    return Sym("func", ("metrics", attr))
                if isinstance(g, tuple) and g[0] == "alias":
                    return Sym("func", ("metrics", attr))
                raise Unknown(f"metrics.{attr}")
            if base.kind == "self":
                if attr == "matrix":
                    return raw_matrix()
                if attr == "binary":
                    return Py(True)
                if attr in self.class_methods():
                    return Sym("method", attr)
                raise Unknown(f"self.{attr}")
        if isinstance(base, (Sc, Vec, Mat)):
            if attr in ("ndim", "shape", "size"):
                return Opaque()
            raise Unknown(f".{attr} of an array")
        raise Unknown(f"attribute .{attr}")

    @staticmethod
    def _idx(v):
        if isinstance(v, Py) and isinstance(v.v, int) and not isinstance(v.v, bool) and -2 <= v.v <= 1:
            return v.v % 2
        return None

    def subscript(self, base, sl, env, mod, depth):
        elts = sl.elts if isinstance(sl, ast.Tuple) else [sl]
        if not elts or not (isinstance(elts[0], ast.Constant) and elts[0].value is Ellipsis):
            raise Unknown("index that does not start with `...` (depends on the number of leading axes)")
        rest = []
        for x in elts[1:]:
            if isinstance(x, ast.Slice):
                if x.lower is None and x.upper is None and x.step is None:
                    rest.append(":")
                else:
                    raise Unknown("partial slice")
            else:
                i = self._idx(self.eval(x, env, mod, depth))
                if i is None:
                    raise Unknown(f"index `{ast.unparse(x)[:20]}`")
                rest.append(i)
        if isinstance(base, Mat):
            if len(rest) == 2:
                i, j = rest
                if i == ":" and j == ":":
                    return base
                if i == ":":
                    return Vec([base.cells[0][j], base.cells[1][j]], ("col", j) if base.raw else None)
                if j == ":":
                    return Vec([base.cells[i][0], base.cells[i][1]], ("row", i) if base.raw else None)
                return Sc(base.cells[i][j])
            if len(rest) == 0:
                return base
            raise Unknown("index of the matrix with one trailing position (ambiguous axis)")
        if isinstance(base, Vec):
            if len(rest) == 1 and rest[0] != ":":
                return Sc(base.items[rest[0]])
            if len(rest) == 0 or rest == [":"]:
                return base
            raise Unknown("index of a vector")
        if isinstance(base, Sc) and not rest:
            return base
        raise Unknown("subscript")

    # ---- calls --------------------------------------------------------------------------
    def args_of(self, call, env, mod, depth):
        pos, kw = [], {}
        for a in call.args:
            if isinstance(a, ast.Starred):
                v = self.eval(a.value, env, mod, depth)
                if isinstance(v, Sym) and v.kind == "args":
                    pos.append(v)
                    continue
                raise Unknown("*args")
            pos.append(self.eval(a, env, mod, depth))
        for k in call.keywords:
            v = self.eval(k.value, env, mod, depth)
            if k.arg is None:
                if isinstance(v, Sym) and v.kind == "kwargs":
                    kw["**"] = v
                    continue
                raise Unknown("**kwargs")
            kw[k.arg] = v
        return pos, kw

    @staticmethod
    def _is_float_dtype(v):
        if isinstance(v, Sym) and v.kind == "builtin" and v.name == "float":
            return True
        if isinstance(v, Sym) and v.kind == "dtype":
            return True
        return isinstance(v, Py) and isinstance(v.v, str) and v.v in FLOAT_DTYPES | {"f8", "d"}

    def call(self, call, env, mod, depth):
        # method calls on arrays
        if isinstance(call.func, ast.Attribute):
            base = self.eval(call.func.value, env, mod, depth)
            if isinstance(base, (Sc, Vec, Mat)):
                pos, kw = self.args_of(call, env, mod, depth)
                m = call.func.attr
                if m == "item" and not pos and not kw and isinstance(base, Sc):
                    return base
                if m == "copy" and not pos and not kw:
                    return base
                if m == "astype" and len(pos) == 1 and not kw and self._is_float_dtype(pos[0]):
                    return base
                if m == "sum":
                    return self.np_sum([base] + pos, kw)
                raise Unknown(f"method .{m}() of an array")
        f = self.eval(call.func, env, mod, depth)
        pos, kw = self.args_of(call, env, mod, depth)
        if isinstance(f, Sym):
            if f.kind == "npfunc":
                return self.np_call(f.name, pos, kw, call, env)
            if f.kind == "builtin":
                if f.name == "float" and len(pos) == 1 and not kw and isinstance(pos[0], Sc):
                    return pos[0]
                if f.name in ("isinstance", "len") and pos and all(isinstance(p, (Sc, Vec, Mat, Opaque, Sym, Py)) for p in pos):
                    return Opaque()
                raise Unknown(f"{f.name}(...)")
            if f.kind == "binomial_ci":
                names = ["count", "nobs", "alpha"]
                b = dict(zip(names, pos))
                for k, v in kw.items():
                    if k in b or k not in names:
                        raise Unknown("binomial_ci arguments")
                    b[k] = v
                if "count" not in b or "nobs" not in b:
                    raise Unknown("binomial_ci without count / nobs")
                al = b.get("alpha")
                if not (isinstance(al, Sym) and al.kind == "alpha"):
                    raise Unknown("binomial_ci is not handed the function's own alpha")
                return CI(as_scalar(b["count"], "count"), as_scalar(b["nobs"], "nobs"))
            if f.kind == "wrapped":
                ok = (len(pos) == 2 and isinstance(pos[0], Sym) and pos[0].kind == "self"
                      and isinstance(pos[1], Sym) and pos[1].kind == "args" and list(kw) == ["**"])
                if not ok:
                    raise Unknown("the wrapped metric is not called as _metric(self, *args, **kwargs)")
                return Sym("wrapped_result")
            if f.kind == "func":
                return self.call_function(f.name[1], pos, kw, depth)
            if f.kind == "method":
                return self.call_method(f.name, pos, kw)
        raise Unknown(f"call `{ast.unparse(call.func)[:40]}(...)`")

    def call_method(self, mname, pos, kw):
        name = "ConfusionMatrix." + mname
        if not pos and not kw:
            b = self.ensure(name)
            if b[0] != "value":
                raise Unknown(f"self.{mname}() drops alpha")
            return Sc(("call", name))
        al = pos[0] if len(pos) == 1 and not kw else kw.get("alpha") if (not pos and list(kw) == ["alpha"]) else None
        if isinstance(al, Sym) and al.kind == "alpha":
            b = self.ensure(name)
            if b[0] == "value":
                raise Unknown(f"self.{mname}(alpha) is not an interval function")
            return CIOf(name)
        raise Unknown(f"self.{mname}(...) arguments")

    def call_function(self, fname, pos, kw, depth):
        mod = self.metrics
        g = mod.globals.get(fname)
        if fname not in mod.funcs and isinstance(g, tuple) and g[0] == "alias":
            fname = g[1]
        fn = mod.funcs.get(fname)
        if fn is None:
            raise Unknown(f"call of {fname}")
        a = fn.args
        if a.vararg or a.kwarg or a.posonlyargs or fn.decorator_list:
            raise Unknown(f"call of {fname}: signature")
        params = [x.arg for x in a.args] + [x.arg for x in a.kwonlyargs]
        bound = {}
        if len(pos) > len(a.args):
            raise Unknown(f"call of {fname}: too many arguments")
        for p, v in zip(a.args, pos):
            bound[p.arg] = v
        for k, v in kw.items():
            if k not in params or k in bound:
                raise Unknown(f"call of {fname}: argument {k}")
            bound[k] = v
        defaults = dict(zip([x.arg for x in a.args][len(a.args) - len(a.defaults):], a.defaults))
        defaults.update({k.arg: d for k, d in zip(a.kwonlyargs, a.kw_defaults) if d is not None})
        explicit = set(bound)
        for p in params:
            if p not in bound:
                d = defaults.get(p)
                if isinstance(d, ast.Constant):
                    bound[p] = Py(d.value)
                else:
                    raise Unknown(f"call of {fname}: missing argument {p}")
        kind = self.metric_entry_kind(fn)
        first = bound[params[0]] if params else None
        if kind is not None and isinstance(first, Mat) and first.raw:
            # a sibling function of the same matrix: leave the composition to the Lean checker
            try:
                if kind == "value":
                    b = self.ensure(fname)
                    if b[0] == "value":
                        return Sc(("call", fname))
                else:
                    al = bound[params[1]]
                    if isinstance(al, Sym) and al.kind == "alpha" and params[1] in explicit:
                        b = self.ensure(fname)
                        if b[0] in ("ci", "ciOf"):
                            return CIOf(fname)
                        return Sc(("call", fname))
                    if params[1] not in explicit:
                        b = self.ensure(fname)
                        if b[0] in ("ci", "ciOf"):
                            raise Unknown(f"{fname}(matrix) without alpha: the caller's alpha is dropped")
                        return Sc(("call", fname))
            except Unknown as ex:
                if "alpha is dropped" in str(ex) or fname in self.stack:
                    raise
                # not translatable as a table definition (e.g. returns a row): follow it inline instead
        if fname in [s for s in self.stack[:-1]] and depth > MAX_DEPTH // 2:
            raise Unknown(f"recursion through {fname}")
        return self.run_body(fn.body, bound, mod, depth + 1)

    # ---- NumPy --------------------------------------------------------------------------
    def np_sum(self, pos, kw):
        if not pos:
            raise Unknown("np.sum()")
        x = pos[0]
        axis = pos[1] if len(pos) > 1 else kw.get("axis")
        extra = set(kw) - {"axis", "dtype"}
        if extra or len(pos) > 2:
            raise Unknown(f"np.sum with {sorted(extra) or 'extra positional arguments'}")
        if "dtype" in kw and not self._is_float_dtype(kw["dtype"]):
            raise Unknown("np.sum with a dtype")
        if not isinstance(axis, Py):
            raise Unknown("np.sum without a constant axis (the default sums over the leading axes too)")
        ax = axis.v
        if isinstance(x, Mat):
            if isinstance(ax, tuple) and sorted(ax) == [-2, -1]:
                if x.raw:
                    return Sc(("total",))
                c = x.cells
                return Sc(("add", ("add", ("add", c[0][0], c[0][1]), c[1][0]), c[1][1]))
            if ax == -1:
                return Vec([("rowSum", i) if x.raw else ("add", x.cells[i][0], x.cells[i][1]) for i in (0, 1)])
            if ax == -2:
                return Vec([("colSum", j) if x.raw else ("add", x.cells[0][j], x.cells[1][j]) for j in (0, 1)])
            raise Unknown(f"np.sum(matrix, axis={ax!r})")
        if isinstance(x, Vec):
            if ax == -1 or ax == (-1,):
                if x.origin is not None:
                    o = x.origin
                    return Sc(("diagSum",) if o[0] == "diag" else ("rowSum", o[1]) if o[0] == "row" else ("colSum", o[1]))
                return Sc(("add", x.items[0], x.items[1]))
            raise Unknown(f"np.sum(vector, axis={ax!r})")
        raise Unknown("np.sum of a scalar")

    def np_call(self, name, pos, kw, call, env):
        if name == "sum":
            return self.np_sum(pos, kw)
        if name in ("asarray", "asanyarray", "array", "ascontiguousarray"):
            extra = set(kw) - {"dtype", "copy"}
            if len(pos) != 1 or extra:
                raise Unknown(f"np.{name} arguments")
            if "dtype" in kw and not self._is_float_dtype(kw["dtype"]):
                raise Unknown(f"np.{name} with a non-float dtype")
            if isinstance(pos[0], (Sc, Vec, Mat)):
                return pos[0]
            raise Unknown(f"np.{name} of a non-array")
        if name in ("full_like", "zeros_like", "ones_like"):
            if not pos or not isinstance(pos[0], (Sc,)):
                raise Unknown(f"np.{name} of a non-scalar template")
            if name == "full_like":
                fill = pos[1] if len(pos) > 1 else kw.get("fill_value")
                if fill is None or len(pos) > 2:
                    raise Unknown("np.full_like arguments")
                c = as_scalar(fill, "fill value")
            else:
                if len(pos) > 1:
                    raise Unknown(f"np.{name} arguments")
                c = ("const", 0 if name == "zeros_like" else 1)
            if c[0] not in ("const", "nan"):
                raise Unknown(f"np.{name} with a non-constant fill")
            if set(kw) - {"dtype", "fill_value"}:
                raise Unknown(f"np.{name} arguments")
            if "dtype" not in kw or not self._is_float_dtype(kw["dtype"]):
                raise Unknown(f"np.{name} without dtype=float (the buffer has the template's dtype)")
            return Sc(c)
        if name == "diagonal":
            if len(pos) != 1 or not isinstance(pos[0], Mat):
                raise Unknown("np.diagonal arguments")
            a1, a2, off = kw.get("axis1"), kw.get("axis2"), kw.get("offset", Py(0))
            if set(kw) - {"axis1", "axis2", "offset"} or not all(isinstance(v, Py) for v in (a1, a2, off)):
                raise Unknown("np.diagonal without axis1 / axis2 (the default axes are the two leading ones)")
            if sorted([a1.v, a2.v]) != [-2, -1] or off.v != 0:
                raise Unknown("np.diagonal axes")
            m = pos[0]
            return Vec([m.cells[0][0], m.cells[1][1]], ("diag",) if m.raw else None)
        if name == "trace":
            if len(pos) != 1 or not isinstance(pos[0], Mat):
                raise Unknown("np.trace arguments")
            a1, a2, off = kw.get("axis1"), kw.get("axis2"), kw.get("offset", Py(0))
            if set(kw) - {"axis1", "axis2", "offset"} or not all(isinstance(v, Py) for v in (a1, a2, off)):
                raise Unknown("np.trace without axis1 / axis2 (the default axes are the two leading ones)")
            if sorted([a1.v, a2.v]) != [-2, -1] or off.v != 0:
                raise Unknown("np.trace axes")
            m = pos[0]
            return Sc(("diagSum",) if m.raw else ("add", m.cells[0][0], m.cells[1][1]))
        if name in ("add", "subtract"):
            if len(pos) != 2 or kw:
                raise Unknown(f"np.{name} arguments")
            return Sc(("add" if name == "add" else "sub", as_scalar(pos[0]), as_scalar(pos[1])))
        if name in ("divide", "true_divide"):
            if len(pos) != 2 or set(kw) - {"out", "where"}:
                raise Unknown(f"np.{name} arguments")
            q = ("divRaw", as_scalar(pos[0], "numerator"), as_scalar(pos[1], "denominator"))
            out, wh = kw.get("out"), kw.get("where")
            if isinstance(out, Py) and out.v is None:
                out = None
            if wh is None or (isinstance(wh, Py) and wh.v is True):
                res = q
            else:
                if not isinstance(wh, Cond):
                    raise Unknown("np.divide with a mask that is not `x != 0` / `x == 0`")
                if out is None:
                    raise Unknown("np.divide with where= and no out= (uninitialised entries)")
                o = as_scalar(out, "out buffer")
                res = ("whereNZ", wh.e, q, o) if wh.nz else ("whereNZ", wh.e, o, q)
            result = Sc(res)
            if out is not None:         # the buffer now holds the result - under every name it is bound to
                for nm in [nm for nm, v in env.items() if v is out]:
                    env[nm] = result
            return result
        if name == "where":
            if len(pos) != 3 or kw or not isinstance(pos[0], Cond):
                raise Unknown("np.where with a condition that is not `x != 0` / `x == 0`")
            a, b = as_scalar(pos[1]), as_scalar(pos[2])
            c = pos[0]
            return Sc(("whereNZ", c.e, a, b) if c.nz else ("whereNZ", c.e, b, a))
        if name in ("ndim", "shape", "size", "isscalar"):
            return Opaque()
        if name in ("float64", "float_", "double") and len(pos) == 1 and not kw and isinstance(pos[0], Sc):
            return pos[0]
        raise Unknown(f"np.{name}(...)")


# --------------------------------------------------------------------------------------
# Lean text
# --------------------------------------------------------------------------------------
def lean_expr(e, ids):
    k = e[0]
    if k == "cell":
        return f"(.cell {e[1]} {e[2]})"
    if k in ("rowSum", "colSum"):
        return f"(.{k} {e[1]})"
    if k in ("total", "diagSum", "nan"):
        return f".{k}"
    if k == "const":
        return f"(.const {e[1]})" if e[1] >= 0 else f"(.const ({e[1]}))"
    if k == "sub" and e[1] == ("const", 1):
        return f"(Expr.oneMinus {lean_expr(e[2], ids)})"
    if k in ("add", "sub", "divRaw"):
        return f"(.{k} {lean_expr(e[1], ids)} {lean_expr(e[2], ids)})"
    if k == "whereNZ":
        c, a, b = e[1:]
        if b == NAN and a[0] == "divRaw":
            if a[2] == c:
                return f"(Expr.safeDiv {lean_expr(a[1], ids)} {lean_expr(a[2], ids)})"
            return f"(Expr.divWhere {lean_expr(a[1], ids)} {lean_expr(a[2], ids)} {lean_expr(c, ids)})"
        return f"(.whereNZ {lean_expr(c, ids)} {lean_expr(a, ids)} {lean_expr(b, ids)})"
    if k == "call":
        return f"(.call {ids[e[1]]})"
    raise ValueError(k)


def lean_body(b, ids):
    if b[0] == "value":
        return f".value {lean_expr(b[1], ids)}"
    if b[0] == "ci":
        return f".ci {lean_expr(b[1], ids)} {lean_expr(b[2], ids)}"
    return f".ciOf {ids[b[1]]}"


def number(order, model_ids):
    """numbers of the definitions: the model's number for a public name, 1000.. for everything else"""
    ids, k = {}, 1000
    for n in order:
        if n in model_ids:
            ids[n] = model_ids[n]
        else:
            ids[n] = k
            k += 1
    return ids


def show_expr(e):
    """compact text for messages"""
    k = e[0]
    if k == "cell":
        return ["tp", "fn", "fp", "tn"][2 * e[1] + e[2]]
    if k == "rowSum":
        return ["(tp+fn)", "(fp+tn)"][e[1]]
    if k == "colSum":
        return ["(tp+fp)", "(fn+tn)"][e[1]]
    if k == "total":
        return "(tp+fn+fp+tn)"
    if k == "diagSum":
        return "(tp+tn)"
    if k == "const":
        return str(e[1])
    if k == "nan":
        return "nan"
    if k in ("add", "sub", "divRaw"):
        return f"({show_expr(e[1])} {'+' if k == 'add' else '-' if k == 'sub' else '/'} {show_expr(e[2])})"
    if k == "whereNZ":
        return f"where({show_expr(e[1])} != 0, {show_expr(e[2])}, {show_expr(e[3])})"
    return f"{e[1]}(m)"


def show_body(b):
    if b[0] == "value":
        return show_expr(b[1])
    if b[0] == "ci":
        return f"binomial_ci(count={show_expr(b[1])}, nobs={show_expr(b[2])}, alpha)"
    return f"{b[1]}(m, alpha)"


VARS = ["tp", "fn", "fp", "tn", "1"]


def show_lin(txt):
    cs = [int(x) for x in txt.split(",")]
    parts = []
    for c, v in zip(cs, VARS):
        if c == 0:
            continue
        t = v if abs(c) == 1 and v != "1" else (str(abs(c)) if v == "1" else f"{abs(c)}*{v}")
        parts.append(("-" if c < 0 else "+") + t)
    s = "".join(parts).lstrip("+")
    return s or "0"


def show_nf(txt):
    if txt in ("none", ""):
        return "no normal form"
    kind, _, rest = txt.partition(":")
    if kind == "lin":
        return show_lin(rest)
    a, _, b = rest.partition("/")
    if kind == "ci":
        return f"binomial_ci(count = {show_lin(a)}, nobs = {show_lin(b)})"
    return f"({show_lin(a)}) / ({show_lin(b)})"


# --------------------------------------------------------------------------------------
# generation, Lean runs, report
# --------------------------------------------------------------------------------------
GEN_X = "GeneratedC04Defs_X"


def translate(repo: Path):
    tr = Translator(repo)
    # every function of metrics.py with the signature of a table definition, in source order (callees are pulled first)
    names = [st.name for st in tr.metrics.tree.body if isinstance(st, ast.FunctionDef)]
    names += [n for n, g in tr.metrics.globals.items() if isinstance(g, tuple) and g[0] == "alias" and n not in names]
    skipped = {}
    for n in dict.fromkeys(names):
        fn = tr.metrics.funcs.get(n)
        if fn is not None and tr.metric_entry_kind(fn) is None:
            skipped[n] = "not a function of the matrix alone (helper with other parameters: followed where it is called)"
            continue
        try:
            tr.ensure(n)
        except Unknown:
            pass
    return tr, skipped


def add_methods(tr: Translator, model_names):
    for n in model_names:
        if n.startswith("ConfusionMatrix."):
            try:
                tr.ensure(n)
            except Unknown:
                pass


def lean_text(tr, repo: Path, module: str, model_ids=None, theorem=None):
    ids = number(tr.order, model_ids or {})
    lines = [f"-- GENERATED by harness/metricdefs.py from {repo}/score_analysis/metrics.py and cm.py; do not edit",
             "import SA.Model.MetricExpr", "set_option maxRecDepth 100000", "open SA.MetricExpr",
             f"namespace SA.{module}", ""]
    for i, n in enumerate(tr.order):
        lines.append(f"/-- {n}  ({tr.info.get(n, {}).get('where', '?')}): {show_body(tr.defs[n])} -/")
        lines.append(f'def d{i} : Def := ⟨{ids[n]}, "{n}", {lean_body(tr.defs[n], ids)}⟩')
    lines.append("")
    lines.append("def translated : List Def := [" + ", ".join(f"d{i}" for i in range(len(tr.order))) + "]")
    lines.append("")
    lines.append('#eval IO.println ("\\n".intercalate (reportLines translated))')
    if theorem is not None:
        closed, mism, cov = theorem
        lines.append("")
        lines.append("/-- numbers unique and calls closed; (number of a definition that differs from the model's, index of the witness")
        lines.append("matrix on which it does) - none on a clean tree; the numbers of the definitions with the model's normal form, which by")
        lines.append("`SA.MetricExpr.checkAll_covered_sound` ARE the model's metrics on every matrix with rational cells.")
        lines.append("mismatches: " + (", ".join(s for s, _ in mism) or "none"))
        lines.append("covered: " + ", ".join(cov) + " -/")
        lines.append("theorem generated_c04_defs_ok : checkAll translated = ⟨" + ("true" if closed else "false") + ", ["
                     + ", ".join(f"({ids[s]}, {i})" for s, i in mism) + "], [" + ", ".join(str(ids[s]) for s in cov)
                     + "]⟩ := by decide +kernel")
        lines.append("")
        lines.append("#print axioms generated_c04_defs_ok")
    lines.append(f"end SA.{module}")
    return "\n".join(lines) + "\n"


def run_lean(lean_file: Path, timeout=600):
    t0 = time.time()
    p = subprocess.run(["lake", "env", "lean", str(lean_file)], cwd=LEAN, capture_output=True, text=True,
                       timeout=timeout)
    return p.returncode, p.stdout + p.stderr, time.time() - t0


def cached_lean(text: str, module: str, tag: str, keep=False):
    """compile the generated text, or reuse the result of an earlier run on a byte-identical text (up to the process
    id in the module name; same checker source, same toolchain)"""
    h = hashlib.sha256()
    h.update(text.replace(module, GEN_X).encode())
    for dep in (LEAN / "SA" / "Model" / "MetricExpr.lean", LEAN / "SA" / "Model" / "Metrics.lean",
                LEAN / "lean-toolchain", LEAN / "lake-manifest.json"):
        if dep.exists():
            h.update(dep.read_bytes())
    cdir = WORK / "metricdefs_cache"
    cdir.mkdir(parents=True, exist_ok=True)
    cf = cdir / (h.hexdigest()[:32] + ".json")
    if cf.exists() and os.environ.get("VERIF_METRICDEFS_NOCACHE") != "1":
        try:
            c = json.loads(cf.read_text())
            return c["rc"], c["text"].replace(GEN_X, module), 0.0, True
        except Exception:  # noqa: BLE001
            pass
    f = WORK / f"{module}{tag}.lean"
    f.write_text(text)
    try:
        rc, out, t = run_lean(f)
    finally:
        if not keep:
            try:
                f.unlink()
            except OSError:
                pass
    out = out.replace(str(f), "<generated>")
    try:
        tmp = cf.with_suffix(f".{os.getpid()}.tmp")
        tmp.write_text(json.dumps({"rc": rc, "text": out.replace(module, GEN_X)}))
        tmp.replace(cf)
        old = sorted(cdir.glob("*.json"), key=lambda p: p.stat().st_mtime)
        for p in old[:-60]:
            p.unlink()
    except OSError:
        pass
    return rc, out, t, False


KV = re.compile(r"(\w+)=(\S*)")


def parse_report(text):
    rows, model, closed = {}, {}, None
    for ln in text.splitlines():
        if ln.startswith("DEF "):
            d = dict(KV.findall(ln[4:]))
            rows[d["name"]] = d
        elif ln.startswith("MODEL "):
            model = {x.rpartition(":")[0]: int(x.rpartition(":")[2]) for x in ln[6:].strip().split(",") if x}
        elif ln.startswith("TABLE "):
            closed = dict(KV.findall(ln[6:])).get("closed") == "1"
    axioms = {}
    for m in re.finditer(r"'([^']+)' depends on axioms: \[([^\]]*)\]", text, flags=re.S):
        axioms[m.group(1).split(".")[-1]] = [a.strip() for a in m.group(2).replace("\n", " ").split(",") if a.strip()]
    for m in re.finditer(r"'([^']+)' does not depend on any axioms", text):
        axioms[m.group(1).split(".")[-1]] = []
    return rows, model, closed, axioms


def analyse(repo: Path = None, keep=False):
    """translate, run the checker, state and check the theorem; returns the evidence dictionary"""
    repo = Path(repo or os.environ.get("SA_REPO", "/repo")).resolve()
    WORK.mkdir(exist_ok=True)
    module = f"GeneratedC04Defs_{os.getpid()}"
    t0 = time.time()
    tr, skipped = translate(repo)
    # first run: which names does the model list (the ConfusionMatrix methods to translate)?  The list is printed by
    # the checker itself, so the harness carries no copy of the model's table.
    names_text = lean_text(_EmptyTable(), repo, module)
    rc0, out0, t_l0, c0 = cached_lean(names_text, module, "_names", keep)
    _, model_ids, _, _ = parse_report(out0)
    model_names = list(model_ids)
    if rc0 != 0 or not model_names:
        return {"status": "harness-problem", "repo": str(repo),
                "problem": "the checker did not print the model's names: " + out0[-300:]}
    add_methods(tr, model_names)
    t_translate = time.time() - t0
    # second run: the checker's report on the translated table
    rc1, out1, t_l1, c1 = cached_lean(lean_text(tr, repo, module, model_ids), module, "_report", keep)
    rows, _, closed, _ = parse_report(out1)
    if rc1 != 0 or closed is None or set(rows) != set(tr.order):
        return {"status": "harness-problem", "repo": str(repo),
                "problem": "the checker's report could not be read: " + "; ".join(
                    ln for ln in out1.splitlines() if "error" in ln)[:400]}
    mism = [(n, int(rows[n]["verdict"].split(":")[1])) for n in tr.order if rows[n]["verdict"].startswith("mismatch")]
    cov = [n for n in tr.order if rows[n]["verdict"] == "ok"]
    # third run: the theorem, checked by the kernel
    text = lean_text(tr, repo, module, model_ids, theorem=(closed, mism, cov))
    rc2, out2, t_l2, c2 = cached_lean(text, module, "", keep)
    _, _, _, axioms = parse_report(out2)
    ax = axioms.get("generated_c04_defs_ok")
    bad_axioms = sorted(set(ax or []) - {"propext", "Classical.choice", "Quot.sound"})
    proved = rc2 == 0 and ax is not None and not bad_axioms
    errors = [ln for ln in out2.splitlines() if ": error:" in ln or "error:" in ln][:6]

    functions = {}
    for n in tr.order:
        r = rows[n]
        v = r["verdict"]
        st = "ok" if v == "ok" else "mismatch" if v.startswith("mismatch") else "unknown" if v == "undecided" else "no-model"
        ent = {"status": st, "where": tr.info.get(n, {}).get("where"), "translated": show_body(tr.defs[n]),
               "normal_form": show_nf(r.get("nf", "")), "model": show_nf(r.get("model", ""))}
        if st == "unknown":
            ent["why"] = ("the normaliser has no normal form for this expression" if r.get("nf") == "none" else
                          "normal forms differ as data") + " and no witness matrix separates it from the model"
        if st == "mismatch":
            ent["witness_matrix"] = [int(x) for x in r.get("witness", "0,0,0,0").split(",")]
            ent["value_translated"], ent["value_model"] = r.get("got"), r.get("want")
        if "alpha_default" in tr.info.get(n, {}):
            ent["alpha_default"] = tr.info[n]["alpha_default"]
        functions[n] = ent
    for n, why in tr.failed.items():
        if n in model_names or not n.startswith("ConfusionMatrix."):
            functions[n] = {"status": "unknown", "where": tr.info.get(n, {}).get("where"), "why": why}
    for n, why in skipped.items():
        functions.setdefault(n, {"status": "skipped", "why": why})
    missing = [n for n in model_names if n not in functions]
    for n in missing:
        functions[n] = {"status": "unknown", "why": "the model lists this name but the source has no such function"}
    listed = [n for n in model_names]
    res = {
        "repo": str(repo), "lean_rc": rc2, "closed": closed,
        "wall_s": {"translate": round(t_translate, 2), "lean": round(t_l0 + t_l1 + t_l2, 2)},
        "lean_result_cached": bool(c0 and c1 and c2),
        "functions": functions,
        "model_names": listed,
        "ok": [n for n in listed if functions.get(n, {}).get("status") == "ok"],
        "mismatch": [n for n in listed if functions.get(n, {}).get("status") == "mismatch"],
        "unknown": [n for n in listed if functions.get(n, {}).get("status") == "unknown"],
        "no_model": [n for n, f in functions.items() if f["status"] in ("no-model", "skipped")],
        "stated": {"closed": closed, "mismatches": mism, "covered": cov},
        "theorems": {"generated_c04_defs_ok": ax}, "bad_axioms": bad_axioms, "lean_errors": errors,
        "decorator_cm_class_metric": {"pass_through_for_binary": tr.decorator[0], "why_not": tr.decorator[1]}
        if tr.decorator is not None else None,
        "notes": tr.metrics.notes + (tr.cm.notes if tr.cm else []),
        "generated_lean": text if keep else None,
    }
    if not proved:
        res["status"] = "harness-problem"
        res["problem"] = "the generated theorem was not accepted: " + ("; ".join(errors)[:300] or out2[-300:])
    elif mism or not closed:
        res["status"] = "mismatch"
    else:
        res["status"] = "ok"
    return res


class _EmptyTable:
    order, defs, info = [], {}, {}


def describe_mismatch(name, f):
    w = f.get("witness_matrix", [])
    mat = f"[[{w[0]}, {w[1]}], [{w[2]}, {w[3]}]]" if len(w) == 4 else "?"
    return (f"{name} [{f.get('where')}]: the source computes {f.get('translated')} = {f.get('normal_form')}, the model's "
            f"{name} is {f.get('model')}; on the matrix {mat} they are {f.get('value_translated')} and "
            f"{f.get('value_model')}")


# --------------------------------------------------------------------------------------
# integration in ./check C04 (harness/props/c04.py: extra_gate_start / extra_gate_finish)
# --------------------------------------------------------------------------------------
def start(repo: Path):
    """run the analysis in a child process (the generated cases run meanwhile)"""
    WORK.mkdir(exist_ok=True)
    out = WORK / f"metricdefs_result_{os.getpid()}.json"
    p = subprocess.Popen([sys.executable, str(Path(__file__).resolve()), "--repo", str(repo), "--json", str(out),
                          "--quiet"], stdout=subprocess.PIPE, stderr=subprocess.STDOUT, text=True)
    return p, out


def finish(handle, timeout=900):
    p, out = handle
    try:
        log, _ = p.communicate(timeout=timeout)
    except subprocess.TimeoutExpired:
        p.kill()
        return {"status": "harness-problem", "problem": "definition translation timed out"}
    try:
        res = json.loads(out.read_text())
        out.unlink()
        return res
    except Exception as ex:  # noqa: BLE001
        return {"status": "harness-problem",
                "problem": f"definition translation produced no result ({type(ex).__name__}): {log[-400:]}"}


THEOREM = "generated_c04_defs_ok (regenerated from the source by harness/metricdefs.py on this run)"


def gate_result(res):
    """what ./check needs: problems (broken obligation), theorems, counts, evidence"""
    out = {"problems": [], "theorems": {}, "obligations": 1, "discharged": 0, "notes": [], "evidence_key": "generated_definitions"}
    st = res.get("status")
    if st == "harness-problem":
        why = res.get("problem") or "; ".join(res.get("lean_errors", [])[:2]) or "report mismatch"
        out["notes"].append(f"GENERATED-DEFINITIONS-PROBLEM the definitions could not be regenerated / checked on this tree "
                            f"({why[:300]}); the sampled matrices remain the only tie for the definitions")
        out["evidence"] = {"status": "not evaluated (harness problem)", "detail": why[:600]}
        out["obligations"] = 0
        return out
    fs = res.get("functions", {})
    for n in res.get("mismatch", []):
        out["problems"].append("definitions regenerated from the source: definite mismatch with the model in "
                               + describe_mismatch(n, fs[n]))
    if not res.get("closed", True):
        out["problems"].append("definitions regenerated from the source: the translated table is not closed (duplicate name "
                               "or a call of a later definition)")
    if st == "ok":
        out["discharged"] = 1
        out["theorems"][THEOREM] = (res.get("theorems") or {}).get("generated_c04_defs_ok")
    out["evidence"] = {
        "status": st,
        "what": "Python ast -> expression IR (lean/SA/Model/MetricExpr.lean) for every function of metrics.py that is a function of "
                "the matrix alone, the (count, nobs) arguments of the *_ci wrappers and the ConfusionMatrix methods of cm.py; "
                "normal forms num/den (integer linear forms in tp, fn, fp, tn) compared as data with the model's table by the "
                "Lean kernel (decide +kernel) in a generated file; soundness: SA.MetricExpr.normalize_sound / "
                "checkAll_covered_sound / model_table_sound (lean/SA/Theorems/C04Defs.lean)",
        "covered_equal_to_the_model_on_all_matrices": res.get("ok", []),
        "definite_mismatch": {n: fs[n] for n in res.get("mismatch", [])},
        "not_covered_by_the_generated_definitions": {n: fs[n].get("why") for n in res.get("unknown", [])},
        "helpers_and_names_without_a_model_entry": {n: fs[n].get("why", fs[n].get("translated")) for n in res.get("no_model", [])},
        "definitions": {n: {k: f.get(k) for k in ("where", "translated", "normal_form", "alpha_default") if f.get(k) is not None}
                        for n, f in fs.items() if f["status"] == "ok"},
        "decorator_cm_class_metric": res.get("decorator_cm_class_metric"),
        "translator_notes": res.get("notes"),
        "generated_theorem_axioms": res.get("theorems"),
        "lean_result_cached": res.get("lean_result_cached"), "wall_s": res.get("wall_s"),
    }
    return out


def main(argv=None):
    import argparse
    ap = argparse.ArgumentParser()
    ap.add_argument("--repo", default=None)
    ap.add_argument("--json", default=None)
    ap.add_argument("--keep", action="store_true")
    ap.add_argument("-v", action="store_true")
    ap.add_argument("--quiet", action="store_true")
    a = ap.parse_args(argv)
    try:
        res = analyse(a.repo, keep=a.keep)
    except Exception as ex:  # noqa: BLE001  - a crash of the tool is a harness problem, never a verdict
        import traceback
        res = {"status": "harness-problem", "problem": f"{type(ex).__name__}: {ex}", "traceback": traceback.format_exc()[-1500:]}
    if a.json:
        Path(a.json).write_text(json.dumps(res, indent=1, default=str))
    if a.quiet:
        return 0 if res["status"] == "ok" else 1
    if "functions" not in res:
        print("metricdefs: harness problem:", res.get("problem"))
        print(res.get("traceback", ""))
        return 1
    print(f"metricdefs: {len(res['model_names'])} names in the model's table: ok={len(res['ok'])} "
          f"mismatch={len(res['mismatch'])} unknown={len(res['unknown'])}; lean rc={res['lean_rc']} {res['wall_s']} "
          f"cached={res['lean_result_cached']}; status={res['status']}")
    for n in res["mismatch"]:
        print("MISMATCH", describe_mismatch(n, res["functions"][n]))
    for n in res["unknown"]:
        print("unknown  ", n, "-", res["functions"][n].get("why"))
    if a.v:
        for n, f in res["functions"].items():
            if f["status"] == "ok":
                print(f"ok        {n:38s} {f['translated']:60s} = {f['normal_form']}")
        for n in res["no_model"]:
            f = res["functions"][n]
            print(f"no model  {n:38s} {f.get('translated') or f.get('why')}")
    for e in res["lean_errors"][:5]:
        print("lean:", e)
    if res.get("problem"):
        print("problem:", res["problem"])
    if a.keep and res.get("generated_lean"):
        print(f"(generated file kept under {WORK})")
    return 0 if res["status"] == "ok" else 1


if __name__ == "__main__":
    sys.exit(main())
