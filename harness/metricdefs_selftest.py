"""
Self-test of harness/metricdefs.py on a synthetic package (idioms the translator must follow, must refuse, must flag).

    /venv/bin/python harness/metricdefs_selftest.py

Expected verdict per function name is given next to each definition: ok / mismatch / unknown.
"""
from __future__ import annotations

import shutil
import sys
import tempfile
from pathlib import Path

sys.path.insert(0, str(Path(__file__).resolve().parent))
import metricdefs  # noqa: E402

METRICS = '''
import warnings
from typing import Union
import numpy as np
from .utils import binomial_ci


def _ratio(num, den):
    res = np.full_like(num, np.nan, dtype=float)
    np.divide(num, den, out=res, where=den != 0)
    if res.ndim == 0:
        return res.item()
    return res


def _ratio2(numerator, denominator):
    ratio = np.divide(numerator, denominator, out=np.full_like(numerator, np.nan, dtype=float), where=denominator != 0)
    return ratio.item() if ratio.ndim == 0 else ratio


def _row(matrix, i):
    return matrix[..., i, :]


def tp(matrix):                                   # ok
    return np.asarray(matrix)[..., 0, 0]


def fn(matrix):                                   # ok
    return matrix[..., 0, -1]


def fp(matrix):                                   # ok
    return matrix[..., -1, 0]


def tn(matrix):                                   # mismatch: reads fp
    return matrix[..., 1, 0]


def p(matrix):                                    # ok: explicit sum of two cells
    return matrix[..., 0, 0] + matrix[..., 0, 1]


def n(matrix):                                    # ok: row through a helper with another parameter
    return np.sum(_row(matrix, 1), axis=-1)


def top(matrix):                                  # ok: column sums of the whole matrix, then an index
    return np.sum(matrix, axis=-2)[..., 0]


def ton(matrix):                                  # unknown: positive axis
    return np.sum(matrix[..., :, 1], axis=0)


def pop(matrix):                                  # ok
    return matrix.sum(axis=(-2, -1))


def accuracy(matrix):                             # ok: np.trace with explicit trailing axes
    return _ratio(np.trace(matrix, axis1=-2, axis2=-1), pop(matrix))


def error_rate(matrix):                           # ok
    return 1 - accuracy(matrix)


def tpr(matrix):                                  # ok: the H3 rewrite
    tp = matrix[..., 0, 0]
    p = np.sum(matrix[..., 0, :], axis=-1)
    safe = np.where(p != 0, p, 1)
    res = np.asarray(np.where(p != 0, tp / safe, np.nan), dtype=float)
    res = res.item() if res.ndim == 0 else res
    return res


def fnr(matrix):                                  # ok: 1 - tpr has the normal form fn / p
    return 1 - tpr(matrix)


def tnr(matrix):                                  # ok: transparent context managers
    with warnings.catch_warnings():
        warnings.simplefilter("ignore")
        with np.errstate(divide="ignore", invalid="ignore"):
            res = np.where(n(matrix) == 0, np.nan, np.true_divide(matrix[..., 1, 1], n(matrix)))
    return res


def fpr(matrix):                                  # mismatch: guard on the numerator
    fp = matrix[..., 1, 0]
    n = np.sum(matrix[..., 1, :], axis=-1)
    return np.divide(fp, n, out=np.full_like(fp, np.nan, dtype=float), where=fp != 0)


tar = tpr                                         # ok: module-level alias


def frr(matrix):                                  # ok
    return fnr(matrix=matrix)


def trr(matrix):                                  # mismatch: wrong target
    return tpr(matrix)


def far(matrix):                                  # mismatch (inherits fpr)
    return fpr(matrix)


def topr(matrix):                                 # ok
    return _ratio2(top(matrix), pop(matrix))


def tonr(matrix):                                 # unknown (ton is unknown)
    return _ratio2(ton(matrix), pop(matrix))


def acceptance_rate(matrix):                      # ok
    return topr(matrix)


def rejection_rate(matrix):                       # unknown
    return tonr(matrix)


def ppv(matrix):                                  # unknown: data-dependent branch
    tp = matrix[..., 0, 0]
    top = np.sum(matrix[..., :, 0], axis=-1)
    if np.all(top):
        res = np.true_divide(tp, top)
    else:
        res = np.full_like(tp, np.nan, dtype=float)
    return res


def npv(matrix):                                  # unknown: NaN buffer without a float dtype
    tn = matrix[..., 1, 1]
    ton = np.sum(matrix[..., :, 1], axis=-1)
    return np.divide(tn, ton, out=np.full_like(tn, np.nan), where=ton != 0)


def fdr(matrix):                                  # unknown: isclose guard
    fp = matrix[..., 1, 0]
    top = np.sum(matrix[..., :, 0], axis=-1)
    return np.divide(fp, top, out=np.full_like(fp, np.nan, dtype=float), where=~np.isclose(top, 0))


def for_(matrix):                                 # unknown: index without the leading ellipsis
    return _ratio(matrix[0, 1], matrix[0, 1] + matrix[1, 1])


def tpr_ci(matrix, alpha=0.05):                   # ok
    return binomial_ci(tp(matrix), p(matrix), alpha)


def tnr_ci(matrix, alpha=0.05):                   # mismatch: tn is wrong
    return binomial_ci(count=tn(matrix), nobs=n(matrix), alpha=alpha)


def fpr_ci(matrix, alpha=0.05):                   # unknown: alpha not forwarded
    return binomial_ci(count=fp(matrix), nobs=n(matrix))


def fnr_ci(matrix, alpha=0.05):                   # mismatch: nobs = n
    return binomial_ci(count=fn(matrix), nobs=n(matrix), alpha=alpha)


def tar_ci(matrix, alpha=0.05):                   # ok
    return tpr_ci(matrix, alpha=alpha)


def frr_ci(matrix, alpha=0.05):                   # unknown: the callee gets the default alpha
    return fnr_ci(matrix)


def trr_ci(matrix, alpha=0.05):                   # unknown: alpha changed
    return tnr_ci(matrix, alpha / 2)


def far_ci(matrix, alpha=0.05):                   # unknown (fpr_ci unknown)
    return fpr_ci(matrix, alpha)
'''

CM = '''
from functools import wraps
import numpy as np
from . import metrics


def cm_class_metric(metric=None, axis: int = -1):
    def decorator(_metric):
        @wraps(_metric)
        def wrapper(self, *args, as_dict: bool = False, **kwargs):
            if self.binary and as_dict:
                raise ValueError("Cannot return as dict with binary matrices.")
            cm = self if self.binary else self.one_vs_all()
            res = _metric(cm, *args, **kwargs)
            return self._class_metric_as_dict(res, axis=axis) if as_dict else res

        return wrapper

    if metric is not None:
        return decorator(metric)
    else:
        return decorator


class ConfusionMatrix:
    def pop(self):                                # ok
        return metrics.pop(self.matrix)

    @cm_class_metric
    def tpr(self, as_dict=False):                 # ok
        return metrics.tpr(self.matrix)

    @cm_class_metric
    def tar(self, as_dict=False):                 # ok: through the sibling method
        return self.tpr()

    @cm_class_metric
    def fnr(self, as_dict=False):                 # mismatch: forwards to fpr
        return metrics.fpr(self.matrix)

    @cm_class_metric
    def fdr(self, as_dict=False):                 # unknown (metrics.fdr unknown)
        return metrics.fdr(self.matrix)

    @property
    def tnr(self):                                # unknown: another decorator
        return metrics.tnr(self.matrix)

    @cm_class_metric(axis=-2)
    def tpr_ci(self, alpha=0.05, *, as_dict=False):       # ok
        return metrics.tpr_ci(self.matrix, alpha=alpha)

    @cm_class_metric(axis=-2)
    def tar_ci(self, alpha=0.05, *, as_dict=False):       # ok
        return self.tpr_ci(alpha)

    @cm_class_metric(axis=-2)
    def fnr_ci(self, alpha=0.05, *, as_dict=False):       # unknown: alpha dropped
        return metrics.fnr_ci(self.matrix)
'''

CM_BAD_DECORATOR = CM.replace("res = _metric(cm, *args, **kwargs)", "res = _metric(cm, *args, as_dict=False)")

EXPECT = {
    "tp": "ok", "fn": "ok", "fp": "ok", "tn": "mismatch", "p": "ok", "n": "ok", "top": "ok", "ton": "unknown", "pop": "ok",
    "accuracy": "ok", "error_rate": "ok", "tpr": "ok", "fnr": "ok", "tnr": "ok", "fpr": "mismatch", "tar": "ok", "frr": "ok",
    "trr": "mismatch", "far": "mismatch", "topr": "ok", "tonr": "unknown", "acceptance_rate": "ok", "rejection_rate": "unknown",
    "ppv": "unknown", "npv": "unknown", "fdr": "unknown", "for_": "unknown",
    "tpr_ci": "ok", "tnr_ci": "mismatch", "fpr_ci": "unknown", "fnr_ci": "mismatch", "tar_ci": "ok", "frr_ci": "unknown",
    "trr_ci": "unknown", "far_ci": "unknown",
    "ConfusionMatrix.pop": "ok", "ConfusionMatrix.tpr": "ok", "ConfusionMatrix.tar": "ok", "ConfusionMatrix.fnr": "mismatch",
    "ConfusionMatrix.fdr": "unknown", "ConfusionMatrix.tnr": "unknown", "ConfusionMatrix.tpr_ci": "ok",
    "ConfusionMatrix.tar_ci": "ok", "ConfusionMatrix.fnr_ci": "unknown",
}


def run(metrics_src, cm_src):
    root = Path(tempfile.mkdtemp(prefix="metricdefs_selftest_"))
    try:
        pkg = root / "score_analysis"
        pkg.mkdir()
        (pkg / "metrics.py").write_text(metrics_src)
        (pkg / "cm.py").write_text(cm_src)
        return metricdefs.analyse(root)
    finally:
        shutil.rmtree(root, ignore_errors=True)


def main():
    res = run(METRICS, CM)
    bad = 0
    if "functions" not in res:
        print("harness problem:", res.get("problem"))
        return 1
    for name, want in EXPECT.items():
        got = res["functions"].get(name, {}).get("status", "absent")
        if got != want:
            bad += 1
            print(f"FAIL {name}: expected {want}, got {got} ({res['functions'].get(name)})")
    if res["status"] != "mismatch":
        bad += 1
        print("FAIL overall status", res["status"], res.get("problem"))
    if res["theorems"].get("generated_c04_defs_ok") is None:
        bad += 1
        print("FAIL the generated theorem (with its mismatch list) was not accepted by the kernel")
    res2 = run(METRICS, CM_BAD_DECORATOR)
    for name in ("ConfusionMatrix.tpr", "ConfusionMatrix.tpr_ci", "ConfusionMatrix.fnr"):
        got = res2.get("functions", {}).get(name, {}).get("status", "absent")
        if got != "unknown":
            bad += 1
            print(f"FAIL (decorator that drops **kwargs) {name}: expected unknown, got {got}")
    if res2.get("functions", {}).get("ConfusionMatrix.pop", {}).get("status") != "ok":
        bad += 1
        print("FAIL (decorator that drops **kwargs) the undecorated ConfusionMatrix.pop should stay ok")
    print(f"metricdefs selftest: {len(EXPECT) + 4 + 2 - bad}/{len(EXPECT) + 4 + 2} expectations met")
    return 1 if bad else 0


if __name__ == "__main__":
    sys.exit(main())
