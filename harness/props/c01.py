"""C01 — confusion matrix at a threshold equals counting by the documented decision rule."""
from __future__ import annotations

import math

import numpy as np

import common
import gen
from common import Case, Issue, q, ql, il, line

ID = "C01"
LEVEL = "proof"
RULE = ("cases = Scores objects (exact stream: dyadic scores with heavy ties; generic stream: "
        "arbitrary floats) x configuration x threshold array (scores, their float neighbours, "
        "midpoints, +-inf, arbitrary shape); non-trivial = distinct input having a tie between a "
        "threshold and a score, or a cross-class tie, or easy samples, or a non-default "
        "configuration, or is_sorted=True")
EXPLANATION = ("Theorems C01_* prove, for all lists/thresholds/configurations, that the model's cm "
               "equals counting by the decision rule. The correspondence run compares the model's "
               "cells and held arrays with Scores.cm / from_labels / pointwise_cm of /repo exactly, "
               "and evaluates the Lean spec predicates on the implementation's own matrices.")
TRUSTED_BASE = ["Lean 4.33 kernel", "axioms propext/Classical.choice/Quot.sound only",
                "hand-written model SA/Model/Basic.lean tied to /repo by this correspondence run",
                "np.sort / np.searchsorted assumed to sort / binary-search",
                "harness (harness/common.py, props/c01.py) and driver parsing"]
ASSUMPTIONS = ["scores and thresholds are finite floats (or +-inf thresholds), compared as exact rationals",
               "integer-dtype score arrays compare with float thresholds as rationals"]


import itertools
import routes

_MS = [list(c) for k in range(4) for c in itertools.combinations_with_replacement([0.0, 1.0, 2.0], k)]
# exhaustive small scope: all multisets over 3 values with <= 3+3 elements x 4 configurations
# x easy counts in {0,1,2}^2; thresholds cover the whole induced order type
_EXH = [(a, b, c, e) for a in range(len(_MS)) for b in range(len(_MS)) for c in range(4)
        for e in range(9)]
_EXH_TS = [-math.inf, -1.0, gen.down(0.0), 0.0, gen.up(0.0), 0.5, gen.down(1.0), 1.0, gen.up(1.0), 1.5,
           gen.down(2.0), 2.0, gen.up(2.0), 3.0, math.inf]


def n_cases(tier):
    return 4000 if tier == "quick" else 32000 + len(_EXH)


def gen_one(rng, i, tier):
    if tier == "thorough" and i < len(_EXH):
        a, b, c, e = _EXH[i]
        sc, ec = gen.CFGS[c]
        return {"stream": "exhaustive", "pos": list(_MS[a]), "neg": list(_MS[b]), "ep": e // 3, "en": e % 3,
                "sc": sc, "ec": ec, "sorted": False, "ts": list(_EXH_TS), "shape": [len(_EXH_TS)],
                "dtype": "float", "via": "ctor", "poslabel": 1}
    if i % 700 == 350:
        # pointwise_cm on a LARGE problem (several million sample x threshold pairs: anything that works through the samples
        # in blocks has a last, partial block): every sample lands in exactly one cell at every threshold
        n_ = rng.randint(2800, 3300)
        vals = [rng.randint(-4000, 4000) / 8.0 for _ in range(n_)]
        k_ = rng.randint(n_ // 3, 2 * n_ // 3)
        sc, ec = rng.choice(gen.CFGS)
        return {"stream": "bigpw", "pos": vals[:k_], "neg": vals[k_:], "ep": 0, "en": 0, "sc": sc, "ec": ec, "sorted": False,
                "ts": [], "shape": [0], "dtype": "float", "via": "ctor", "poslabel": 1, "T": rng.randint(2900, 3100),
                "tseed": rng.randint(0, 2**31 - 1)}
    stream = "exact" if i % 2 == 0 else "generic"
    pos, neg = gen.score_sets(rng, stream)
    ep, en = gen.easy_counts(rng, stream, len(pos), len(neg))
    sc, ec = rng.choice(gen.CFGS)
    ts = gen.thresholds(rng, pos, neg, k=rng.randint(2, 12))
    if rng.random() < 0.1:
        ts = ts[:1]
    if rng.random() < 0.03:
        ts = []
    shape = gen.shape_for(rng, len(ts)) if ts else rng.choice([[0], [2, 0], [0, 3]])
    dtype = "int" if (stream == "generic" and rng.random() < 0.15) else "float"
    if dtype == "int":
        pos = [float(round(x)) for x in pos]
        neg = [float(round(x)) for x in neg]
    elif rng.random() < 0.12:
        # float32 score arrays: every value is exactly representable, thresholds stay float64 (equal to a score, one
        # float64 ulp off a score, not representable in float32)
        dtype = "f4"
        pos = [float(np.float32(x)) for x in pos]
        neg = [float(np.float32(x)) for x in neg]
        if ts:  # same number of thresholds (the shape is already chosen), now placed relative to the rounded scores
            new = gen.thresholds(rng, pos, neg, k=len(ts) + 4)
            ts = (new + ts)[:len(ts)]
    elif rng.random() < 0.12:
        # unsigned / boolean score arrays (differences wrap around, negation is not the mirror image): small
        # non-negative integers, many ties, given unsorted
        dtype = rng.choice(["u1", "u1", "u2", "b1"])
        hi_ = 1 if dtype == "b1" else rng.choice([3, 9, 200])
        pos = [float(rng.randint(0, hi_)) for _ in pos]
        neg = [float(rng.randint(0, hi_)) for _ in neg]
        if ts:
            ts = (gen.thresholds(rng, pos, neg, k=len(ts) + 4) + ts)[:len(ts)]
    elif rng.random() < 0.1 and (pos or neg):
        # infinite scores (a detector that saturates): the decision rule still orders them, inf >= inf holds
        dtype = "float-inf"
        for xs in (pos, neg):
            for j in range(len(xs)):
                if rng.random() < 0.25:
                    xs[j] = rng.choice([math.inf, -math.inf])
    if rng.random() < 0.05:
        # populations beyond 32-bit counters (a vendor reports "3 billion easy rejections"): cells are Python / int64 integers
        big_ = rng.choice([2**31, 2**31 + 7, 3 * 10**9, 2**32 + 1, 2**40 + 3])
        if rng.random() < 0.5:
            ep = big_
        else:
            en = big_
    return {"stream": stream, "pos": pos, "neg": neg, "ep": ep, "en": en, "sc": sc, "ec": ec,
            # the flag in its other usual forms: np.bool_ (what np.all(np.diff(x) >= 0) returns) and 0 / 1
            "sorted_form": rng.choice(["bool", "bool", "np", "int"]),
            "sorted": rng.random() < 0.3, "ts": ts, "shape": shape, "dtype": dtype,
            "via": rng.choice(["ctor", "ctor", "from_labels"]),
            "poslabel": rng.choice([1, 0, "a", 7]),
            # the object reaches the queries through an alternative route (swap twice, deep copy, pickle, as a bootstrap
            # sample): harness/routes.py
            "route": routes.pick(rng, 0.15) if dtype in ("float", "int", "f4") else None, "rseed": rng.randint(0, 2**31 - 1)}


def nontrivial(inp):
    if inp.get("stream") == "bigpw":
        return True
    allv = set(inp["pos"]) | set(inp["neg"])
    return (any(t in allv for t in inp["ts"]) or bool(set(inp["pos"]) & set(inp["neg"]))
            or inp["ep"] > 0 or inp["en"] > 0 or (inp["sc"], inp["ec"]) != ("pos", "pos")
            or inp["sorted"])


def _tags(inp):
    allv = set(inp["pos"]) | set(inp["neg"])
    t = [inp["stream"], f"cfg={inp['sc']},{inp['ec']}", f"via={inp['via']}",
         f"sorted={int(inp['sorted'])}", f"ndim={len(inp['shape'])}"]
    if any(x in allv for x in inp["ts"]):
        t.append("threshold==score")
    if set(inp["pos"]) & set(inp["neg"]):
        t.append("cross-class-tie")
    if inp["ep"] or inp["en"]:
        t.append("easy")
    if not inp["pos"] or not inp["neg"]:
        t.append("empty-class")
    if any(math.isinf(x) for x in inp["ts"]):
        t.append("inf-threshold")
    t.append("dtype=" + str(inp.get("dtype")))
    t.append("is_sorted-form=" + inp.get("sorted_form", "bool"))
    if max(inp["ep"], inp["en"]) >= 2**31:
        t.append("easy>=2^31")
    if inp.get("route"):
        t.append("route=" + inp["route"])
    if any(isinstance(x, float) and math.isinf(x) for x in inp["pos"] + inp["neg"]):
        t.append("inf-score")
    return tuple(t)


def _build_bigpw(inp) -> Case:
    from score_analysis import pointwise_cm
    import random as _r

    inp = dict(inp)
    pos, neg = inp["pos"], inp["neg"]
    allsc = pos + neg
    rr = _r.Random(inp["tseed"])
    ts = [rr.choice(allsc) + rr.choice([0.0, 0.0, 0.0625, -0.0625]) for _ in range(inp["T"])]
    labels = np.array([1] * len(pos) + [0] * len(neg))
    perm = np.random.RandomState(inp["tseed"] % (2**31)).permutation(len(allsc))
    sco = np.array(allsc, dtype=float)
    pre = []
    r = common.call(pointwise_cm, labels[perm], sco[perm], np.array(ts), pos_label=1, score_class=inp["sc"], equal_class=inp["ec"])
    if r[0] == "exc":
        return Case(ID, inp, [], lambda outs: [], ("bigpw",), 0,
                    [Issue("PROPFAIL", "raises", f"pointwise_cm on {len(allsc)} samples x {len(ts)} thresholds raised {r[1]}: {r[2]}",
                           f"pointwise/raises/{r[1]}")])
    pw = np.asarray(r[1])
    if list(pw.shape) != [len(allsc), len(ts), 2, 2]:
        return Case(ID, inp, [], lambda outs: [], ("bigpw",), 0,
                    [Issue("PROPFAIL", "shape", f"pointwise_cm shape {pw.shape} for {len(allsc)} samples x {len(ts)} thresholds", "pointwise/shape")])
    percell = pw.reshape(len(allsc), len(ts), 4).sum(axis=-1)
    bad = np.argwhere(percell != 1)
    if len(bad):
        j_, k_ = int(bad[0][0]), int(bad[0][1])
        pre.append(Issue("PROPFAIL", "pointwise", f"pointwise_cm on {len(allsc)} samples x {len(ts)} thresholds: sample #{j_} (of the call's "
                         f"order) lies in {int(percell[j_, k_])} cells at threshold #{k_}; {len(set(bad[:, 0].tolist()))} samples are affected",
                         "pointwise/large/not-one-cell"))
    sel = sorted(rr.sample(range(len(ts)), 8))
    sums = pw[:, sel].sum(axis=0).reshape(-1, 2, 2)
    ipw = [int(v) for m in sums for v in (m[0, 0], m[0, 1], m[1, 0], m[1, 1])]
    tsel = [ts[k] for k in sel]
    del pw
    ln = line("pwcm", lab=il([1] * len(pos) + [0] * len(neg)), sco=ql(allsc), sc=inp["sc"], ec=inp["ec"], ts=ql(tsel), icms=il(ipw))
    inp["_evals"] = len(ts)

    def judge(outs):
        o2 = outs[0]
        iss = []
        if common.pints(o2["ms"]) != ipw:
            iss.append(Issue("DISAGREE", "pointwise", f"large problem: model={o2['ms']} impl={ipw}", "pointwise/cells"))
        for k, b in enumerate(common.plist(o2["spec.pointwise"])):
            if b != "1":
                iss.append(Issue("PROPFAIL", "pointwise", f"pointwise_cm on {len(allsc)} samples x {len(ts)} thresholds: the sum over samples at "
                                 f"threshold {tsel[k]} = {ipw[4*k:4*k+4]} is not the count by the decision rule", "pointwise/large/cells"))
        return iss

    return Case(ID, inp, [ln], judge, ("bigpw", f"cfg={inp['sc']},{inp['ec']}", "pointwise>2^22-pairs"), 0, pre)


def build(inp) -> Case:
    from score_analysis import Scores, pointwise_cm

    if inp.get("stream") == "bigpw":
        return _build_bigpw(inp)
    inp = dict(inp)
    inp["ts"] = [common.unjson_num(x) for x in inp["ts"]]
    pos, neg = [common.unjson_num(x) for x in inp["pos"]], [common.unjson_num(x) for x in inp["neg"]]
    npdt = {"int": int, "f4": np.float32, "u1": np.uint8, "u2": np.uint16, "b1": np.bool_}.get(inp["dtype"], float)
    # Infinite scores: the model's scores are rationals.  Counting by the decision rule depends only on the order
    # relations between scores and thresholds, so scores AND thresholds are sent through one order embedding
    # (+-inf -> +-M with M beyond every finite value; inf == inf stays an equality) before they reach the driver.
    has_inf = any(math.isinf(x) for x in pos + neg)
    if has_inf:
        big = 2.0 * max([abs(x) for x in pos + neg + inp["ts"] if math.isfinite(x)] + [1.0]) + 16.0

        def emb(x):
            x = float(x)
            return big if x == math.inf else (-big if x == -math.inf else x)
    else:
        def emb(x):
            return x
    srt = bool(inp["sorted"])
    if srt:  # caller's contract: arrays already sorted
        pos, neg = sorted(pos), sorted(neg)
    pre = []
    srt_arg = {"np": np.bool_(srt), "int": int(srt)}.get(inp.get("sorted_form", "bool"), srt)
    kw = dict(nb_easy_pos=inp["ep"], nb_easy_neg=inp["en"], score_class=inp["sc"],
              equal_class=inp["ec"], is_sorted=srt_arg)
    pl = inp["poslabel"]
    other = "zz" if isinstance(pl, str) else pl + 1
    labels = [pl] * len(pos) + [other] * len(neg)
    allsc = pos + neg
    if inp["via"] == "from_labels":
        # interleave deterministically (keeping each class in its given order)
        order = sorted(range(len(allsc)), key=lambda i: (i * 7919) % 104729) if not srt else list(range(len(allsc)))
        if srt:
            lab_arr = np.array(labels, dtype=object if isinstance(pl, str) else None)
            sco_arr = np.array(allsc, dtype=npdt)
        else:
            lab_arr = np.array([labels[i] for i in order], dtype=object if isinstance(pl, str) else None)
            sco_arr = np.array([allsc[i] for i in order], dtype=npdt)
        s = Scores.from_labels(lab_arr, sco_arr, pos_label=pl, **kw)
        # order in which the constructor receives each class
        mpos = [float(x) for x, l in zip(sco_arr.tolist(), lab_arr.tolist()) if l == pl]
        mneg = [float(x) for x, l in zip(sco_arr.tolist(), lab_arr.tolist()) if l != pl]
    else:
        pa_, na_ = np.array(pos, dtype=npdt), np.array(neg, dtype=npdt)
        s = Scores(pa_, na_, **kw)
        mpos, mneg = pos, neg
        if not srt:
            # a second object built from reversed views of the same buffers: the constructor takes sorted COPIES, so
            # neither the caller's arrays nor the first object may change
            b_pa, b_na = routes.shared_views(Scores, pa_, na_, **kw)
            if not (np.array_equal(pa_, b_pa, equal_nan=True) and np.array_equal(na_, b_na, equal_nan=True)):
                pre.append(Issue("PROPFAIL", "cells", f"constructing Scores from views of the caller's arrays changed them: pos "
                                 f"{b_pa.tolist()[:8]} -> {pa_.tolist()[:8]}, neg {b_na.tolist()[:8]} -> {na_.tolist()[:8]}",
                                 "ctor/caller-array-modified"))
    o_ep, o_en, o_sc, o_ec = inp["ep"], inp["en"], inp["sc"], inp["ec"]
    if inp.get("route") and not has_inf:
        r_ = routes.apply(s, inp["route"], inp.get("rseed", 0))
        if r_ is not None:
            s, mpos, mneg, o_ep, o_en, o_sc, o_ec = r_
            srt = False
    tarr = np.array(inp["ts"], dtype=float).reshape(inp["shape"])
    r_cm = common.call(s.cm, tarr)
    if r_cm[0] == "exc":
        return Case(ID, inp, [], lambda outs: [], _tags(inp), 0,
                    [Issue("PROPFAIL", "raises", f"cm({inp['ts'][:4]}) raised {r_cm[1]}: {r_cm[2]} (ep={o_ep}, en={o_en}, "
                           f"cfg {o_sc},{o_ec})", f"cm/raises/{r_cm[1]}")])
    cm = r_cm[1]
    mat = np.asarray(cm.matrix)
    if list(mat.shape) != list(inp["shape"]) + [2, 2]:
        pre.append(Issue("PROPFAIL", "shape", f"cm shape {mat.shape} for thresholds {inp['shape']}", "cm/shape"))
    flat = mat.reshape(-1, 2, 2)
    icms = [int(v) for m in flat for v in (m[0, 0], m[0, 1], m[1, 0], m[1, 1])]
    # rates and aliases of the same object: correctly rounded ratios of its own cells
    for name, alias in gen.ALIASES.items():
        r = np.asarray(getattr(s, name)(tarr)).reshape(-1)
        ra = np.asarray(getattr(s, alias)(tarr)).reshape(-1)
        for k, m in enumerate(flat):
            tp, fn, fp, tn = int(m[0, 0]), int(m[0, 1]), int(m[1, 0]), int(m[1, 1])
            num, den = {"tpr": (tp, tp + fn), "fnr": (fn, tp + fn), "tnr": (tn, fp + tn),
                        "fpr": (fp, fp + tn), "topr": (tp + fp, tp + fn + fp + tn),
                        "tonr": (fn + tn, tp + fn + fp + tn)}[name]
            if not common.rate_ok(r[k], num, den):
                pre.append(Issue("PROPFAIL", "rate", f"{name}({inp['ts'][k]})={r[k]} but cells give {num}/{den}", f"rate/{name}"))
            if not (r[k] == ra[k] or (math.isnan(r[k]) and math.isnan(ra[k]))):
                pre.append(Issue("PROPFAIL", "alias", f"{alias} != {name}", f"alias/{alias}"))
    ets = [emb(t) for t in inp["ts"]]
    lines = [line("cm", pos=ql([emb(x) for x in mpos]), neg=ql([emb(x) for x in mneg]), ep=o_ep, en=o_en,
                  sc=o_sc, ec=o_ec, sorted=int(srt), ts=ql(ets), icms=il(icms))]
    # pointwise_cm on the labelled samples (any order, any label encoding)
    r = common.call(pointwise_cm, np.array(labels, dtype=object if isinstance(pl, str) else None),
                    np.array(allsc, dtype=npdt), tarr, pos_label=pl,
                    score_class=inp["sc"], equal_class=inp["ec"])
    if r[0] == "exc":
        pre.append(Issue("PROPFAIL", "raises", f"pointwise_cm raised {r[1]}: {r[2]}", f"pointwise/raises/{r[1]}"))
        pw = np.zeros([len(allsc)] + list(inp["shape"]) + [2, 2], dtype=bool)
    else:
        pw = r[1]
    if list(pw.shape) != [len(allsc)] + list(inp["shape"]) + [2, 2]:
        pre.append(Issue("PROPFAIL", "shape", f"pointwise_cm shape {pw.shape}", "pointwise/shape"))
    pws = pw.sum(axis=0).reshape(-1, 2, 2)
    ipw = [int(v) for m in pws for v in (m[0, 0], m[0, 1], m[1, 0], m[1, 1])]
    lines.append(line("pwcm", lab=il([1] * len(pos) + [0] * len(neg)), sco=ql([emb(x) for x in allsc]),
                      sc=inp["sc"], ec=inp["ec"], ts=ql(ets), icms=il(ipw)))
    held_pos = [common.fr(emb(float(x))) for x in np.asarray(s.pos).tolist()]
    held_neg = [common.fr(emb(float(x))) for x in np.asarray(s.neg).tolist()]
    nt = len(inp["ts"])
    inp["_evals"] = 2 * nt + 1

    def judge(outs):
        o1, o2 = outs
        iss = []
        if common.pints(o1["ms"]) != icms:
            iss.append(Issue("DISAGREE", "cm", f"model={o1['ms']} impl={icms}", "cm/cells"))
        if common.pfracs(o1["spos"]) != held_pos or common.pfracs(o1["sneg"]) != held_neg:
            iss.append(Issue("DISAGREE", "held-arrays", f"model pos={o1['spos']} impl pos={held_pos}", "cm/held"))
        for k, b in enumerate(common.plist(o1["spec.cells"])):
            if b != "1":
                iss.append(Issue("PROPFAIL", "cells", f"cm({inp['ts'][k]}) = {icms[4*k:4*k+4]} is not the count by the decision rule", "cm/cells"))
        for k, b in enumerate(common.plist(o1["spec.totals"])):
            if b != "1":
                iss.append(Issue("PROPFAIL", "totals", f"row sums at {inp['ts'][k]}: {icms[4*k:4*k+4]}", "cm/totals"))
        if common.pints(o2["ms"]) != ipw:
            iss.append(Issue("DISAGREE", "pointwise", f"model={o2['ms']} impl={ipw}", "pointwise/cells"))
        for k, b in enumerate(common.plist(o2["spec.pointwise"])):
            if b != "1":
                iss.append(Issue("PROPFAIL", "pointwise", f"pointwise sum at {inp['ts'][k]} = {ipw[4*k:4*k+4]}", "pointwise/cells"))
        return iss

    return Case(ID, inp, lines, judge, _tags(inp), 0, pre)


def shrink_candidates(inp):
    for key in ("pos", "neg", "ts"):
        xs = inp[key]
        for i in range(len(xs)):
            c = dict(inp)
            c[key] = xs[:i] + xs[i + 1:]
            if key == "ts":
                c["shape"] = [len(c["ts"])]
            yield c
    for key in ("ep", "en"):
        if inp[key] > 0:
            c = dict(inp)
            c[key] = 0
            yield c
    if inp["via"] != "ctor":
        c = dict(inp); c["via"] = "ctor"; yield c
    if inp["sorted"]:
        c = dict(inp); c["sorted"] = False; yield c
    for key in ("pos", "neg", "ts"):
        xs = inp[key]
        for i, x in enumerate(xs):
            if isinstance(x, float) and math.isfinite(x) and x != round(x):
                c = dict(inp); c[key] = xs[:i] + [float(round(x))] + xs[i + 1:]; yield c


# --------------------------------------------------------------------------------------
# second tie: the decision tables of this property regenerated from the source on every run
# (harness/dectables.py -> generated Lean file checked by the kernel; bridge: SA/Theorems/DecTables.lean)
# --------------------------------------------------------------------------------------
def extra_gate_start():
    """start the translator + Lean check in a child process; the cases run meanwhile"""
    import common
    import dectables
    return dectables.start(common.REPO)


def extra_gate_finish(handle):
    """-> {problems, theorems, obligations, discharged, notes, evidence}; a definite mismatch of a table row is a
    broken proof obligation, `unknown` rows are evidence only"""
    import dectables
    return dectables.gate_result(dectables.finish(handle), ID)
