"""C02 — threshold setting round-trips within one sample; its methods are coherent."""
import thr_common
from thr_common import shrink_thr as shrink_candidates  # noqa

ID = "C02"
LEVEL = "proof"
RULE = ("cases = Scores x configuration x metric x ascending target list (grid k/N of the scored and of the "
        "whole population, off-grid, boundary, outside [0,1]) x 3 methods x scalar/array x aliases; exact "
        "stream = all float operations exact so lower/higher are compared bit for bit at grid targets; "
        "non-trivial = distinct input with ties or easy samples or a grid target or a non-default configuration")
EXPLANATION = ("Theorems in SA/Theorems/C02.lean prove the bracket/round-trip/coherence clauses for the model "
               "(see obligations in this file; clauses not yet proved are listed under statements_not_proved and "
               "are evaluated on every case). The correspondence run compares the model's thresholds with "
               "threshold_at_* (linear: tolerant AND within 4 x the bound of thresholdAt_fl_error / thresholdAt_fl_error_lip, "
               "SA/Theorems/FloatBounds.lean, evaluated by the driver op flbound with u = 2^-53; lower/higher: exact away from "
               "float-rounding discontinuities) "
               "and evaluates the Lean spec predicates on the implementation's own matrices at, just below and "
               "just above its returned thresholds.")
TRUSTED_BASE = ["Lean 4.33 kernel", "axioms propext/Classical.choice/Quot.sound only",
                "hand-written model SA/Model/Threshold.lean tied to /repo by this correspondence run",
                "np.nextafter as an oracle", "harness and driver parsing; tolerance table of DESIGN 4.2",
                "IEEE 754 double arithmetic satisfies the standard model |fl x - x| <= 2^-53 |x| (no underflow / overflow: inputs "
                "checked to lie in [2^-200, 2^200])"]
ASSUMPTIONS = ["finite float scores of moderate magnitude",
               "float rounding of the linear path is bounded by theorems under the standard model of floating-point arithmetic "
               "(operation order of the pinned code); the comparison allows 4 x the bound so that algebraically equivalent "
               "rewrites of the formulas are not reported"]
CLAUSES = ["bracket", "tiefree", "member", "order", "between", "convex", "monotone"]


def n_cases(tier):
    return 1400 if tier == "quick" else 40000 + len(thr_common.EXH_THR)


def gen_one(rng, i, tier):
    if tier == "thorough" and i < len(thr_common.EXH_THR):
        return thr_common.exhaustive_thr_input(i)
    return thr_common.gen_thr_input(rng, i)


def nontrivial(inp):
    if inp.get("big"):
        return True
    return (inp["ep"] > 0 or inp["en"] > 0 or (inp["sc"], inp["ec"]) != ("pos", "pos")
            or len(set(inp["pos"])) < len(inp["pos"]) or len(set(inp["neg"])) < len(inp["neg"])
            or bool(set(inp["pos"]) & set(inp["neg"])))


def build(inp):
    return thr_common.build_thr(ID, inp, CLAUSES)


# --------------------------------------------------------------------------------------
# second tie: the decision tables of this property regenerated from the source on every run
# (harness/dectables.py -> generated Lean file checked by the kernel; bridge: SA/Theorems/DecTables.lean)
# --------------------------------------------------------------------------------------
def extra_gate_start():
    """start the translator + Lean check in a child process; the cases run meanwhile"""
    import common
    import dectables
    return dectables.start(common.REPO)


def extra_gate_finish(handle):
    """-> {problems, theorems, obligations, discharged, notes, evidence}; a definite mismatch of a table row is a
    broken proof obligation, `unknown` rows are evidence only"""
    import dectables
    return dectables.gate_result(dectables.finish(handle), ID)
