"""C03 — extreme operating points are honoured exactly."""
import gen
import thr_common
from thr_common import shrink_thr as shrink_candidates  # noqa

ID = "C03"
LEVEL = "proof"
RULE = ("cases = Scores x configuration x metric x boundary-heavy target list (<=0, 0, 1, >=1, one ulp "
        "outside, plus interior) x 3 methods x scalar/array calls x aliases; non-trivial = distinct input "
        "with easy samples or ties or a non-default configuration or a single-element class")
EXPLANATION = ("Theorems C03_* prove for all inputs that the model's threshold at a target <=0 / >=1 gives "
               "exactly the lowest / highest achievable count for all 6 metrics, 4 configurations, easy counts "
               "and methods, for any nextafter oracle with down x < x < up x. The correspondence run compares "
               "model and implementation thresholds and evaluates the Lean predicate C03.extremeOK on the "
               "implementation's own confusion matrices at its returned thresholds (exact integers).")
TRUSTED_BASE = ["Lean 4.33 kernel", "axioms propext/Classical.choice/Quot.sound only",
                "hand-written model SA/Model/Threshold.lean tied to /repo by this correspondence run",
                "np.nextafter modelled by an oracle (driver: exact float64 neighbour on rationals, cross-checked)",
                "harness and driver parsing"]
ASSUMPTIONS = ["finite float scores; targets are floats (incl. one ulp outside [0,1])",
               "float rounding in the rescaling of interior targets is outside the proof (exact rationals)"]


def n_cases(tier):
    return 1400 if tier == "quick" else 40000 + len(thr_common.EXH_THR)


def gen_one(rng, i, tier):
    if tier == "thorough" and i < len(thr_common.EXH_THR):
        return thr_common.exhaustive_thr_input(i)
    if i % 40 == 17:
        # an extreme score at the very end of the float range (the usual "could not process" placeholder): the only
        # threshold beyond it is +-inf, and that is what an extreme target must get
        import sys
        fmax = sys.float_info.max
        pos, neg = gen.score_sets(rng, "generic", nmin=1, nmax=8, allow_empty=False)
        which = rng.choice(["pos-hi", "pos-lo", "neg-hi", "neg-lo", "both"])
        if which in ("pos-hi", "both"):
            pos = pos + [fmax]
        if which == "pos-lo":
            pos = pos + [-fmax]
        if which == "neg-hi":
            neg = neg + [fmax]
        if which in ("neg-lo", "both"):
            neg = neg + [-fmax]
        sc, ec = rng.choice(gen.CFGS)
        return {"fmax": True, "stream": "generic", "pos": pos, "neg": neg, "ep": rng.choice([0, 0, 3]), "en": rng.choice([0, 0, 2]),
                "sc": sc, "ec": ec, "metric": rng.choice(gen.METRICS), "rs": [0.0, 1.0, -0.5, 1.5]}
    return thr_common.gen_thr_input(rng, i, boundary_heavy=True)


def nontrivial(inp):
    if inp.get("big") or inp.get("fmax"):
        return True
    return (inp["ep"] > 0 or inp["en"] > 0 or (inp["sc"], inp["ec"]) != ("pos", "pos")
            or len(set(inp["pos"])) < len(inp["pos"]) or len(set(inp["neg"])) < len(inp["neg"])
            or len(inp["pos"]) == 1 or len(inp["neg"]) == 1)


def _build_fmax(inp):
    """scores at +-float max: judged on the implementation alone - the metric at the returned threshold must be the
    smallest / largest value the metric takes over ALL thresholds (every score, its float neighbours, +-inf)"""
    import math
    import numpy as np
    from score_analysis import Scores
    import common
    from common import Case, Issue

    inp = dict(inp)
    pos, neg = [float(common.unjson_num(x)) for x in inp["pos"]], [float(common.unjson_num(x)) for x in inp["neg"]]
    s = Scores(pos, neg, nb_easy_pos=inp["ep"], nb_easy_neg=inp["en"], score_class=inp["sc"], equal_class=inp["ec"])
    metric = inp["metric"]
    grid = sorted(set(pos + neg))
    with np.errstate(all="ignore"):
        grid = np.array([-math.inf, math.inf] + grid + [float(np.nextafter(x, math.inf)) for x in grid]
                        + [float(np.nextafter(x, -math.inf)) for x in grid])
        vals = np.asarray(getattr(s, metric)(grid), dtype=float)
    lo, hi = float(np.nanmin(vals)), float(np.nanmax(vals))
    pre = []
    for r in inp["rs"]:
        for meth in gen.METHODS:
            with np.errstate(all="ignore"):
                t = common.call(getattr(s, "threshold_at_" + metric), r, method=meth)
                if t[0] == "exc":
                    pre.append(Issue("PROPFAIL", "raises", f"threshold_at_{metric}({r}, {meth}) raised {t[1]}: {t[2]}", f"thr/{metric}/raises"))
                    continue
                v = float(getattr(s, metric)(t[1]))
            want = lo if r <= 0 else hi
            if v != want:
                pre.append(Issue("PROPFAIL", "extreme", f"Scores(pos={pos}, neg={neg}, ep={inp['ep']}, en={inp['en']}, {inp['sc']}/{inp['ec']})"
                                 f".threshold_at_{metric}({r}, {meth}) = {t[1]}: {metric} there is {v}, the "
                                 f"{'lowest' if r <= 0 else 'highest'} achievable value is {want}", f"thr/{metric}/extreme-fmax"))
                break
    inp["_evals"] = 12
    return Case(ID, inp, [], lambda outs: [], ("float-max-score", f"metric={metric}"), 0, pre)


def build(inp):
    if inp.get("fmax"):
        return _build_fmax(inp)
    return thr_common.build_thr(ID, inp, ["extreme"])


# --------------------------------------------------------------------------------------
# second tie: the decision tables of this property regenerated from the source on every run
# (harness/dectables.py -> generated Lean file checked by the kernel; bridge: SA/Theorems/DecTables.lean)
# --------------------------------------------------------------------------------------
def extra_gate_start():
    """start the translator + Lean check in a child process; the cases run meanwhile"""
    import common
    import dectables
    return dectables.start(common.REPO)


def extra_gate_finish(handle):
    """-> {problems, theorems, obligations, discharged, notes, evidence}; a definite mismatch of a table row is a
    broken proof obligation, `unknown` rows are evidence only"""
    import dectables
    return dectables.gate_result(dectables.finish(handle), ID)
