"""C03 — extreme operating points are honoured exactly."""
import thr_common
from thr_common import shrink_thr as shrink_candidates  # noqa

ID = "C03"
LEVEL = "proof"
RULE = ("cases = Scores x configuration x metric x boundary-heavy target list (<=0, 0, 1, >=1, one ulp "
        "outside, plus interior) x 3 methods x scalar/array calls x aliases; non-trivial = distinct input "
        "with easy samples or ties or a non-default configuration or a single-element class")
EXPLANATION = ("Theorems C03_* prove for all inputs that the model's threshold at a target <=0 / >=1 gives "
               "exactly the lowest / highest achievable count for all 6 metrics, 4 configurations, easy counts "
               "and methods, for any nextafter oracle with down x < x < up x. The correspondence run compares "
               "model and implementation thresholds and evaluates the Lean predicate C03.extremeOK on the "
               "implementation's own confusion matrices at its returned thresholds (exact integers).")
TRUSTED_BASE = ["Lean 4.33 kernel", "axioms propext/Classical.choice/Quot.sound only",
                "hand-written model SA/Model/Threshold.lean tied to /repo by this correspondence run",
                "np.nextafter modelled by an oracle (driver: exact float64 neighbour on rationals, cross-checked)",
                "harness and driver parsing"]
ASSUMPTIONS = ["finite float scores; targets are floats (incl. one ulp outside [0,1])",
               "float rounding in the rescaling of interior targets is outside the proof (exact rationals)"]


def n_cases(tier):
    return 1400 if tier == "quick" else 40000 + len(thr_common.EXH_THR)


def gen_one(rng, i, tier):
    if tier == "thorough" and i < len(thr_common.EXH_THR):
        return thr_common.exhaustive_thr_input(i)
    return thr_common.gen_thr_input(rng, i, boundary_heavy=True)


def nontrivial(inp):
    if inp.get("big"):
        return True
    return (inp["ep"] > 0 or inp["en"] > 0 or (inp["sc"], inp["ec"]) != ("pos", "pos")
            or len(set(inp["pos"])) < len(inp["pos"]) or len(set(inp["neg"])) < len(inp["neg"])
            or len(inp["pos"]) == 1 or len(inp["neg"]) == 1)


def build(inp):
    return thr_common.build_thr(ID, inp, ["extreme"])
