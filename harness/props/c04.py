"""C04 — binary metrics obey their defining algebra, NaN rule and normal-approx CIs."""
from __future__ import annotations

import math
from fractions import Fraction

import numpy as np

import common
from common import Case, Issue, q, ql, line
from thr_common import U53, FLBOUND_SLACK, fl_in_range, fl_bucket

CI_KAPPA_BITS = 68  # the rational square roots handed to op `cibound` are accurate to 2^-70 (relative): kappa = 2^-68


def _rsqrt(v: Fraction, bits: int = 70) -> Fraction:
    """a rational within relative 2^-bits of sqrt(v), v > 0 (integer square root of a scaled numerator)"""
    a, b = v.numerator, v.denominator
    return Fraction(math.isqrt(a * b * 4 ** bits), b * 2 ** bits)

ID = "C04"
LEVEL = "proof"
RULE = ("cases = stacks of 2x2 matrices (integer and float cells, leading shapes () .. (2,3), (0,), zero rows / "
        "columns / matrices) x two alphas; every matrix is sent to the model; non-trivial = distinct matrix with a "
        "zero denominator somewhere, or float cells, or leading dimensions")
EXPLANATION = ("Theorems C04_* prove the identities, [0,1] range, NaN locus, definitions and the CI centre/half-width/"
               "mirror/nesting for all rational matrices and any sqrt / z oracles. The correspondence run evaluates "
               "score_analysis.metrics.* and ConfusionMatrix(binary=True) methods (+aliases) on the same matrices, "
               "compares them with the model's rates and evaluates the Lean spec predicates on the observed values; "
               "z is the value returned by the real scipy.stats.norm.isf call (recorded); half-widths are compared squared. "
               "Second tie, for the DEFINITIONS: harness/metricdefs.py translates the current metrics.py / cm.py (Python ast) into "
               "the expression IR of SA/Model/MetricExpr.lean; the generated theorem generated_c04_defs_ok (kernel-checked on every "
               "run) lists the functions whose normal form num/den equals the model's, and SA.MetricExpr.checkAll_covered_sound "
               "makes each of them the model's metric on EVERY rational matrix (coverage.generated_definitions). Third tie, for "
               "utils.binomial_ci itself: harness/cidefs.py translates its current body into the IR of SA/Model/CIDefs.lean (count, nobs, "
               "z = isf(a*alpha+b), uninterpreted sqrt, NaN guards); generated_c04_ci_ok states the checker's verdict and "
               "SA.CIDefs.ci_bridge makes an accepted row SA.binomialCI on every input (coverage.generated_definitions.binomial_ci).")
TRUSTED_BASE = ["Lean 4.33 kernel", "axioms propext/Classical.choice/Quot.sound only",
                "hand-written model SA/Model/Metrics.lean tied to /repo by this correspondence run",
                "harness/metricdefs.py (translation Python ast -> expression IR: indexing, np.sum axes, np.divide(where=), np.where, "
                "helper inlining, decorator pass-through check); values only - dtypes, warnings, leading axes, result types are the "
                "business of the sampled runs",
                "harness/cidefs.py (translation of utils.binomial_ci: NaN buffers, np.divide(out=, where=), np.where, np.sqrt, the "
                "affine argument of norm.isf, np.stack); values only",
                "scipy.stats.norm.isf and np.sqrt as oracles (isf antitone is a hypothesis of C04_ci_nested)",
                "harness and driver parsing; tolerance 1e-9 on float-valued quantities"]
ASSUMPTIONS = ["non-negative finite cells", "float sums of float-valued cells compared with tolerance",
               "float rounding of the normal-approximation intervals: within FLBOUND_SLACK x ciEps (SA.ci_fl_error: standard model "
               "|fl x - x| <= u|x|, u = 2^-53, one rounding per class total / quotient / 1-p / product / division / z*std / "
               "p-+dist, np.sqrt an oracle rounded once) wherever the theorem's guard holds (0 < count < nobs, cells in "
               "[2^-200, 2^200]); within 1e-9 everywhere"]

RATE_NAMES = ["tpr", "fnr", "tnr", "fpr", "ppv", "fdr", "npv", "for_", "topr", "tonr", "accuracy", "error_rate"]
COUNT_NAMES = ["p", "n", "top", "ton", "pop"]
ALIAS = {"tar": "tpr", "frr": "fnr", "trr": "tnr", "far": "fpr", "acceptance_rate": "topr",
         "rejection_rate": "tonr"}
CI_NAMES = ["tpr_ci", "tnr_ci", "fpr_ci", "fnr_ci"]
CI_ALIAS = {"tar_ci": "tpr_ci", "trr_ci": "tnr_ci", "far_ci": "fpr_ci", "frr_ci": "fnr_ci"}


SEPARATING_PRIMES = [2, 3, 5, 7, 11, 13, 17, 19, 23, 29, 31, 37, 41, 43, 47, 53]


def n_cases(tier):
    return 4000 if tier == "quick" else 32000


# --------------------------------------------------------------------------------------
# second tie for the definitions: regenerated from the source on every run (harness/metricdefs.py -> generated Lean
# file, normal forms compared with the model's table by the kernel; soundness: SA/Theorems/C04Defs.lean)
# --------------------------------------------------------------------------------------
def extra_gate_start():
    """start the translator + Lean check in a child process; the sampled matrices run meanwhile"""
    import metricdefs
    import cidefs
    return metricdefs.start(common.REPO), cidefs.start(common.REPO)


def extra_gate_finish(handle):
    """-> {problems, theorems, obligations, discharged, notes, evidence, evidence_key}; a definite mismatch (a translated
    definition and the model differ on a named witness matrix) is a broken proof obligation (run.py then searches the
    generated cases for a failing input: the separating matrices of `gen_matrix` provide one), unknowns are evidence only"""
    import metricdefs
    import cidefs
    gate = metricdefs.gate_result(metricdefs.finish(handle[0]))
    # third tie: utils.binomial_ci itself regenerated from the source (harness/cidefs.py; SA/Theorems/C04CIDefs.lean); its result
    # goes into the same evidence slot under `binomial_ci`
    return cidefs.merge_into(gate, cidefs.finish(handle[1]))


def gen_matrix(rng, kind):
    if kind == "int":
        m = [rng.choice([0, 0, 1, 2, 3, 5, 10, 100, rng.randint(0, 1000)]) for _ in range(4)]
        r0 = rng.random()
        if r0 < 0.2:  # large populations (products of counts beyond 2**63)
            m = [rng.choice([0, 1, 10**6, 3 * 10**6, 10**7, 2 * 10**9, rng.randint(0, 10**10)]) for _ in range(4)]
        elif r0 < 0.35:
            # four DISTINCT primes in random order, each cell zeroed independently with probability 1/4: two different
            # quotients of small-integer linear forms in (tp, fn, fp, tn) - a swapped cell, a wrong denominator, a guard on
            # another quantity - take different values on such a matrix, so a wrong DEFINITION reported by the generated
            # definitions gate (harness/metricdefs.py) is also met with a concrete failing input here
            m = [x if rng.random() >= 0.25 else 0 for x in rng.sample(SEPARATING_PRIMES, 4)]
    elif kind == "dyadic":
        m = [rng.choice([0, 0.5, 1.5, 2.25, 8.0, rng.randint(0, 64) / 8.0]) for _ in range(4)]
    else:
        m = [rng.choice([0.0, rng.random(), rng.uniform(0, 100)]) for _ in range(4)]
    r = rng.random()
    if r < 0.1:
        m[0] = m[1] = 0
    elif r < 0.2:
        m[2] = m[3] = 0
    elif r < 0.3:
        m[0] = m[2] = 0
    elif r < 0.4:
        m[1] = m[3] = 0
    elif r < 0.45:
        m = [0, 0, 0, 0]
    return m


def gen_one(rng, i, tier):
    kind = rng.choice(["int", "int", "dyadic", "float"])
    shape = rng.choice([[], [], [1], [3], [2, 3], [0], [2, 1], [2, 2], [3, 3], [2, 1, 2]])
    nmat = 1
    for d in shape:
        nmat *= d
    mats = [gen_matrix(rng, kind) for _ in range(nmat)]
    if kind != "int" and rng.random() < 0.3:
        # weighted confusion matrices on a tiny (or huge) scale, e.g. built from importance weights ~1e-9: every rate,
        # the NaN rule and the intervals' centres are scale-free, nothing may depend on an absolute magnitude
        # (power-of-two factors: the scaling itself is exact)
        k_ = rng.choice([2.0 ** -30, 2.0 ** -40, 2.0 ** -60, 2.0 ** -27, 2.0 ** 40])
        mats = [[x * k_ for x in m] for m in mats]
    # alpha in (0,1): the usual levels, and levels so small that 1 - alpha/2 is not representable (isf vs ppf(1 - .))
    a1 = rng.choice([0.01, 0.05, 0.1, rng.uniform(0.001, 0.5), 10.0 ** (-rng.uniform(3, 25))])
    a2 = rng.choice([0.2, 0.5, 0.9, rng.uniform(a1, 0.999), 1 - 10.0 ** (-rng.uniform(3, 12))])
    return {"kind": kind, "shape": shape, "mats": mats, "alpha1": a1, "alpha2": max(a1, a2),
            "via": rng.choice(["functions", "class"]), "alpha_kw": rng.random() < 0.5,
            # the caller's ambient NumPy error state: a rate with a zero denominator is NaN by a MASKED division, which
            # never evaluates 0/0 and therefore cannot raise whatever np.seterr says
            "errstate": rng.random() < 0.25,
            # integer matrices held in a small dtype (uint8 / int16 / int32 tallies): cells fit, row and column sums need not
            "narrow": rng.choice(["u1", "u1", "i2", "i4", "u2"]) if (kind == "int" and rng.random() < 0.25) else None,
            # one ConfusionMatrix object over time (in-place update of its public matrix, returned arrays modified)
            "history": rng.random() < 0.2}


def nontrivial(inp):
    def zero_den(m):
        tp, fn, fp, tn = m
        return 0 in (tp + fn, fp + tn, tp + fp, fn + tn)
    return inp["kind"] != "int" or len(inp["shape"]) > 0 or any(zero_den(m) for m in inp["mats"])


def _orat(x):
    return "nan" if (isinstance(x, float) and math.isnan(x)) else q(x)


def build(inp) -> Case:
    import scipy.stats
    from score_analysis import ConfusionMatrix, metrics

    inp = dict(inp)
    shape = list(inp["shape"])
    dt = int if inp["kind"] == "int" else float
    if inp.get("narrow") and inp["kind"] == "int":
        top_ = {"u1": 255, "i2": 32767, "u2": 65535, "i4": 2 ** 31 - 1}[inp["narrow"]]
        biggest = max([abs(x) for m in inp["mats"] for x in m] + [1])
        # rescaled into the dtype's range (largest cell near its top): the rates are those of the rescaled matrix, which
        # is what the model is given
        k_ = max(1, top_ // biggest) if biggest <= top_ else 0
        if k_ >= 1:
            inp["mats"] = [[int(x) * k_ for x in m] for m in inp["mats"]]
            dt = {"u1": np.uint8, "i2": np.int16, "u2": np.uint16, "i4": np.int32}[inp["narrow"]]
    arr = np.array(inp["mats"], dtype=dt).reshape(shape + [2, 2])
    before = arr.copy()
    pre = []
    cmobj = ConfusionMatrix(matrix=arr, binary=True)

    def get0(name, *a):
        kw = {}
        if a and inp.get("alpha_kw"):  # alpha by keyword (the ConfusionMatrix wrappers forward **kwargs)
            a, kw = (), {"alpha": a[0]}
        if inp["via"] == "class":
            return getattr(cmobj, name)(*a, **kw)
        return getattr(metrics, name)(arr, *a, **kw)

    def get(name, *a):
        if inp.get("errstate"):
            with np.errstate(all="raise"):
                return get0(name, *a)
        return get0(name, *a)

    obs = {}
    for name in RATE_NAMES + COUNT_NAMES:
        r = common.call(get, name)
        if r[0] == "exc":
            pre.append(Issue("PROPFAIL", "raises", f"{name} raised {r[1]}: {r[2]}", f"metrics/raises/{name}"))
            obs[name] = np.full(shape, np.nan)
            continue
        v = r[1]
        if shape == [] and name in RATE_NAMES and isinstance(v, np.ndarray):
            pre.append(Issue("PROPFAIL", "scalar", f"{name} on a single matrix returned an array", f"metrics/scalar/{name}"))
        v = np.asarray(v)
        if list(v.shape) != shape:
            pre.append(Issue("PROPFAIL", "shape", f"{name} shape {v.shape} for leading shape {shape}", f"metrics/shape/{name}"))
            v = np.full(shape, np.nan)
        obs[name] = v
    for al, name in ALIAS.items():
        r = common.call(get, al)
        if r[0] == "exc" or not np.array_equal(np.asarray(r[1]), obs[name], equal_nan=True):
            pre.append(Issue("PROPFAIL", "alias", f"{al} differs from {name}", f"metrics/alias/{al}"))
    # class and function forms agree
    other = metrics if inp["via"] == "class" else cmobj
    for name in ["tpr", "fpr", "ppv", "accuracy"]:
        r = common.call(lambda: getattr(other, name)(arr) if other is metrics else getattr(other, name)())
        if r[0] == "exc" or not np.array_equal(np.asarray(r[1]), obs[name], equal_nan=True):
            pre.append(Issue("PROPFAIL", "class-vs-function", f"{name} differs between ConfusionMatrix and metrics", f"metrics/classfn/{name}"))
    cis = {}
    zs = {}
    for key, alpha in (("1", inp["alpha1"]), ("2", inp["alpha2"])):
        for name in CI_NAMES:
            with common.Recorder(scipy.stats.norm, "isf") as rec:
                r = common.call(get, name, alpha)
            if r[0] == "exc":
                pre.append(Issue("PROPFAIL", "raises", f"{name} raised {r[1]}: {r[2]}", f"metrics/raises/{name}"))
                cis[(key, name)] = np.full(shape + [2], np.nan)
                continue
            v = np.asarray(r[1])
            if list(v.shape) != shape + [2]:
                pre.append(Issue("PROPFAIL", "shape", f"{name} shape {v.shape}", f"metrics/shape/{name}"))
                v = np.full(shape + [2], np.nan)
            cis[(key, name)] = v
            if rec.calls:
                a0 = rec.calls[-1][0][0] if rec.calls[-1][0] else None
                if a0 is None or abs(float(np.asarray(a0)) - alpha / 2.0) > 1e-15:
                    pre.append(Issue("PROPFAIL", "ci-level", f"{name}(alpha={alpha}) asked norm.isf for {a0}, not alpha/2", "metrics/ci/level"))
        # the documented level: z(alpha/2) of the standard normal (scipy is the oracle for its value)
        zs[key] = float(scipy.stats.norm.isf(alpha / 2.0))
    for al, name in CI_ALIAS.items():
        r = common.call(get, al, inp["alpha1"])
        if r[0] == "exc" or not np.array_equal(np.asarray(r[1]), cis[("1", name)], equal_nan=True):
            pre.append(Issue("PROPFAIL", "alias", f"{al} differs from {name}", f"metrics/alias/{al}"))
    if not np.array_equal(arr, before):
        pre.append(Issue("PROPFAIL", "mutation", "input matrix mutated", "metrics/mutation"))
    if inp.get("history") and arr.size:
        # a private object: metrics read, a returned array scaled in place, the matrix updated in place
        # (`cm.matrix += batch`), metrics read again - they must describe the matrix the object holds NOW
        own = ConfusionMatrix(matrix=np.array(arr, copy=True), binary=True)
        names = ["tpr", "fnr", "tnr", "ppv", "tp", "pop"]
        first = {nm: common.call(getattr(own, nm)) for nm in names}
        for nm in ("tpr", "tp"):
            r_ = first[nm]
            if r_[0] == "ok" and isinstance(r_[1], np.ndarray) and r_[1].flags.writeable and r_[1].size:
                try:
                    r_[1][...] = 7
                except Exception:
                    pass
        batch = (np.arange(arr.size).reshape(arr.shape) % 3).astype(arr.dtype)
        try:
            own.matrix += batch
            fresh = ConfusionMatrix(matrix=np.array(own.matrix, copy=True), binary=True)
            for nm in names:
                a_, b_ = common.call(getattr(own, nm)), common.call(getattr(fresh, nm))
                same_ = a_[0] == b_[0] and (a_[0] == "exc" or np.array_equal(np.asarray(a_[1]), np.asarray(b_[1]), equal_nan=True))
                if not same_:
                    pre.append(Issue("PROPFAIL", "definitions", f"after `cm.matrix += batch` on an object whose metrics had been read "
                                     f"(and whose returned arrays were modified by the caller), {nm}() = "
                                     f"{np.asarray(a_[1]).tolist() if a_[0] == 'ok' else a_[1:]} but a fresh object holding the same "
                                     f"matrix {np.asarray(own.matrix).reshape(-1).tolist()[:12]} gives "
                                     f"{np.asarray(b_[1]).tolist() if b_[0] == 'ok' else b_[1:]}", "metrics/history/in-place-update"))
                    break
        except Exception:
            pass
    eps = Fraction(0) if inp["kind"] in ("int",) else Fraction(1, 10**9)
    scale = max([1.0] + [abs(x) for m in inp["mats"] for x in m])
    epsd = eps * Fraction(scale) * 4
    lines, blines = [], []
    flat = before.reshape(-1, 2, 2)  # the matrices as the caller gave them (a mutated argument is reported above)
    nmat = flat.shape[0]
    for k in range(nmat):
        m = [flat[k][0, 0], flat[k][0, 1], flat[k][1, 0], flat[k][1, 1]]
        rates = [np.asarray(obs[nm]).reshape(-1)[k] for nm in RATE_NAMES]
        cnt = [np.asarray(obs[nm]).reshape(-1)[k] for nm in COUNT_NAMES]
        # float rates are correctly rounded quotients: allow 1e-12 even for integer cells
        lines.append(line("metrics", m=ql(m), eps=q(max(epsd, Fraction(1, 10**12))),
                          rates="[" + ",".join(_orat(float(x)) for x in rates) + "]", cnt=ql(cnt)))
        c1 = [x for nm in CI_NAMES for x in cis[("1", nm)].reshape(-1, 2)[k]]
        c2 = [x for nm in CI_NAMES for x in cis[("2", nm)].reshape(-1, 2)[k]]
        # the interval's half-width z*sqrt(p(1-p)/n) grows without bound for fractional class totals n << 1 (weighted
        # matrices): the tolerance follows the magnitude of the observed limits (the spec compares squared half-widths)
        hw = max([abs(float(x)) for x in c1 + c2 if math.isfinite(float(x))] + [1.0])
        lines.append(line("ci", m=ql(m), eps=q(Fraction(1, 10**9) * Fraction(max(1.0, hw)) ** 2), z1=q(zs["1"]), z2=q(zs["2"]),
                          ci1="[" + ",".join(_orat(float(x)) for x in c1) + "]",
                          ci2="[" + ",".join(_orat(float(x)) for x in c2) + "]"))
        # third line per matrix: the theorem-derived bound for the eight interval limits (op `cibound`); the square roots of
        # the four exact radicands p(1-p)/n are supplied as rationals accurate to 2^-70 and checked by the driver
        fm = [Fraction(x) for x in (float(y) if not isinstance(y, (int, np.integer)) else int(y) for y in m)]
        sig = []
        for c_, n_ in ((fm[0], fm[0] + fm[1]), (fm[3], fm[2] + fm[3]), (fm[2], fm[2] + fm[3]), (fm[1], fm[0] + fm[1])):
            v_ = (c_ / n_) * (1 - c_ / n_) / n_ if n_ != 0 else Fraction(0)
            sig.append(_rsqrt(v_) if v_ > 0 else Fraction(0))
        blines.append(line("cibound", m=ql(m), z1=q(zs["1"]), z2=q(zs["2"]), u=q(U53), kap=q(Fraction(1, 2 ** CI_KAPPA_BITS)),
                           sig=ql(sig)))
    inp["_evals"] = max(1, nmat) * (len(RATE_NAMES) + len(COUNT_NAMES) + 8)
    tags = [inp["kind"] + ("/" + str(arr.dtype) if inp.get("narrow") else ""), f"ndim={len(shape)}", inp["via"]] + (["errstate=raise"] if inp.get("errstate") else []) + (
        ["history"] if inp.get("history") else [])
    if nmat == 0:
        tags.append("empty-stack")
    if inp["kind"] == "int" and any(len({x for x in m if x}) >= 3 and all(x in SEPARATING_PRIMES for x in m if x) for m in inp["mats"]):
        tags.append("separating-primes")
    if any(0 in (m[0] + m[1], m[2] + m[3], m[0] + m[2], m[1] + m[3]) for m in inp["mats"]):
        tags.append("zero-denominator")

    def judge(outs):
        iss = []
        # --- float-bound: the eight limits of every matrix against the exact model's p -+ z sigma, bound ciEps (SA.ci_fl_error)
        worst, nchk = None, 0
        for k in range(nmat):
            o3 = outs[2 * nmat + k]
            cells_ = [float(x) for x in flat[k].reshape(-1)]
            if "err" in o3 or not fl_in_range(cells_) or not fl_in_range([zs["1"], zs["2"]]):
                continue
            f_ok = common.plist(o3["ok"])
            for j, nm in enumerate(CI_NAMES):
                if f_ok[j] != "1":
                    continue  # zero class total, p in {0, 1} (no positive sigma) or a divisor too close to 0
                for key in ("1", "2"):
                    lo, hi = [float(x) for x in cis[(key, nm)].reshape(-1, 2)[k]]
                    for side, got in (("lo", lo), ("hi", hi)):
                        if math.isnan(got) or math.isinf(got):
                            iss.append(Issue("DISAGREE", "float-bound", f"{nm}({inp['mats'][k]}) {side}={got} where the model's "
                                             f"limit is finite", f"metrics/{nm}/float-bound"))
                            continue
                        want = common.pfracs(o3[side + key])[j]
                        bound = common.pfracs(o3["e" + side + key])[j]
                        d = abs(Fraction(got) - want)
                        ratio = d / bound if bound > 0 else (Fraction(0) if d == 0 else Fraction(10**6))
                        worst = ratio if worst is None or ratio > worst else worst
                        nchk += 1
                        if d > FLBOUND_SLACK * bound:
                            iss.append(Issue("DISAGREE", "float-bound", f"{nm}({inp['mats'][k]}, alpha={inp['alpha' + key]}) {side} "
                                             f"impl={got} model={float(want)} differ by {float(d):.3e} > {FLBOUND_SLACK} x "
                                             f"{float(bound):.3e} (theorem bound ciEps; ratio {float(ratio):.2f})",
                                             f"metrics/{nm}/float-bound"))
        case.tags = case.tags + ("float-bound ratio " + fl_bucket(worst),)
        case.flratio, case.flchecked = worst, nchk
        for k in range(nmat):
            o1, o2 = outs[2 * k], outs[2 * k + 1]
            mr = common.pfracs(o1["rates"])
            for nm, mv in zip(RATE_NAMES, mr):
                iv = float(np.asarray(obs[nm]).reshape(-1)[k])
                if not common.close(iv, mv, rel=Fraction(1, 10**12), abs_=Fraction(1, 10**12)):
                    iss.append(Issue("DISAGREE", nm, f"{nm}({inp['mats'][k]}) impl={iv} model={mv}", f"metrics/{nm}"))
            for cl in ("counts", "complements", "range", "nan", "definitions"):
                if o1["spec." + cl] != "1":
                    iss.append(Issue("PROPFAIL", cl, f"matrix {inp['mats'][k]} observed rates "
                                     f"{[float(np.asarray(obs[nm]).reshape(-1)[k]) for nm in RATE_NAMES]}", f"metrics/{cl}"))
            parts = common.pfracs(o2["parts"])
            for j, nm in enumerate(CI_NAMES):
                p, v = parts[2 * j], parts[2 * j + 1]
                for key in ("1", "2"):
                    lo, hi = [float(x) for x in cis[(key, nm)].reshape(-1, 2)[k]]
                    if p is None:
                        ok = math.isnan(lo) and math.isnan(hi)
                    else:
                        d = zs[key] * math.sqrt(float(v)) if v >= 0 else math.nan
                        tol_ = 1e-9 * (1.0 + abs(d)) if not math.isnan(d) else 1e-9
                        ok = (not math.isnan(lo)) and abs(lo - (float(p) - d)) <= tol_ and abs(hi - (float(p) + d)) <= tol_
                    if not ok:
                        iss.append(Issue("DISAGREE", nm, f"{nm}({inp['mats'][k]}) impl=({lo},{hi}) model p={p} v={v} z={zs[key]}", f"metrics/{nm}"))
            for cl in ("ci", "mirror", "nested"):
                for b in common.plist(o2["spec." + cl]):
                    if b != "1":
                        iss.append(Issue("PROPFAIL", "ci-" + cl, f"matrix {inp['mats'][k]} alphas {inp['alpha1']},{inp['alpha2']} "
                                         f"ci1={[cis[('1', nm)].reshape(-1, 2)[k].tolist() for nm in CI_NAMES]}", f"metrics/ci/{cl}"))
                        break
        return iss

    case = Case(ID, inp, lines + blines, None, tuple(tags), 0, pre)
    case.judge = judge
    return case


def shrink_candidates(inp):
    if len(inp["mats"]) > 1:
        for i in range(len(inp["mats"])):
            c = dict(inp); c["mats"] = [inp["mats"][i]]; c["shape"] = []; yield c
    for i, m in enumerate(inp["mats"]):
        for j in range(4):
            if m[j] not in (0, 1):
                for v in (0, 1):
                    c = dict(inp); mm = [list(x) for x in inp["mats"]]; mm[i][j] = v; c["mats"] = mm; yield c
