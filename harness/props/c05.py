"""C05 — multi-class ConfusionMatrix: construction routes, reordering, one-vs-all, per-class metrics."""
from __future__ import annotations

import math
import random
from fractions import Fraction

import numpy as np

import common
from common import Case, Issue, q, ql, il, line
from thr_common import U53, FLBOUND_SLACK, fl_in_range, fl_bucket

ID = "C05"
LEVEL = "proof"
RULE = ("cases = label/prediction sequences (0..30 samples) over int or str class sets of size 2..5 in arbitrary order, "
        "weights none/int/dyadic/float, explicit or default classes, a reordered class list, the matrix routes (ndarray / "
        "nested lists, dict of dicts with shuffled key orders, DataFrame with independently shuffled rows and columns), a "
        "stack of N x N matrices with leading shape (), (2,), (2,3) or (0,), a class permutation, and one error scenario; "
        "non-trivial = at least one sample and (non-sorted class order or weights or a leading shape)")
EXPLANATION = ("Theorems C05_* prove for ALL class lists without duplicates, sample lists, rational weights, N x N rational "
               "matrices and class permutations that the model's accumulation loop yields the total weight per (label, "
               "prediction) pair in the requested order, that reordering / dict / DataFrame / array routes commute with "
               "it, that every one-vs-all 2x2 sums to the total with TP/P/TOP = diagonal/row sum/column sum, that "
               "per-class metrics and their as_dict form are permutation-equivariant, and accuracy = trace/population. "
               "The correspondence run builds real ConfusionMatrix objects by all four routes, compares matrices, classes, "
               "one_vs_all cells, 20 per-class metrics (+CIs, aliases, as_dict, shapes) with the model and evaluates the "
               "Lean spec predicates on the observed values; error branches are compared as exceptions. "
               "Second tie, for one_vs_all and the construction loop: harness/cmdefs.py translates the current cm.py (Python ast) "
               "into (k) the four one-vs-all cells as expressions over M[j,j], rowsum_j, colsum_j, total and (m) the loop of "
               "_assign_from_predictions as a row of data (SA/Model/CmDefs.lean); the generated theorems generated_c05_ova_ok / "
               "generated_c05_cons_ok (kernel-checked on every run) state the checker's verdicts, and SA.CmDefs.checkOva_ok_sound / "
               "ova_bridge / cons_bridge_entries make an accepted row the model's oneVsAll / fromPredictions on EVERY rational matrix "
               "of every size / every sample list (coverage.generated_definitions).")
TRUSTED_BASE = ["Lean 4.33 kernel", "axioms propext/Classical.choice/Quot.sound only",
                "hand-written model SA/Model/Multiclass.lean tied to /repo by this correspondence run",
                "hashable class labels mapped to Nat codes by the harness (order-preserving for default classes)",
                "harness/cmdefs.py (translation Python ast -> one-vs-all cells / construction row: `...` indexing, np.sum axes, "
                "np.diagonal, buffer writes and reads, np.stack, the zip order of the loop, the index map comprehension); values only - "
                "dtypes, leading axes beyond `...`, warnings, result types are the business of the sampled runs",
                "pandas .loc / numpy indexing by documented meaning; tolerance 1e-9 relative on float-weight sums, "
                "1e-12 on quotients; harness and driver parsing"]
ASSUMPTIONS = ["positive finite weights, non-negative finite matrix entries",
               "leading shape X handled member-wise; float sums compared with tolerance",
               "cells built from float weights (`matrix[i][j] += weight` in input order): within FLBOUND_SLACK x wsumEps = "
               "((k-1)u/(1-(k-1)u)) x sum|w| of the exact total for a cell with k samples (SA.C05_weighted_fl_error, standard model "
               "|fl x - x| <= u|x|, u = 2^-53, adding to a zero accumulator is exact); weights in [2^-200, 2^200]"]

COUNTS = ["tp", "fn", "fp", "tn", "p", "n", "top", "ton"]
RATES = ["tpr", "fnr", "tnr", "fpr", "ppv", "fdr", "npv", "for_", "topr", "tonr", "class_accuracy",
         "class_error_rate"]
CIS = ["tpr_ci", "tnr_ci", "fpr_ci", "fnr_ci"]
ALIAS = {"tar": "tpr", "frr": "fnr", "trr": "tnr", "far": "fpr", "acceptance_rate": "topr",
         "rejection_rate": "tonr", "tar_ci": "tpr_ci", "trr_ci": "tnr_ci", "far_ci": "fpr_ci",
         "frr_ci": "fnr_ci"}
ERRS = ["none", "dup", "few", "notin", "wlen", "dictkeys", "dictclasses", "framekeys", "framedup",
        "arraycount", "arraydup", "fewdefault"]
BAD = 999999
STR_POOL = ["a", "b", "c", "cat", "dog", "A", "Z", "x1", "x10", "x2", "zebra", "B"]


NARROW = {"u1": np.uint8, "i2": np.int16, "u2": np.uint16, "i4": np.int32}


def n_cases(tier):
    return 2000 if tier == "quick" else 16000


# --------------------------------------------------------------------------------------
# second tie: one_vs_all and the construction loop regenerated from the source on every run (harness/cmdefs.py ->
# generated Lean file, rows compared with the model's by the kernel; soundness: SA/Theorems/C05Defs.lean)
# --------------------------------------------------------------------------------------
def extra_gate_start():
    """start the translator + Lean check in a child process; the sampled cases run meanwhile"""
    import cmdefs
    return cmdefs.start(common.REPO)


def extra_gate_finish(handle):
    """-> {problems, theorems, obligations, discharged, notes, evidence, evidence_key}; a definite mismatch (a translated cell /
    the construction row differs from the model on a named witness input) is a broken proof obligation (run.py then searches
    the generated cases for a failing input: matrices of distinct primes and weighted repeated (label, prediction) pairs
    separate any two rows), unknowns are evidence only"""
    import cmdefs
    return cmdefs.gate_result(cmdefs.finish(handle))


SEPARATING_PRIMES = [2, 3, 5, 7, 11, 13, 17, 19, 23, 29, 31, 37, 41, 43, 47, 53, 59, 61, 67, 71, 73, 79, 83, 89, 97]


# --------------------------------------------------------------------------------------
# generation
# --------------------------------------------------------------------------------------
def gen_matrix(rng, n, kind):
    if kind == "int" and rng.random() < 0.15:
        # n*n DISTINCT primes in random order, each cell zeroed independently with probability 1/5: two different integer
        # combinations of M[j,j], rowsum_j, colsum_j, total (a swapped FN / FP cell, a TN that forgets the diagonal) take
        # different values on such a matrix, so a wrong one_vs_all cell reported by the generated gate (harness/cmdefs.py)
        # is also met with a concrete failing input here
        ps = rng.sample(SEPARATING_PRIMES, n * n)
        return [[(ps[a * n + b] if rng.random() >= 0.2 else 0) for b in range(n)] for a in range(n)]

    def cell():
        if kind == "int":
            return rng.choice([0, 0, 1, 2, 3, 7, 20, rng.randint(0, 100)])
        if kind == "dyadic":
            return rng.choice([0.0, 0.5, 1.25, 3.0, rng.randint(0, 256) / 8.0])
        return rng.choice([rng.uniform(0.01, 1.0), rng.uniform(0.5, 100.0)])  # strictly positive
    m = [[cell() for _ in range(n)] for _ in range(n)]
    if kind != "float":
        r = rng.random()
        j = rng.randrange(n)
        if r < 0.12:
            m[j] = [0] * n
        elif r < 0.24:
            for i in range(n):
                m[i][j] = 0
        elif r < 0.3:
            m = [[0] * n for _ in range(n)]
        elif r < 0.36:
            keep = rng.randrange(n)
            m = [[(m[a][b] if a == keep else 0) for b in range(n)] for a in range(n)]
    return m


def gen_one(rng, i, tier):
    ctype = rng.choice(["int", "int", "str"])
    n = rng.choice([2, 2, 3, 3, 4, 5])
    universe = rng.sample(range(-5, 30), n) if ctype == "int" else rng.sample(STR_POOL, n)
    mode = rng.choice(["explicit", "explicit", "default"])
    ns = rng.choice([0, 1, 3, 8, 8, 20, 30])
    labels, preds = [], []
    used = universe if rng.random() < 0.8 else universe[: max(1, n - 1)]
    for _ in range(ns):
        a = rng.choice(used)
        b = a if rng.random() < 0.55 else rng.choice(used)
        labels.append(a)
        preds.append(b)
    wkind = rng.choice(["none", "none", "int", "dyadic", "float", "int"])
    if wkind == "int" and rng.random() < 0.35:
        # exact integer weights beyond 2**53 (frequency counts of aggregated logs): a total routed through float64
        # is off by the last digits
        base_ = rng.choice([2 ** 53, 2 ** 53 - 3, 3 * 10 ** 15, 2 ** 57 + 1])
        weights = [base_ + rng.randint(0, 1000) if rng.random() < 0.6 else rng.randint(1, 5) for _ in range(ns)]
    elif wkind == "int":
        weights = [rng.randint(1, 5) for _ in range(ns)]
    elif wkind == "dyadic":
        weights = [rng.randint(1, 40) / 8.0 for _ in range(ns)]
        if rng.random() < 0.25:
            # tiny sample weights (importance weights ~1e-12): positive, so the population is not empty however small
            weights = [w * 2.0 ** -43 for w in weights]
    elif wkind == "float":
        weights = [rng.uniform(0.01, 10.0) for _ in range(ns)]
    else:
        weights = None
    shape = rng.choice([[], [], [], [2], [2, 3], [0]])
    skind = rng.choice(["int", "int", "dyadic", "float"])
    nmat = 1
    for d in shape:
        nmat *= d
    stack = [gen_matrix(rng, n, skind) for _ in range(nmat)]
    if skind == "dyadic" and rng.random() < 0.25:
        # a stack of matrices on a tiny scale (weighted counts ~1e-12, exact powers of two): "empty" means exactly zero
        k_ = rng.choice([2.0 ** -43, 2.0 ** -300])
        stack = [[[c * k_ for c in row] for row in m] for m in stack]
    extra = (max(universe) + 1 + rng.randrange(3)) if ctype == "int" else "q" + str(rng.randrange(9))
    return {"ctype": ctype, "universe": universe, "mode": mode, "labels": labels, "preds": preds,
            "wkind": wkind, "weights": weights, "shape": shape, "skind": skind, "stack": stack,
            "use_cm1": bool(rng.random() < 0.5), "stack_classes": rng.choice(["explicit", "none"]),
            "seed": rng.randrange(10**9), "err": rng.choice(ERRS), "extra": extra,
            "as_array": bool(rng.random() < 0.5),
            # counts held in a small integer dtype (uint8 images of counts, int16 / int32 tallies): every cell fits, row
            # sums, traces and totals need not
            "narrow": rng.choice(["u1", "u1", "i2", "i4", "u2"]) if rng.random() < 0.15 else None,
            # the stack is held by an instance of a user subclass with its own constructor signature
            "subclass": rng.random() < 0.15,
            # weights as a pandas Series whose index is not 0..n-1 in order (a column of a shuffled / filtered frame): weights
            # belong to samples by POSITION
            "wseries": weights is not None and rng.random() < 0.2}


def nontrivial(inp):
    return len(inp["labels"]) >= 1 and (inp["universe"] != sorted(inp["universe"]) or inp["weights"] is not None
                                        or len(inp["shape"]) > 0)


# --------------------------------------------------------------------------------------
# helpers
# --------------------------------------------------------------------------------------
def _norm(c):
    if isinstance(c, (int, np.integer)) and not isinstance(c, (bool, np.bool_)):
        return int(c)
    if isinstance(c, str):
        return str(c)
    return c


def _o(x):
    """one observed number as an Option Rat"""
    if isinstance(x, (int, np.integer)):
        return str(int(x))
    x = float(x)
    if math.isnan(x) or math.isinf(x):
        return "nan"
    return q(x)


def _rl(xs):
    """list of Rat; NaN (only present after a failure already reported) is sent as 0"""
    return "[" + ",".join("0" if _o(x) == "nan" else _o(x) for x in xs) + "]"


def _ol(xs):
    return "[" + ",".join(_o(x) for x in xs) + "]"


def _optl(xs, f):
    return "none" if xs is None else f(xs)


class _Ctx:
    def __init__(self, inp):
        self.inp = inp
        self.lines = []
        self.judges = []  # (start, count, fn(outs) -> issues)
        self.pre = []
        self.evals = 0
        self.flworst, self.flchecked = None, 0  # float-bound: largest observed/bound ratio, number of cells compared
        labs = set(inp["universe"]) | set(inp["labels"]) | set(inp["preds"]) | {inp["extra"]}
        self.cmap = {l: 10 + 7 * r for r, l in enumerate(sorted(labs))}

    def code(self, c):
        try:
            return self.cmap.get(_norm(c), BAD)
        except TypeError:
            return BAD

    def codes(self, cs):
        return [self.code(c) for c in cs]

    def add(self, lines, fn):
        self.judges.append((len(self.lines), len(lines), fn))
        self.lines += lines

    def fail(self, clause, detail, sig):
        self.pre.append(Issue("PROPFAIL", clause, detail, sig))


def _obs_cm(ctx, r, tag):
    """observed matrix (flattened, must be 2-D square) and classes of a construction result"""
    if r[0] != "ok":
        return "exc", [], []
    cm = r[1]
    mat = np.asarray(cm.matrix)
    if mat.ndim != 2 or mat.shape[0] != mat.shape[1]:
        ctx.fail("shape", f"{tag}: matrix shape {mat.shape}", f"cm/shape/{tag}")
        return "ok", [], list(cm.classes)
    return "ok", mat.reshape(-1).tolist(), list(cm.classes)


def _judge_cm(ctx, r, obs, tag, spec, eps, desc, flweights=None):
    """judge for a cmbuild / cmmatrix line: error branch, spec verdicts, model matrix and classes.
    `flweights` (the float weights): a second driver line (op `wsumbound`) follows; the model/implementation comparison of
    the cells then uses the theorem's per-cell bound wsumEps (SA.C05_weighted_fl_error) with FLBOUND_SLACK instead of `eps`"""
    def fn(outs):
        o = outs[0]
        iss = []
        merr = o.get("err", "none")
        if merr != "none":
            if r[0] == "ok":
                iss.append(Issue("DISAGREE", "error-branch", f"{tag}: model raises {merr}, implementation returned a matrix; {desc}",
                                 f"cm/{tag}/noerror/{merr}"))
            elif r[1] != merr:
                iss.append(Issue("DISAGREE", "error-type", f"{tag}: model raises {merr}, implementation {r[1]}: {r[2]}; {desc}",
                                 f"cm/{tag}/errtype/{merr}"))
            return iss
        if r[0] != "ok":
            iss.append(Issue("PROPFAIL", "raises", f"{tag}: valid input raised {r[1]}: {r[2]}; {desc}", f"cm/{tag}/raises"))
            return iss
        for cl in (spec, "classes", "shape"):
            if o.get("spec." + cl) != "1":
                iss.append(Issue("PROPFAIL", f"{tag}-{cl}", f"{tag}: observed matrix {obs[1]} classes {obs[2]}; {desc}",
                                 f"cm/{tag}/{cl}"))
        mm = common.pfracs(o["m"])
        o2 = outs[1] if flweights is not None and len(outs) > 1 else None
        if (o2 is not None and o2.get("err") == "none" and o2.get("ok") == "1" and len(mm) == len(obs[1])
                and fl_in_range(flweights) and len(common.pfracs(o2["eps"])) == len(mm)):
            # float-bound: every cell against the exact total, bound = wsumEps of the cell's own weights
            bounds = common.pfracs(o2["eps"])
            for c_, (a, b, bd) in enumerate(zip(obs[1], mm, bounds)):
                a_ = common.fr(a)
                if a_ is None or isinstance(a_, float):
                    iss.append(Issue("DISAGREE", f"{tag}-matrix", f"{tag}: cell {c_} impl {a} model {b}; {desc}", f"cm/{tag}/matrix"))
                    continue
                d = abs(a_ - b)
                ratio = d / bd if bd > 0 else (Fraction(0) if d == 0 else Fraction(10**6))
                ctx.flworst = ratio if ctx.flworst is None or ratio > ctx.flworst else ctx.flworst
                ctx.flchecked += 1
                if d > FLBOUND_SLACK * bd:
                    iss.append(Issue("DISAGREE", "float-bound", f"{tag}: cell {c_} impl {a} model {float(b)} differ by {float(d):.3e} > "
                                     f"{FLBOUND_SLACK} x {float(bd):.3e} (theorem bound wsumEps, {common.plist(o2['k'])[c_]} samples; ratio "
                                     f"{float(ratio):.2f}); {desc}", f"cm/{tag}/float-bound"))
        elif len(mm) != len(obs[1]) or any(not common.close(a, b, rel=eps, abs_=eps) for a, b in zip(obs[1], mm)):
            iss.append(Issue("DISAGREE", f"{tag}-matrix", f"{tag}: impl {obs[1]} model {[str(x) for x in mm]}; {desc}",
                             f"cm/{tag}/matrix"))
        return iss
    return fn


# --------------------------------------------------------------------------------------
# build
# --------------------------------------------------------------------------------------
def build(inp) -> Case:
    import pandas as pd
    from score_analysis import ConfusionMatrix, metrics

    inp = dict(inp)
    ctx = _Ctx(inp)
    prng = random.Random(inp["seed"])
    universe = list(inp["universe"])
    labels, preds, weights = list(inp["labels"]), list(inp["preds"]), inp["weights"]
    feps = Fraction(1, 10**9)
    zero = Fraction(0)

    def mk(labels_, preds_, weights_, classes_):
        la = np.asarray(labels_) if inp["as_array"] and len(labels_) else labels_
        pr = np.asarray(preds_) if inp["as_array"] and len(preds_) else preds_
        w = weights_
        if w is not None and inp["as_array"]:
            w = np.asarray(w)
        if w is not None and inp.get("narrow") and inp["wkind"] == "int" and len(w) and max(w) < 120:
            w = np.asarray(w, dtype=NARROW[inp["narrow"]])
        elif w is not None and inp.get("wseries") and len(w) and inp["wkind"] != "int":
            r_ = random.Random(inp["seed"])
            idx_ = list(range(len(w))) if r_.random() < 0.6 else list(range(3, 3 + 2 * len(w), 2))  # permuted / filtered frame
            r_.shuffle(idx_)
            w = pd.Series(np.asarray(w, dtype=float), index=idx_)
        return common.call(lambda: ConfusionMatrix(labels=la, predictions=pr, weights=w, classes=classes_))

    def build_line(labels_, preds_, weights_, classes_, r, obs, eps):
        return line("cmbuild", classes=_optl(classes_, lambda c: il(ctx.codes(c))), labels=il(ctx.codes(labels_)),
                    preds=il(ctx.codes(preds_)), weights=_optl(weights_, ql), eps=q(eps),
                    exc=("none" if r[0] == "ok" else r[1]), obs=ql(obs[1]), obsclasses=il(ctx.codes(obs[2])))

    # ---- A. labels / predictions / weights route --------------------------------------
    classes1 = universe if inp["mode"] == "explicit" else None
    eps1 = feps * (1 + Fraction(sum(weights))) if inp["wkind"] == "float" and weights else zero
    r1 = mk(labels, preds, weights, classes1)
    obs1 = _obs_cm(ctx, r1, "build")
    desc1 = f"classes={classes1} labels={labels} preds={preds} weights={weights}"
    flw = [float(w) for w in weights] if inp["wkind"] == "float" and weights else None

    def bound_line(labels_, preds_, weights_, classes_):
        """second line of a float-weight construction: the per-cell bound of SA.C05_weighted_fl_error (op `wsumbound`)"""
        return line("wsumbound", classes=_optl(classes_, lambda c: il(ctx.codes(c))), labels=il(ctx.codes(labels_)),
                    preds=il(ctx.codes(preds_)), weights=_optl(weights_, ql), u=q(U53))

    ctx.add([build_line(labels, preds, weights, classes1, r1, obs1, eps1)]
            + ([bound_line(labels, preds, weights, classes1)] if flw else []),
            _judge_cm(ctx, r1, obs1, "build", "entry", eps1, desc1, flweights=flw))
    ctx.evals += 1
    if r1[0] == "ok":
        cm1 = r1[1]
        want_dtype = int if inp["wkind"] in ("none", "int") else float
        if (weights is None or len(weights) > 0) and not np.issubdtype(np.asarray(cm1.matrix).dtype, np.integer if want_dtype is int else np.floating):
            ctx.fail("dtype", f"matrix dtype {np.asarray(cm1.matrix).dtype} for weights kind {inp['wkind']}", "cm/build/dtype")

    # effective classes of the first construction (model side knows them too)
    if classes1 is not None:
        eff = list(classes1)
    else:
        eff = sorted(set(labels) | set(preds))
    valid1 = len(eff) >= 2 and all(x in eff for x in labels + preds)

    # ---- B. the same samples with a reordered class list -------------------------------
    if valid1:
        classes2 = list(eff)
        prng.shuffle(classes2)
        r2 = mk(labels, preds, weights, classes2)
        obs2 = _obs_cm(ctx, r2, "rebuild")
        ctx.add([build_line(labels, preds, weights, classes2, r2, obs2, eps1)]
                + ([bound_line(labels, preds, weights, classes2)] if flw else []),
                _judge_cm(ctx, r2, obs2, "rebuild", "entry", eps1, f"classes={classes2} " + desc1, flweights=flw))
        if r1[0] == "ok" and r2[0] == "ok" and obs1[1] and obs2[1]:
            ln = line("bylabel", c1=il(ctx.codes(obs1[2])), m1=ql(obs1[1]), c2=il(ctx.codes(obs2[2])), m2=ql(obs2[1]),
                      eps=q(eps1))

            def jb(outs, obs1=obs1, obs2=obs2):
                if outs[0].get("spec.bylabel") != "1":
                    return [Issue("PROPFAIL", "reorder-bylabel", f"classes {obs1[2]} -> {obs1[1]} but classes {obs2[2]} -> "
                                  f"{obs2[1]} for labels={labels} preds={preds} weights={weights}", "cm/bylabel")]
                return []
            ctx.add([ln], jb)
        ctx.evals += 2
    else:
        classes2 = list(universe)
        prng.shuffle(classes2)

    # ---- C. matrix routes (array / nested lists, dict of dicts, DataFrame) --------------
    if r1[0] == "ok" and obs1[1] and valid1:
        base = np.asarray(r1[1].matrix)
        bcls = list(eff)
    else:
        base = np.array(gen_matrix(prng, len(universe), "int"))
        bcls = list(universe)
    nb = len(bcls)
    exact_base = base.tolist()
    req_opts = [None, list(bcls), classes2 if sorted(map(str, classes2)) == sorted(map(str, bcls)) else list(bcls)]

    def matrix_case(tag, route_kw, ctor, req, desc):
        r = common.call(ctor)
        obs = _obs_cm(ctx, r, tag)
        ln = line("cmmatrix", classes=_optl(req, lambda c: il(ctx.codes(c))), eps="0",
                  exc=("none" if r[0] == "ok" else r[1]), obs=ql(obs[1]), obsclasses=il(ctx.codes(obs[2])), **route_kw)
        ctx.add([ln], _judge_cm(ctx, r, obs, tag, "reorder", zero, desc))
        ctx.evals += 1
        return r

    def dict_kw(keys, rowkeys, rowvals):
        return dict(route="dict", keys=il(ctx.codes(keys)), lens=il([len(k) for k in rowkeys]),
                    ck=il([ctx.code(c) for rk in rowkeys for c in rk]), vals=ql([v for rv in rowvals for v in rv]))

    def frame_kw(rows, cols, data):
        return dict(route="frame", rows=il(ctx.codes(rows)), cols=il(ctx.codes(cols)), vals=ql([v for row in data for v in row]))

    # array route with explicit classes (the class labels are kept, nothing is reordered)
    req = list(bcls)
    arr_in = base if inp["as_array"] else exact_base
    matrix_case("array", dict(route="array", n=str(nb), vals=ql([v for row in exact_base for v in row])),
                lambda: ConfusionMatrix(matrix=arr_in, classes=req), req, f"matrix={exact_base} classes={req}")
    # dict of dicts, shuffled outer and inner key orders
    okeys = list(bcls)
    prng.shuffle(okeys)
    rowkeys, rowvals, dd = [], [], {}
    for rkey in okeys:
        ik = list(bcls)
        prng.shuffle(ik)
        rowkeys.append(ik)
        rowvals.append([exact_base[bcls.index(rkey)][bcls.index(c)] for c in ik])
        dd[rkey] = {c: exact_base[bcls.index(rkey)][bcls.index(c)] for c in ik}
    req_d = prng.choice(req_opts)
    matrix_case("dict", dict_kw(okeys, rowkeys, rowvals), lambda: ConfusionMatrix(matrix=dd, classes=req_d), req_d,
                f"matrix={dd} classes={req_d}")
    # DataFrame with independently shuffled rows and columns
    rws, cls_ = list(bcls), list(bcls)
    prng.shuffle(rws)
    prng.shuffle(cls_)
    data = [[exact_base[bcls.index(a)][bcls.index(b)] for b in cls_] for a in rws]
    df = pd.DataFrame(data, index=rws, columns=cls_)
    req_f = prng.choice(req_opts)
    matrix_case("frame", frame_kw(rws, cls_, data), lambda: ConfusionMatrix(matrix=df, classes=req_f), req_f,
                f"DataFrame index={rws} columns={cls_} values={data} classes={req_f}")

    # ---- D. one-vs-all, accuracy and per-class metrics on a stack -----------------------
    shape = list(inp["shape"])
    N = len(universe)
    skind = inp["skind"]
    if shape == [] and inp["use_cm1"] and r1[0] == "ok" and obs1[1] and inp["wkind"] != "float":
        arr = np.asarray(r1[1].matrix).copy()
        N = arr.shape[-1]
        scls = list(r1[1].classes)
        scls = [_norm(c) for c in scls]
        skind = {"none": "int", "int": "int", "dyadic": "dyadic"}[inp["wkind"]]
        scls_arg = scls
    else:
        dt = int if skind == "int" else float
        arr = np.array(inp["stack"], dtype=dt).reshape(shape + [N, N])
        if skind == "int" and inp.get("narrow") and arr.size and int(arr.max()) <= 100:
            # entries up to 100 fit every narrow dtype; scaled up so that sums leave uint8 / int16 while cells stay inside
            k_ = {"u1": 2, "i2": 300, "u2": 600, "i4": 2 * 10 ** 7}[inp["narrow"]]
            arr = (arr * k_).astype(NARROW[inp["narrow"]])
        if inp["stack_classes"] == "explicit":
            scls = list(universe)
            scls_arg = scls
        else:
            scls = list(range(N))
            scls_arg = None
    before = arr.copy()
    if inp.get("subclass"):
        # a user subclass with a convenience constructor (not a pass-through of the base signature): the base class's
        # methods have to keep working on it - one_vs_all() and the per-class metrics build plain ConfusionMatrix objects
        class ProjectCM(ConfusionMatrix):
            def __init__(self, data, names=None):
                super().__init__(matrix=data, classes=names)

        rS = common.call(lambda: ProjectCM(arr if inp["as_array"] or shape else arr.tolist(), scls_arg))
    else:
        rS = common.call(lambda: ConfusionMatrix(matrix=(arr if inp["as_array"] or shape else arr.tolist()), classes=scls_arg))
    K = int(np.prod(shape)) if shape else 1
    scale = Fraction(max(1.0, float(arr.sum(axis=(-1, -2)).max()) if arr.size else 1.0))
    eps_s = Fraction(1, 10**12) * scale + (feps * scale if skind == "float" else 0)

    def pos(c):  # position code of an observed class / key in the expected class list of the stack
        c = _norm(c)
        for k_, e in enumerate(scls):
            if type(e) is type(c) and e == c:
                return k_
        return BAD

    if rS[0] != "ok":
        ctx.fail("raises", f"ConfusionMatrix(matrix=array of shape {arr.shape}, classes={scls_arg}) raised {rS[1]}: {rS[2]}",
                 "cm/stack/raises")
    else:
        cmS = rS[1]
        gotS = _stack_checks(ctx, inp, cmS, arr, shape, N, K, scls, pos, eps_s, skind, metrics, "S")
        if [pos(c) for c in cmS.classes] != list(range(N)):
            ctx.fail("classes", f".classes {list(cmS.classes)} for requested {scls_arg}", "cm/stack/classes")
        if not np.array_equal(np.asarray(cmS.matrix), before):
            ctx.fail("array-route", "matrix= array not kept as is", "cm/stack/matrix")

        # ---- E. permutation equivariance: a second real run on the permuted classes -----
        p = list(range(N))
        prng.shuffle(p)
        clsP = [scls[i] for i in p]
        arrP = arr[..., p, :][..., :, p]
        if shape == [] and prng.random() < 0.7:
            if prng.random() < 0.5:
                dfS = pd.DataFrame(arr, index=scls, columns=scls)
                rP = common.call(lambda: ConfusionMatrix(matrix=dfS, classes=clsP))
                how = "DataFrame"
            else:
                dS = {scls[a]: {scls[b]: arr[a, b].item() for b in range(N)} for a in range(N)}
                rP = common.call(lambda: ConfusionMatrix(matrix=dS, classes=clsP))
                how = "dict"
        else:
            rP = common.call(lambda: ConfusionMatrix(matrix=arrP, classes=clsP))
            how = "array"
        if rP[0] != "ok":
            ctx.fail("raises", f"{how} route with classes={clsP} raised {rP[1]}: {rP[2]}", "cm/perm/raises")
        else:
            cmP = rP[1]
            if np.asarray(cmP.matrix).shape != arrP.shape or not np.array_equal(np.asarray(cmP.matrix), arrP):
                ctx.fail("reorder", f"{how} route, source classes {scls} matrix {arr.tolist()} requested {clsP}: got "
                         f"{np.asarray(cmP.matrix).tolist()}", f"cm/perm/{how}")
            else:
                _perm_checks(ctx, inp, cmS, cmP, gotS, p, shape, N, K, eps_s if skind == "float" else zero, metrics)
    if not np.array_equal(arr, before):
        ctx.fail("mutation", "input matrix mutated", "cm/mutation")

    # ---- F. one error scenario ------------------------------------------------------------
    _error_case(ctx, inp, prng, ConfusionMatrix, pd, mk, build_line, matrix_case, dict_kw, frame_kw, bcls, exact_base)

    inp["_evals"] = ctx.evals
    tags = [inp["ctype"], "w=" + inp["wkind"], inp["mode"], f"ndim={len(shape)}", "err=" + inp["err"], f"N={len(universe)}"]
    if shape == [0]:
        tags.append("empty-stack")
    if inp["skind"] == "int" and any(len({c for r in m for c in r if c}) >= 3 and all(c in SEPARATING_PRIMES for r in m for c in r if c)
                                     for m in inp["stack"]):
        tags.append("separating-primes")
    judges = list(ctx.judges)

    def judge(outs):
        iss = []
        for a, cnt, fn in judges:
            iss += fn(outs[a:a + cnt])
        if inp["wkind"] == "float":
            case.tags = case.tags + ("float-bound ratio " + fl_bucket(ctx.flworst),)
        case.flratio, case.flchecked = ctx.flworst, ctx.flchecked
        return iss

    case = Case(ID, inp, ctx.lines, None, tuple(tags), 0, ctx.pre)
    case.judge = judge
    return case


def _collect(ctx, cm, shape, N, tag, metrics, with_dict):
    """per-class metrics in array form (and dict form); shapes; wrapper = metric of one_vs_all()"""
    res, dres = {}, {}
    rova = common.call(cm.one_vs_all)
    if rova[0] != "ok":
        ctx.fail("raises", f"one_vs_all raised {rova[1]}: {rova[2]}", f"cm/{tag}/ova-raises")
        return None
    ova = rova[1]
    om = np.asarray(ova.matrix)
    if list(om.shape) != shape + [N, 2, 2]:
        ctx.fail("shape", f"one_vs_all().matrix shape {om.shape} for X={shape} N={N}", f"cm/{tag}/ova-shape")
        return None
    if not getattr(ova, "binary", False) or [int(c) for c in ova.classes] != [1, 0]:
        ctx.fail("ova-binary", "one_vs_all() is not a binary matrix with classes [1, 0]", f"cm/{tag}/ova-binary")
    for name in COUNTS + RATES + CIS + list(ALIAS):
        want = shape + [N] + ([2] if name.endswith("_ci") else [])
        r = common.call(getattr(cm, name))
        if r[0] != "ok":
            ctx.fail("raises", f"{name} raised {r[1]}: {r[2]}", f"cm/{tag}/raises/{name}")
            res[name] = np.full(want, np.nan)
        else:
            v = np.asarray(r[1])
            if list(v.shape) != want:
                ctx.fail("shape", f"{name} shape {v.shape}, expected {tuple(want)}", f"cm/{tag}/shape/{name}")
                v = np.full(want, np.nan)
            res[name] = v
        ctx.evals += 1
        base = ALIAS.get(name, name)
        fn = {"class_accuracy": "accuracy", "class_error_rate": "error_rate"}.get(base, base)
        rw = common.call(getattr(metrics, fn), om)
        if rw[0] != "ok" or not np.array_equal(np.asarray(rw[1]), res[name], equal_nan=True):
            ctx.fail("wrapper", f"{name}() differs from metrics.{fn}(one_vs_all().matrix)", f"cm/{tag}/wrapper/{name}")
        if name in ALIAS and not np.array_equal(res[name], res[ALIAS[name]], equal_nan=True):
            ctx.fail("alias", f"{name} differs from {ALIAS[name]}", f"cm/{tag}/alias/{name}")
        if with_dict and name not in ALIAS:
            rd = common.call(getattr(cm, name), as_dict=True)
            dwant = shape + ([2] if name.endswith("_ci") else [])
            if rd[0] != "ok" or not isinstance(rd[1], dict):
                ctx.fail("as_dict", f"{name}(as_dict=True) -> {rd[1] if rd[0] != 'ok' else type(rd[1]).__name__}",
                         f"cm/{tag}/asdict/{name}")
                dres[name] = None
            else:
                d = rd[1]
                okshape = all(list(np.asarray(v).shape) == dwant for v in d.values())
                if not okshape:
                    ctx.fail("as_dict-shape", f"{name}(as_dict=True) values of shape "
                             f"{[np.asarray(v).shape for v in d.values()]}, expected {tuple(dwant)}", f"cm/{tag}/asdict-shape/{name}")
                    dres[name] = None
                else:
                    dres[name] = d
    return om, res, dres


def _blocks(res, names, j):
    out = []
    for nm in names:
        v = res[nm]
        if nm.endswith("_ci"):
            out += list(np.asarray(v[..., j, :]).reshape(-1))
        else:
            out += list(np.asarray(v[..., j]).reshape(-1))
    return out


def _history_checks(ctx, inp, cm, shape, N, tag):
    """One object over time.  (a) an array returned by a per-class query is the caller's to modify: later answers of the
    object must not change with it.  (b) `matrix` is a public attribute and accumulating another batch in place
    (`cm.matrix += batch`) is ordinary use: afterwards one_vs_all() and the per-class metrics must describe the matrix the
    object holds NOW, i.e. equal those of a fresh object built from a copy of it.  Run on a private copy of the object."""
    from score_analysis import ConfusionMatrix
    try:
        base = np.array(cm.matrix, copy=True)
        own = ConfusionMatrix(matrix=np.array(base, copy=True), classes=list(cm.classes))
    except Exception:
        return
    names = ["tp", "fn", "fp", "tn", "tpr", "ppv"]

    def snap(obj):
        out = {}
        r_ = common.call(obj.one_vs_all)
        out["one_vs_all"] = np.array(r_[1].matrix, copy=True) if r_[0] == "ok" else ("exc", r_[1])
        for nm in names:
            r_ = common.call(getattr(obj, nm))
            out[nm] = np.array(r_[1], copy=True) if r_[0] == "ok" else ("exc", r_[1])
        return out

    def differs(a, b):
        for k_ in a:
            x, y = a[k_], b[k_]
            if isinstance(x, tuple) or isinstance(y, tuple):
                if x != y:
                    return k_
            elif x.shape != y.shape or not np.array_equal(x, y, equal_nan=True):
                return k_
        return None

    first = snap(own)
    ctx.evals += 2
    # (a) modify kept results in place
    for nm in ("tp", "fn"):
        r_ = common.call(getattr(own, nm))
        if r_[0] == "ok" and isinstance(r_[1], np.ndarray) and r_[1].flags.writeable and r_[1].size:
            try:
                r_[1][...] = 0
            except Exception:
                pass
    again = snap(own)
    k_ = differs(first, again)
    if k_ is not None:
        ctx.fail("history", f"after zeroing the arrays returned by tp() / fn() in place, {k_}() of the same object changed "
                 f"(matrix {base.reshape(-1).tolist()[:16]})", f"cm/{tag}/history/kept-result")
        return
    # (b) accumulate another batch in place
    seed_ = int(inp.get("seed", 0)) % (2 ** 31)
    prng = np.random.RandomState(seed_)
    if base.size == 0 or not (np.issubdtype(base.dtype, np.integer) or np.issubdtype(base.dtype, np.floating)):
        return
    batch = prng.randint(0, 4, size=base.shape).astype(base.dtype)
    try:
        own.matrix += batch
    except Exception:
        return
    fresh = ConfusionMatrix(matrix=np.array(own.matrix, copy=True), classes=list(cm.classes))
    k_ = differs(snap(own), snap(fresh))
    if k_ is not None:
        ctx.fail("history", f"after `cm.matrix += batch` ({batch.reshape(-1).tolist()[:16]}) on an object that had already been "
                 f"queried, {k_}() differs from that of a fresh object holding the same matrix "
                 f"{np.asarray(own.matrix).reshape(-1).tolist()[:16]}", f"cm/{tag}/history/in-place-update")


def _stack_checks(ctx, inp, cm, arr, shape, N, K, scls, pos, eps, skind, metrics, tag):
    got = _collect(ctx, cm, shape, N, tag, metrics, True)
    racc = common.call(cm.accuracy)
    if racc[0] != "ok":
        ctx.fail("raises", f"accuracy raised {racc[1]}: {racc[2]}", f"cm/{tag}/raises/accuracy")
        return got
    acc = racc[1]
    if shape == [] and isinstance(acc, np.ndarray):
        ctx.fail("scalar", "accuracy of a single matrix is an array", f"cm/{tag}/scalar/accuracy")
    acc = np.asarray(acc, dtype=float)
    if list(acc.shape) != shape:
        ctx.fail("shape", f"accuracy shape {acc.shape} for X={shape}", f"cm/{tag}/shape/accuracy")
        return got
    rerr = common.call(cm.error_rate)
    if rerr[0] != "ok" or not np.allclose(np.asarray(rerr[1], dtype=float), 1 - acc, equal_nan=True, rtol=0, atol=1e-15):
        ctx.fail("error-rate", "error_rate != 1 - accuracy", f"cm/{tag}/error_rate")
    rpop = common.call(cm.pop)
    if rpop[0] != "ok" or not np.array_equal(np.asarray(rpop[1]), arr.sum(axis=(-1, -2))):
        ctx.fail("pop", "pop() differs from the sum of the matrix", f"cm/{tag}/pop")
    if got is None:
        return got
    _history_checks(ctx, inp, cm, shape, N, tag)
    om, res, dres = got
    flat = arr.reshape(-1, N, N)
    oflat = om.reshape(-1, N, 2, 2)
    aflat = acc.reshape(-1)
    lines = []
    for k in range(K):
        rates = [res[nm].reshape(-1, N)[k, j] for j in range(N) for nm in RATES]
        cnt = [res[nm].reshape(-1, N)[k, j] for j in range(N) for nm in COUNTS]
        lines.append(line("ova", n=str(N), m=ql(flat[k].reshape(-1).tolist()), eps=q(eps),
                          cells=_rl(oflat[k].reshape(-1).tolist()), acc=_o(aflat[k]), rates=_ol(rates), cnt=_rl(cnt)))
    ctx.evals += K * 6

    def jo(outs):
        iss = []
        for k in range(K):
            o = outs[k]
            mdesc = f"matrix {flat[k].tolist()}"
            for cl in ("shape", "conserve", "cells", "accuracy", "classcounts", "classrates"):
                if o.get("spec." + cl) != "1":
                    iss.append(Issue("PROPFAIL", "ova-" + cl, f"{mdesc}: one_vs_all {oflat[k].tolist()} accuracy {aflat[k]} "
                                     f"tp {res['tp'].reshape(-1, N)[k].tolist()} p {res['p'].reshape(-1, N)[k].tolist()} "
                                     f"top {res['top'].reshape(-1, N)[k].tolist()} tpr {res['tpr'].reshape(-1, N)[k].tolist()}",
                                     f"cm/ova/{cl}"))
            mc = common.pfracs(o["cells"])
            oc = oflat[k].reshape(-1).tolist()
            if any(not common.close(a, b, rel=eps, abs_=eps) for a, b in zip(oc, mc)):
                iss.append(Issue("DISAGREE", "ova-cells", f"{mdesc}: impl {oc} model {[str(x) for x in mc]}", "cm/ova/model-cells"))
            if not common.close(float(aflat[k]), common.pfrac(o["acc"]), rel=Fraction(1, 10**12), abs_=Fraction(1, 10**12)):
                iss.append(Issue("DISAGREE", "accuracy", f"{mdesc}: impl {aflat[k]} model {o['acc']}", "cm/ova/model-accuracy"))
            mr = common.pfracs(o["rates"])
            rel = Fraction(1, 10**9) if skind == "float" else Fraction(1, 10**12)
            for j in range(N):
                for t, nm in enumerate(RATES):
                    iv = float(res[nm].reshape(-1, N)[k, j])
                    if not common.close(iv, mr[j * 12 + t], rel=rel, abs_=rel):
                        iss.append(Issue("DISAGREE", nm, f"{mdesc}: {nm}[{j}] impl {iv} model {mr[j * 12 + t]}", f"cm/ova/model-{nm}"))
        return iss
    if lines:
        ctx.add(lines, jo)

    # as_dict: one line for the whole stack
    names = COUNTS + RATES + CIS
    if all(dres.get(nm) is not None for nm in names):
        keylists = [list(dres[nm].keys()) for nm in names]
        if any(kl != keylists[0] for kl in keylists):
            ctx.fail("as_dict-keys", f"as_dict key orders differ between metrics: {keylists[0]} ...", f"cm/{tag}/asdict-keys")
        else:
            dkeys = keylists[0]
            kk = len(_blocks(res, names, 0)) if N else 0
            vals = [x for j in range(N) for x in _blocks(res, names, j)]
            dvals = []
            for c in dkeys:
                for nm in names:
                    dvals += list(np.asarray(dres[nm][c]).reshape(-1))
            ln = line("asdict", classes=il(range(N)), k=str(kk), vals=_ol(vals), dkeys=il([pos(c) for c in dkeys]),
                      dvals=_ol(dvals))

            def jd(outs):
                if outs[0].get("spec.asdict") != "1":
                    return [Issue("PROPFAIL", "as_dict", f"classes {scls}: dict keys {dkeys}; tpr array "
                                  f"{res['tpr'].tolist()} dict { {str(k_): np.asarray(v).tolist() for k_, v in dres['tpr'].items()} }",
                                  "cm/asdict")]
                return []
            ctx.add([ln], jd)
            ctx.evals += 1
    return got


def _perm_checks(ctx, inp, cmS, cmP, gs, p, shape, N, K, eps, metrics):
    gp = _collect(ctx, cmP, shape, N, "P", metrics, False)
    if gs is None or gp is None:
        return
    names = COUNTS + RATES + CIS
    lines = []
    for k in range(K):
        def blocks(g):
            om, res, _ = g
            out = []
            for j in range(N):
                out += list(om.reshape(-1, N, 2, 2)[k, j].reshape(-1))
                for nm in names:
                    v = res[nm]
                    out += list(v.reshape(-1, N, 2)[k, j]) if nm.endswith("_ci") else [v.reshape(-1, N)[k, j]]
            return out
        lines.append(line("perm", n=str(N), k=str(4 + 8 + 12 + 8), p=il(p), eps=q(eps), v=_ol(blocks(gs)), w=_ol(blocks(gp))))
    ctx.evals += K

    def jp(outs):
        iss = []
        for k in range(K):
            if outs[k].get("spec.perm") != "1":
                iss.append(Issue("PROPFAIL", "equivariance", f"permutation {p}: one_vs_all / per-class metrics of the permuted "
                                 f"matrix {np.asarray(cmP.matrix).reshape(-1, N, N)[k].tolist()} are not the permuted ones of "
                                 f"{np.asarray(cmS.matrix).reshape(-1, N, N)[k].tolist()}; tpr {gs[1]['tpr'].reshape(-1, N)[k].tolist()} vs "
                                 f"{gp[1]['tpr'].reshape(-1, N)[k].tolist()}", "cm/perm"))
        return iss
    if lines:
        ctx.add(lines, jp)
    ra, rb = common.call(cmS.accuracy), common.call(cmP.accuracy)
    if ra[0] != "ok" or rb[0] != "ok" or not np.allclose(np.asarray(ra[1], dtype=float), np.asarray(rb[1], dtype=float),
                                                          equal_nan=True, rtol=1e-12, atol=0):
        ctx.fail("accuracy-invariant", f"accuracy changes under the class permutation {p}", "cm/perm/accuracy")
    if [_norm(c) for c in cmP.classes] != [_norm(cmS.classes[i]) for i in p]:
        ctx.fail("classes", f"classes of the permuted run {list(cmP.classes)}", "cm/perm/classes")


def _error_case(ctx, inp, prng, ConfusionMatrix, pd, mk, build_line, matrix_case, dict_kw, frame_kw, bcls, M):
    err = inp["err"]
    universe = list(inp["universe"])
    labels, preds, weights = list(inp["labels"]), list(inp["preds"]), inp["weights"]
    zero = Fraction(0)
    nb = len(bcls)

    def build_err(tag, labels_, preds_, weights_, classes_):
        r = mk(labels_, preds_, weights_, classes_)
        obs = _obs_cm(ctx, r, tag)
        eps = Fraction(1, 10**9) * (1 + Fraction(sum(weights_))) if weights_ else zero
        ctx.add([build_line(labels_, preds_, weights_, classes_, r, obs, eps)],
                _judge_cm(ctx, r, obs, tag, "entry", eps, f"classes={classes_} labels={labels_} preds={preds_} weights={weights_}"))
        ctx.evals += 1

    if err == "dup":
        cl = universe + [prng.choice(universe)]
        prng.shuffle(cl)
        build_err("err-dup", labels, preds, weights, cl)
    elif err == "few":
        build_err("err-few", [universe[0]] * 3, [universe[0]] * 3, None, [universe[0]])
    elif err == "fewdefault":
        build_err("err-fewdefault", [universe[0]] * 2, [universe[0]] * 2, None, None)
    elif err == "notin":
        la, pr = labels + [inp["extra"]], preds + [universe[0]]
        if prng.random() < 0.5:
            la, pr = labels + [universe[0]], preds + [inp["extra"]]
        w = None if weights is None else weights + [1 if inp["wkind"] == "int" else 1.0]
        build_err("err-notin", la, pr, w, universe)
    elif err == "wlen":
        if labels:
            w = ([1] * len(labels) if weights is None else list(weights)) + [1]
            build_err("err-wlen", labels, preds, w, universe)
    elif err in ("dictkeys", "dictclasses"):
        keys = list(bcls)
        rowkeys = [list(bcls) for _ in keys]
        req = None
        if err == "dictkeys":
            rr = prng.randrange(nb)
            rowkeys[rr] = rowkeys[rr][:-1] + [inp["extra"]] if prng.random() < 0.5 else rowkeys[rr][:-1]
        else:
            req = list(bcls[:-1]) + [inp["extra"]] if prng.random() < 0.5 else list(bcls) + [bcls[0]]
        rowvals = [[M[bcls.index(rk)][bcls.index(c)] if c in bcls else 1 for c in ks] for rk, ks in zip(keys, rowkeys)]
        dd = {rk: dict(zip(ks, vs)) for rk, ks, vs in zip(keys, rowkeys, rowvals)}
        matrix_case("err-" + err, dict_kw(keys, rowkeys, rowvals), lambda: ConfusionMatrix(matrix=dd, classes=req), req,
                    f"matrix={dd} classes={req}")
    elif err in ("framekeys", "framedup"):
        rows, cols = list(bcls), list(bcls)
        if err == "framekeys":
            cols = cols[:-1] + [inp["extra"]]
        else:
            rows = rows[:-1] + [rows[0]]
            if prng.random() < 0.5:
                cols = list(rows)
        data = [list(r_) for r_ in M]
        df = pd.DataFrame(data, index=rows, columns=cols)
        req = prng.choice([None, list(bcls)])
        matrix_case("err-" + err, frame_kw(rows, cols, data), lambda: ConfusionMatrix(matrix=df, classes=req), req,
                    f"DataFrame index={rows} columns={cols} classes={req}")
    elif err in ("arraycount", "arraydup"):
        req = list(bcls[:-1]) if err == "arraycount" else list(bcls[:-1]) + [bcls[0]]
        matrix_case("err-" + err, dict(route="array", n=str(nb), vals=ql([v for row in M for v in row])),
                    lambda: ConfusionMatrix(matrix=M, classes=req), req, f"matrix={M} classes={req}")


def shrink_candidates(inp):
    if inp["err"] != "none":
        c = dict(inp); c["err"] = "none"; yield c
    if inp["shape"]:
        for i in range(len(inp["stack"])):
            c = dict(inp); c["shape"] = []; c["stack"] = [inp["stack"][i]]; yield c
    n = len(inp["labels"])
    if n > 1:
        for lo, hi in ((0, n // 2), (n // 2, n)):
            c = dict(inp)
            c["labels"], c["preds"] = inp["labels"][lo:hi], inp["preds"][lo:hi]
            c["weights"] = None if inp["weights"] is None else inp["weights"][lo:hi]
            yield c
    if 1 <= n <= 6:
        for i in range(n):
            c = dict(inp)
            c["labels"] = inp["labels"][:i] + inp["labels"][i + 1:]
            c["preds"] = inp["preds"][:i] + inp["preds"][i + 1:]
            c["weights"] = None if inp["weights"] is None else inp["weights"][:i] + inp["weights"][i + 1:]
            yield c
    if inp["weights"] is not None:
        c = dict(inp); c["weights"] = None; c["wkind"] = "none"; yield c
    if inp["as_array"]:
        c = dict(inp); c["as_array"] = False; yield c
