"""C06 — EER is a crossing point: FPR and FNR at its threshold agree with the EER."""
from __future__ import annotations

import math
from fractions import Fraction

import numpy as np

import common
import gen
import routes
import thr_common
from common import Case, Issue, q, ql, il, line

ID = "C06"
LEVEL = "proof"
RULE = ("cases = Scores with both classes non-empty: tie-free (mixed, perfectly separated, perfectly inverted), tied and "
        "touching data x easy counts x 4 configurations; non-trivial = distinct input that is not a plain separated "
        "default-configuration case (ties, easy samples, inverted classes, non-default configuration)")
EXPLANATION = ("Lean model of eer()/_find_root mirrors the code (shortcut, sign normalisation, cap by the hard-sample "
               "fractions, two bisections, average). Theorems: see obligations. The correspondence run compares (t, e) "
               "with the model (tolerance 1e-8: bisection to 1e-10 in floats vs exact rationals) and evaluates the Lean "
               "predicates rangeOK / crossingOK / zeroOK on the implementation's own matrix at its returned threshold.")
TRUSTED_BASE = ["Lean 4.33 kernel", "axioms propext/Classical.choice/Quot.sound only",
                "hand-written model SA/Model/Eer.lean tied to /repo by this correspondence run",
                "np.nextafter as an oracle", "np.isclose by its documented formula"]
ASSUMPTIONS = ["finite scores of moderate magnitude, both classes non-empty",
               "crossing clause claimed for tie-free scores; zero-EER clause for all inputs"]


def n_cases(tier):
    return 4000 if tier == "quick" else 32000


def gen_one(rng, i, tier):
    stream = "exact" if i % 2 == 0 else "generic"
    r = rng.random()
    npos, nneg = rng.randint(1, 20), rng.randint(1, 20)
    if r < 0.6:
        pos, neg = gen.tiefree(rng, npos, nneg, stream == "exact")
        kind = "tiefree"
    elif r < 0.8:
        pos, neg = gen.score_sets(rng, stream, nmin=1, nmax=20, allow_empty=False)
        pos, neg = pos[:20], neg[:20]
        kind = "general"
    else:
        # touching / nearly separated
        v = rng.choice([-2.0, -0.75, 0.5, 1.25, 3.0])  # not 0.0: nextafter(0) is subnormal and sign*y underflows
        pos = [v + rng.randint(0, 8) / 4 for _ in range(npos)]
        neg = [v - rng.randint(0, 8) / 4 for _ in range(nneg)]
        pos[0] = v; neg[0] = v
        kind = "touching"
    sc, ec = rng.choice(gen.CFGS)
    if kind == "touching" and sc == "neg":
        pos, neg = neg, pos
    ep, en = gen.easy_counts(rng, stream, len(pos), len(neg))
    narrow = None
    if kind == "tiefree" and rng.random() < 0.2:
        # the same data squeezed into a narrow band (a saturated classifier): the EER and the rates at its threshold are
        # invariant under increasing affine maps, so no absolute tolerance on score differences may enter
        a, b = 2.0 ** -rng.choice([10, 13, 17]), rng.choice([1.0, 0.5, -3.0])
        p2, n2 = [a * x + b for x in pos], [a * x + b for x in neg]
        if len(set(p2 + n2)) == len(p2) + len(n2):
            pos, neg, narrow = p2, n2, [a, b]
    dt = None
    if narrow is None and rng.random() < 0.18:
        # integer-valued score arrays, also unsigned (differences of unsigned scores wrap around): the order type of the
        # data is kept (values -> ranks), so separated / touching / tie-free stay what they were
        dt = rng.choice(["u1", "u2", "i8", "u1"])
        if rng.random() < 0.5:
            # perfectly separated classes in the direction of the shortcut (its midpoint is integer arithmetic on the
            # scores' own dtype unless the code converts first)
            allv = sorted(pos + neg)
            if sc == "pos":
                neg, pos = allv[:len(neg)], allv[len(neg):]
            else:
                pos, neg = allv[:len(pos)], allv[len(pos):]
            kind = "general"
        vals = sorted(set(pos + neg))
        step_ = rng.choice([1, 2, 5])
        top_ = {"u1": 255, "u2": 65535, "i8": 2 ** 20}[dt]
        # values up to the top of the dtype's range half of the time (sums / differences of two scores then leave it)
        off_ = rng.choice([0, 1, 17]) if rng.random() < 0.5 else top_ - step_ * (len(vals) - 1) - rng.choice([0, 1, 3])
        rank = {v: float(off_ + step_ * k) for k, v in enumerate(vals)}
        pos, neg = [rank[x] for x in pos], [rank[x] for x in neg]
    if narrow is None and dt is None and rng.random() < 0.06:
        # low-precision score arrays (float16 / float32 model outputs) whose values are CONSECUTIVE representable numbers of
        # that dtype (1-3 ulp apart): any midpoint or interpolation rounded back to the scores' dtype lands on a sample
        dt = rng.choice(["f2", "f4", "f2"])
        fdt = np.float16 if dt == "f2" else np.float32
        v_ = fdt(rng.choice([0.5, 1.0, 3.0, 100.0, -2.0]))
        seq = []
        for _ in range(len(pos) + len(neg)):
            for _k in range(rng.randint(1, 3)):
                v_ = np.nextafter(v_, fdt(np.inf), dtype=fdt)
            seq.append(float(v_))
        if rng.random() < 0.7:
            # perfectly separated in the direction of the shortcut
            if sc == "pos":
                neg, pos = seq[:len(neg)], seq[len(neg):]
            else:
                pos, neg = seq[:len(pos)], seq[len(pos):]
        else:
            rng.shuffle(seq)
            pos, neg = seq[:len(pos)], seq[len(pos):]
        kind = "general"
    huge = False
    if kind == "tiefree" and dt is None and rng.random() < 0.12:
        # enormous declared easy populations around a few hundred overlapping scored samples: "one sample" is then about
        # 1e-8 on the rate scale, the size of a careless absolute tolerance
        # Scores on a jittered grid with class runs of length <= 2: within each class consecutive gaps lie between 0.8 and
        # 3.2 grid steps, and the easy counts are within a factor 1.5 of each other.  The proved slack of the FNR side
        # (theorem C06_fnr_side_bisect: xtol * (1 + N_neg maxGap(neg) / (N_pos minGap(pos))) + sentinel steps) is then
        # below the 1e-9 the spec allows, so on these inputs the clean code provably passes; for arbitrary gap ratios at
        # this population size it does not (known finding, corpus/C06/huge_population_tiny_gap.json).
        n_ = rng.randint(300, 600)
        lab, run = [], 0
        for k in range(n_):
            want = rng.random() < (0.3 + 0.4 * k / n_)
            if run >= 2 and lab and lab[-1] == want:
                want = not want
            run = run + 1 if lab and lab[-1] == want else 1
            lab.append(want)
        grid = [(k + rng.uniform(-0.1, 0.1)) / 16.0 for k in range(n_)]
        pos, neg = [x for x, l in zip(grid, lab) if l], [x for x, l in zip(grid, lab) if not l]
        base_ = rng.choice([10 ** 8, 2 * 10 ** 8, 5 * 10 ** 7])
        ep, en = (base_, base_ * 3 // 2) if rng.random() < 0.5 else (base_ * 3 // 2, base_)
        if rng.random() < 0.3:
            ep = en = base_
        narrow, huge = None, True
    upd = {}
    if dt is None and not huge and rng.random() < 0.12:
        # the object is built with other easy counts, queried, and then UPDATED (nb_easy_pos / nb_easy_neg are plain attributes;
        # a monitoring job adds the day's easy accepts): eer() afterwards is the eer of the object as it is now
        upd = {"ep0": rng.choice([0, 3, 40, 7 * len(pos)]), "en0": rng.choice([0, 5, 25, 9 * len(neg)])}
    return {"stream": stream, "kind": kind, "pos": pos, "neg": neg, "ep": ep, "en": en, "sc": sc, "ec": ec, **upd,
            "narrow": narrow, "prior": rng.random() < 0.3, "dt": dt, "huge": huge,
            "route": routes.pick(rng, 0.15) if (dt is None and not huge) else None, "rseed": rng.randint(0, 2**31 - 1)}


def nontrivial(inp):
    sep = min(inp["pos"]) > max(inp["neg"])
    return not (sep and (inp["sc"], inp["ec"]) == ("pos", "pos") and inp["ep"] == 0 and inp["en"] == 0)


def build(inp) -> Case:
    from score_analysis import Scores

    inp = dict(inp)
    pos, neg, ep, en, sc, ec = inp["pos"], inp["neg"], inp["ep"], inp["en"], inp["sc"], inp["ec"]
    if inp.get("dt"):
        npdt = {"u1": np.uint8, "u2": np.uint16, "i8": np.int64, "f2": np.float16, "f4": np.float32}[inp["dt"]]
        s = Scores(np.array(pos, dtype=npdt), np.array(neg, dtype=npdt), nb_easy_pos=ep, nb_easy_neg=en, score_class=sc,
                   equal_class=ec)
    else:
        pa_, na_ = np.array(pos, dtype=float), np.array(neg, dtype=float)
        s = Scores(pa_, na_, nb_easy_pos=inp.get("ep0", ep), nb_easy_neg=inp.get("en0", en), score_class=sc, equal_class=ec)
        if "ep0" in inp:
            for name, args in (("eer", ()), ("threshold_at_fpr", (0.3,)), ("threshold_at_fnr", (0.2,))):
                common.call(getattr(s, name), *args)
            _ = (s.hard_pos_ratio, s.hard_neg_ratio, s.easy_ratio)
            s.nb_easy_pos, s.nb_easy_neg = ep, en
    pre = []
    if not inp.get("dt"):
        # a second object from reversed views of the same buffers: constructors take sorted copies (harness/routes.py)
        b_pa, b_na = routes.shared_views(Scores, pa_, na_, nb_easy_pos=ep, nb_easy_neg=en, score_class=sc, equal_class=ec)
        if not (np.array_equal(pa_, b_pa) and np.array_equal(na_, b_na)):
            pre.append(Issue("PROPFAIL", "crossing", f"constructing Scores from views of the caller's arrays changed them "
                             f"(pos {b_pa.tolist()[:6]} -> {pa_.tolist()[:6]}): objects built from them earlier now hold other scores",
                             "ctor/caller-array-modified"))
    routed = None
    if inp.get("route"):
        r_ = routes.apply(s, inp["route"], inp.get("rseed", 0))
        if r_ is not None and r_[1] and r_[2]:
            s, pos, neg, ep, en, sc, ec = r_
            routed = inp["route"]
    if inp.get("prior"):
        # earlier queries on the SAME object (eer() is a query: its result must not depend on the call history)
        for name, args in (("threshold_at_topr", (0.5,)), ("threshold_at_tonr", (0.25,)), ("threshold_at_fpr", (0.125,)),
                           ("threshold_at_fnr", (0.75,)), ("auc", ()), ("cm", (0.0,))):
            common.call(getattr(s, name), *args)
    r = common.call(s.eer)
    if r[0] == "exc":
        pre.append(Issue("PROPFAIL", "raises", f"eer raised {r[1]}: {r[2]}", f"eer/raises/{r[1]}"))
        return Case(ID, inp, [], lambda o: [], (inp["kind"],), 0, pre)
    t, e = float(r[1][0]), float(r[1][1])
    # a shallow copy is updated and queried in between (copy.copy(s) with other easy counts: "what if we had 5000 more easy
    # rejections"): the original is not the copy
    import copy as _copy
    c_ = _copy.copy(s)
    c_.nb_easy_neg = int(s.nb_easy_neg) + 50 + 3 * len(neg)
    c_.nb_easy_pos = int(s.nb_easy_pos) + 7
    common.call(c_.eer)
    r2 = common.call(s.eer)
    if r2[0] != "ok" or (float(r2[1][0]), float(r2[1][1])) != (t, e):
        pre.append(Issue("PROPFAIL", "repeat", f"eer() = {(t, e)}, and after a shallow COPY of the object was given other easy counts and "
                         f"asked for its eer(), the original's eer() = {r2[1] if r2[0] == 'ok' else r2[1:]}", "eer/repeat"))
    icm = thr_common.cells(s.cm(np.array([t])))
    fpr_t, fnr_t = float(s.fpr(t)), float(s.fnr(t))
    eps = Fraction(1, 10**9)
    ln = line("eer", pos=ql(pos), neg=ql(neg), ep=ep, en=en, sc=sc, ec=ec, sorted=0, t=q(t), e=q(e),
              eps=q(eps), icm=il(icm))
    scale = max([1.0] + [abs(x) for x in pos + neg])
    tags = [inp["stream"], inp["kind"], f"cfg={sc},{ec}"]
    if inp.get("narrow"):
        tags.append("narrow-band")
    if inp.get("dt"):
        tags.append("dtype=" + inp["dt"])
    if inp.get("huge"):
        tags.append("easy>=5e7")
    if routed:
        tags.append("route=" + routed)
    if "ep0" in inp:
        tags.append("easy-counts-updated-after-queries")
    if inp.get("prior"):
        tags.append("prior-calls")
    if ep or en:
        tags.append("easy")
    if e == 0.0:
        tags.append("eer==0")

    def proved_slack():
        """c06d_delta of SA/Theorems/C06Delta.lean evaluated on this input (exact rationals): the slack by which
        theorem C06_fnr_side_bisect bounds |FNR(t) - e| beyond one sample on the bisection path"""
        P, Ng = sorted(Fraction(x) for x in pos), sorted(Fraction(x) for x in neg)
        if len(P) < 2 or len(Ng) < 2:
            return None
        xtol = Fraction(1, 10**10)
        max_gap_neg = max(b - a for a, b in zip(Ng, Ng[1:]))
        min_gap_pos = min(b - a for a, b in zip(P, P[1:]))
        if min_gap_pos <= 0:
            return None
        jump = Fraction(float(np.spacing(float(Ng[0])))) + Fraction(float(np.spacing(float(Ng[-1]))))
        return xtol + ((len(Ng) + en) * max_gap_neg * xtol + jump) / ((len(P) + ep) * min_gap_pos)

    def judge(outs):
        o = outs[0]
        iss = []
        if o["err"] != "none":
            iss.append(Issue("DISAGREE", "error", f"model raises {o['err']}, implementation returned {(t, e)}", "eer/error"))
            return iss
        mt, me = common.pfrac(o["t"]), common.pfrac(o["e"])
        tie_free = o["tiefree"] == "1"
        if not tie_free:
            # with ties f has flat zero stretches on which float noise (interpolating between two
            # equal scores gives the score +- 1 ulp) decides the branch: the EER is only determined
            # up to the tie block (C06/C08), so values are not compared with the exact model
            case.skipped += 1
        elif abs(Fraction(e) - me) > Fraction(1, 10**8):
            iss.append(Issue("DISAGREE", "eer", f"eer impl={e} model={float(me)} (cfg {sc},{ec}, ep={ep}, en={en})", "eer/value"))
        elif tie_free and abs(Fraction(t) - mt) > Fraction(1, 10**7) * Fraction(scale):
            iss.append(Issue("DISAGREE", "threshold", f"eer threshold impl={t} model={float(mt)}", "eer/threshold"))
        for cl in ("range", "crossing", "zero"):
            if o["spec." + cl] != "1":
                sig = f"eer/{cl}"
                extra = ""
                if cl == "crossing" and tie_free:
                    # one sample + the slack the theorem proves for the exact model on this very input: a deviation inside
                    # it is the documented limit of the root finder's absolute tolerance at this population size (known
                    # finding), anything beyond it is not explained by the code as modelled
                    d = proved_slack()
                    n_p, n_n = len(pos) + ep, len(neg) + en
                    dev_fnr, dev_fpr = abs(Fraction(fnr_t) - Fraction(e)), abs(Fraction(fpr_t) - Fraction(e))
                    if (d is not None and d > eps and n_p + n_n >= 10**7 and dev_fpr <= Fraction(1, n_n) + eps
                            and dev_fnr <= Fraction(1, n_p) + d + Fraction(1, 10**12)):
                        sig = "eer/crossing/within-proved-slack"
                        extra = (f"; |FNR(t)-e| = {float(dev_fnr * n_p):.3f} samples, proved bound 1 + "
                                 f"{float(d * n_p):.3f} samples (C06_fnr_side_bisect)")
                iss.append(Issue("PROPFAIL", cl, f"eer() = ({t}, {e}); fpr(t)={fpr_t}, fnr(t)={fnr_t}, cm(t)={icm}, "
                                 f"cfg=({sc},{ec}), ep={ep}, en={en}, n_pos={len(pos)}, n_neg={len(neg)}{extra}", sig))
        return iss

    case = Case(ID, inp, [ln], judge, tuple(tags), 0, pre)
    return case


def shrink_candidates(inp):
    for key in ("pos", "neg"):
        xs = inp[key]
        if len(xs) > 1:
            for i in range(len(xs)):
                c = dict(inp); c[key] = xs[:i] + xs[i + 1:]; yield c
    for key in ("ep", "en"):
        if inp[key] > 0:
            c = dict(inp); c[key] = 0; yield c
            c = dict(inp); c[key] = 1; yield c
