"""C07 — AUC equals the Mann-Whitney statistic; partial AUC is the exact step-ROC area."""
from __future__ import annotations

import math
from fractions import Fraction

import numpy as np

import common
import gen
import routes
from common import Case, Issue, q, ql, line
from thr_common import U53, FLBOUND_SLACK, fl_in_range, fl_bucket

ID = "C07"
LEVEL = "proof"
RULE = ("cases = Scores with both classes non-empty (exact and generic streams; arbitrary ties for the full AUC; tie-free "
        "across classes for the partial AUC) x easy counts x 4 configurations x intervals [lower, upper] on and off the "
        "achievable x values x axis pairs; non-trivial = distinct input with ties, easy samples, a partial interval or a "
        "non-default configuration / axis pair")
EXPLANATION = ("The Lean model of Scores.auc mirrors the code (+-ulp points, sort, reversal, searchsorted window, flat "
               "extension, trapezoid, abs). Reference semantics: mannWhitney and stepArea (independent definitions by "
               "pair counting / interval overlap). Theorems: see obligations; the correspondence run compares the model "
               "with Scores.auc on every case and evaluates the Lean predicates mwOK / stepOK / boundOK on the "
               "implementation's own outputs, plus additivity and the three complement / exchange identities as relations "
               "between real runs.")
TRUSTED_BASE = ["Lean 4.33 kernel", "axioms propext/Classical.choice/Quot.sound only",
                "hand-written model SA/Model/Auc.lean tied to /repo by this correspondence run",
                "np.nextafter as an oracle (driver: exact float64 neighbour)", "np.trapezoid / np.searchsorted by documented meaning"]
ASSUMPTIONS = ["finite scores; both classes non-empty",
               "float rounding of the trapezoid sum: within FLBOUND_SLACK x aucEps (SA.Scores.auc_fl_error: standard model "
               "|fl x - x| <= u|x|, u = 2^-53, one rounding per rate / difference / sum / product / halving, the terms added "
               "in ANY order) wherever the theorem's guard holds (every comparison of the code is between values that "
               "are equal or farther apart than their roundings; inputs in [2^-200, 2^200]); within 1e-9 everywhere"]
AXES = [("fpr", "tpr"), ("fpr", "fnr"), ("tnr", "tpr"), ("tpr", "fpr"), ("fnr", "tnr"), ("tnr", "fnr")]


def n_cases(tier):
    return 4000 if tier == "quick" else 32000


def gen_one(rng, i, tier):
    stream = "exact" if i % 2 == 0 else "generic"
    pos, neg = gen.score_sets(rng, stream, nmin=1, nmax=25, allow_empty=False)
    pos, neg = pos[:25], neg[:25]
    if rng.random() < 0.5:
        pos, neg = gen.tiefree(rng, len(pos), len(neg), stream == "exact")
    r_ = rng.random()
    if r_ < 0.08:
        # scores on a tiny scale (likelihoods ~1e-12): distinct values, far more than one ulp apart, yet closer than any
        # fixed absolute epsilon (power-of-two factor: exact)
        k_ = rng.choice([2.0 ** -40, 2.0 ** -50, 2.0 ** -33])
        pos, neg = [x * k_ for x in pos], [x * k_ for x in neg]
    elif r_ < 0.16:
        # a narrow band: distinct scores 0.5 + k * 2**-36 (or 1000 + k * 2**-33), exactly representable
        base_, step_ = rng.choice([(0.5, 2.0 ** -36), (1000.0, 2.0 ** -33), (-3.0, 2.0 ** -38)])
        vals = rng.sample(range(0, 4000), len(pos) + len(neg))
        if rng.random() < 0.5 and len(vals) > 2:
            vals[1] = vals[0]  # one cross-class tie now and then
        pos = [base_ + v * step_ for v in vals[:len(pos)]]
        neg = [base_ + v * step_ for v in vals[len(pos):]]
    ep, en = gen.easy_counts(rng, stream, len(pos), len(neg))
    if rng.random() < 0.04:
        # populations beyond 32-bit counters
        if rng.random() < 0.5:
            ep = rng.choice([2**31, 2**31 + 7, 3 * 10**9, 2**33 + 1])
        else:
            en = rng.choice([2**31, 2**31 + 7, 3 * 10**9, 2**33 + 1])
    sc, ec = rng.choice(gen.CFGS)
    nall = len(neg) + en
    ivs = [(0.0, 1.0)]
    for _ in range(3):
        c = rng.random()
        if c < 0.4:
            a, b = sorted([rng.randint(0, nall) / nall, rng.randint(0, nall) / nall])
        elif c < 0.8:
            a, b = sorted([rng.random(), rng.random()])
        else:
            a, b = rng.choice([(0.0, 0.5), (0.25, 0.25), (0.5, 1.0), (0.0, 0.0)])
        ivs.append((a, b))
    return {"stream": stream, "pos": pos, "neg": neg, "ep": ep, "en": en, "sc": sc, "ec": ec,
            "ivs": ivs, "axes": rng.choice(AXES), "route": routes.pick(rng, 0.12), "rseed": rng.randint(0, 2**31 - 1),
            # built from two views of one caller buffer, with further objects built from overlapping regions afterwards
            "views": rng.random() < 0.15}


def nontrivial(inp):
    return (inp["ep"] > 0 or inp["en"] > 0 or (inp["sc"], inp["ec"]) != ("pos", "pos")
            or bool(set(inp["pos"]) & set(inp["neg"])) or len(set(inp["pos"])) < len(inp["pos"])
            or any(iv != [0.0, 1.0] and iv != (0.0, 1.0) for iv in inp["ivs"]))


def _o(x):
    return "nan" if math.isnan(x) else q(x)


def build(inp) -> Case:
    from score_analysis import Scores

    inp = dict(inp)
    pos, neg, ep, en, sc, ec = inp["pos"], inp["neg"], inp["ep"], inp["en"], inp["sc"], inp["ec"]
    pre0 = []
    if inp.get("views"):
        s, changed = routes.from_views(Scores, pos, neg, nb_easy_pos=ep, nb_easy_neg=en, score_class=sc, equal_class=ec)
        if changed:
            pre0.append(Issue("PROPFAIL", "mw", "constructing Scores objects from views of one score vector: " + changed +
                              " (the objects built earlier no longer hold the scores they were given)", "ctor/caller-array-modified"))
    else:
        s = Scores(pos, neg, nb_easy_pos=ep, nb_easy_neg=en, score_class=sc, equal_class=ec)
    routed = None
    if inp.get("route"):
        # the object reaches the query through an alternative route (harness/routes.py)
        r_ = routes.apply(s, inp["route"], inp.get("rseed", 0))
        if r_ is not None and r_[1] and r_[2]:
            s, pos, neg, ep, en, sc, ec = r_
            routed = inp["route"]
    pre, lines, blines, obs = pre0, [], [], []
    eps = Fraction(1, 10**9)
    queries = [(lo, hi, "fpr", "tpr") for lo, hi in inp["ivs"]]
    queries.append((inp["ivs"][1][0], inp["ivs"][1][1], inp["axes"][0], inp["axes"][1]))
    for lo, hi, xa, ya in queries:
        r = common.call(s.auc, lo, hi, x_axis=xa, y_axis=ya)
        if r[0] == "exc":
            pre.append(Issue("PROPFAIL", "raises", f"auc({lo},{hi},{xa},{ya}) raised {r[1]}: {r[2]}", f"auc/raises/{r[1]}"))
            v = math.nan
        else:
            v = float(r[1])
        obs.append(v)
        # The implementation compares the float limits with float rates k/N; a limit that equals
        # the double nearest to k/N is sent to the model as exactly k/N (same comparison outcome).
        nx = (len(pos) + ep) if xa in ("tpr", "fnr") else (len(neg) + en)

        def snap(v_):
            k_ = round(v_ * nx)
            return Fraction(k_, nx) if 0 <= k_ <= nx and k_ / nx == v_ else Fraction(v_)

        lines.append(line("auc", pos=ql(pos), neg=ql(neg), ep=ep, en=en, sc=sc, ec=ec, sorted=0,
                          lower=q(snap(lo)), upper=q(snap(hi)), xm=xa, ym=ya, eps=q(eps), obs=_o(v)))
        # second line per query: the theorem-derived bound between the float AUC and the exact model's (op `aucbound`)
        blines.append(line("aucbound", pos=ql(pos), neg=ql(neg), ep=ep, en=en, sc=sc, ec=ec, sorted=0,
                           lower=q(snap(lo)), upper=q(snap(hi)), xm=xa, ym=ya, u=q(U53)))
    xties = bool(set(pos) & set(neg))

    def A(lo, hi, xa="fpr", ya="tpr"):
        r = common.call(s.auc, lo, hi, x_axis=xa, y_axis=ya)
        return float(r[1]) if r[0] == "ok" else math.nan

    # relations between real runs (partial-AUC clauses need no cross-class ties)
    if not xties:
        lo, hi = inp["ivs"][1]
        mid = (lo + hi) / 2
        if abs(A(lo, mid) + A(mid, hi) - A(lo, hi)) > 1e-9:
            pre.append(Issue("PROPFAIL", "additive", f"auc[{lo},{mid}] + auc[{mid},{hi}] != auc[{lo},{hi}]: {A(lo, mid)} + {A(mid, hi)} vs {A(lo, hi)}", "auc/additive"))
        if abs(A(lo, hi, "fpr", "fnr") - ((hi - lo) - A(lo, hi))) > 1e-9:
            pre.append(Issue("PROPFAIL", "y-complement", f"auc fnr-vs-fpr over [{lo},{hi}] = {A(lo, hi, 'fpr', 'fnr')} but (hi-lo) - auc = {(hi - lo) - A(lo, hi)}", "auc/ycompl"))
        if abs(A(1 - hi, 1 - lo, "tnr", "tpr") - A(lo, hi)) > 1e-9:
            pre.append(Issue("PROPFAIL", "x-complement", f"auc(tnr axis) over [{1-hi},{1-lo}] = {A(1 - hi, 1 - lo, 'tnr', 'tpr')} vs auc over [{lo},{hi}] = {A(lo, hi)}", "auc/xcompl"))
    if abs(A(0.0, 1.0, "tpr", "fpr") - (1 - A(0.0, 1.0))) > 1e-9:
        pre.append(Issue("PROPFAIL", "axis-exchange", f"auc with axes exchanged {A(0.0, 1.0, 'tpr', 'fpr')} vs 1 - auc = {1 - A(0.0, 1.0)}", "auc/exchange"))
    # independence of equal_class
    other = Scores(pos, neg, nb_easy_pos=ep, nb_easy_neg=en, score_class=sc, equal_class="neg" if ec == "pos" else "pos")
    if abs(float(other.auc()) - A(0.0, 1.0)) > 1e-9:
        pre.append(Issue("PROPFAIL", "equal-class", f"full auc depends on equal_class: {float(other.auc())} vs {A(0.0, 1.0)}", "auc/equalclass"))
    inp["_evals"] = len(queries) + 6
    tags = [inp["stream"], f"cfg={sc},{ec}", "cross-ties" if xties else "no-cross-ties"]
    if ep or en:
        tags.append("easy")

    fl_ok_inputs = fl_in_range(pos) and fl_in_range(neg)
    nq = len(queries)

    def judge(outs):
        iss = []
        worst = None
        # --- float-bound: |impl - model| against aucEps (SA.Scores.auc_fl_error) wherever its guard holds
        for (lo, hi, xa, ya), v, o2 in zip(queries, obs, outs[nq:]):
            if "err" in o2 or not fl_ok_inputs or o2["ok"] != "1" or math.isnan(v) or math.isinf(v):
                continue
            if not fl_in_range([lo, hi]):
                continue
            m2 = common.pfrac(o2["auc"])
            if m2 is None:
                continue
            bound = Fraction(o2["eps"])
            d = abs(Fraction(v) - m2)
            ratio = d / bound if bound > 0 else (Fraction(0) if d == 0 else Fraction(10**6))
            worst = ratio if worst is None or ratio > worst else worst
            if d > FLBOUND_SLACK * bound:
                iss.append(Issue("DISAGREE", "float-bound", f"auc({lo},{hi},{xa},{ya}) impl={v} model={float(m2)} differ by "
                                 f"{float(d):.3e} > {FLBOUND_SLACK} x {float(bound):.3e} (theorem bound aucEps, {o2['n']} terms; "
                                 f"ratio {float(ratio):.2f})", f"auc/{xa}/{ya}/float-bound"))
        case.tags = case.tags + ("float-bound ratio " + fl_bucket(worst),)
        case.flratio = worst
        for (lo, hi, xa, ya), v, o in zip(queries, obs, outs[:nq]):
            m = common.pfrac(o["auc"])
            if not common.close(v, m, rel=Fraction(1, 10**9), abs_=Fraction(1, 10**9)):
                iss.append(Issue("DISAGREE", "auc", f"auc({lo},{hi},{xa},{ya}) impl={v} model={None if m is None else float(m)}", f"auc/{xa}/{ya}"))
            for cl in ("mw", "step", "bound"):
                if o["spec." + cl] != "1":
                    ref = o["mw"] if cl == "mw" else o["step"]
                    iss.append(Issue("PROPFAIL", cl, f"auc({lo},{hi},{xa},{ya}) = {v}; reference {cl} = {ref} ~ "
                                     f"{'nan' if ref == 'nan' else float(Fraction(ref))} (cfg {sc},{ec}, ep={ep}, en={en})", f"auc/{cl}"))
        return iss

    case = Case(ID, inp, lines + blines, None, tuple(tags), 0, pre)
    case.judge = judge
    return case


def shrink_candidates(inp):
    for key in ("pos", "neg"):
        xs = inp[key]
        if len(xs) > 1:
            for i in range(len(xs)):
                c = dict(inp); c[key] = xs[:i] + xs[i + 1:]; yield c
    for key in ("ep", "en"):
        if inp[key] > 0:
            c = dict(inp); c[key] = 0; yield c
            c = dict(inp); c[key] = 1; yield c
    if len(inp["ivs"]) > 2:
        for i in range(1, len(inp["ivs"])):
            c = dict(inp); c["ivs"] = [inp["ivs"][0], inp["ivs"][i]]; yield c
