"""C08 — results are symmetric under class swap, direction reversal and rescaling."""
from __future__ import annotations

import math
from fractions import Fraction

import numpy as np

import common
import gen
import thr_common
from common import Case, Issue, q, ql, il, line

ID = "C08"
LEVEL = "proof"
RULE = ("cases = Scores (exact dyadic and generic streams, ties, easy counts, 4 configurations) x thresholds x targets, "
        "each run together with swap(), with the negated object (score_class flipped) and with an affine image "
        "a*s+b (a in {1/2,2,4}, b dyadic); non-trivial = distinct input with ties, easy samples or a non-default configuration")
EXPLANATION = ("Theorems C08_swap_cm/_rates, C08_negate_cm, C08_affine_cm, C08_affine_threshold prove the matrix symmetries "
               "for all inputs and thresholds and the affine equivariance of every returned threshold. The correspondence "
               "run executes the original and the three transformed objects through the real API, ties each of them to "
               "the model (op cm), and evaluates the relations (Lean predicates swapOK/sameOK via op rel; thresholds, EER "
               "and AUC as relations between two real runs).")
TRUSTED_BASE = ["Lean 4.33 kernel", "axioms propext/Classical.choice/Quot.sound only",
                "hand-written model tied to /repo by this correspondence run", "harness and driver parsing"]
ASSUMPTIONS = ["affine matrix equality is compared on the exact stream (dyadic scores, so a*s+b is exact in floats)",
               "threshold/EER/AUC equivariance under negation and rescaling is compared up to a few ulp / 1e-9"]


def n_cases(tier):
    return 2000 if tier == "quick" else 16000


def gen_one(rng, i, tier):
    stream = "exact" if i % 2 == 0 else "generic"
    pos, neg = gen.score_sets(rng, stream, nmin=1, allow_empty=(rng.random() < 0.1))
    tiefree = False
    if rng.random() < 0.35 and pos and neg:
        pos, neg = gen.tiefree(rng, len(pos), len(neg), stream == "exact")
        tiefree = True
    a_, b_ = rng.choice([0.5, 2.0, 4.0, 2.0 ** -13, 2.0 ** 10]), rng.choice([0.0, 1.0, -0.75, 3.5])
    fmax = False
    if rng.random() < 0.04 and pos and neg:
        # scores of both signs next to the float maximum: the DIFFERENCE of two neighbouring scores is not representable
        # (the convex combination la*s_l + (1-la)*s_r is), same-sign sums stay finite; a power-of-two contraction is exact
        fmax, tiefree = True, True
        n_ = len(pos) + len(neg)
        vals = [-0.9e308, 0.9e308] + [rng.choice([-1.0, 1.0]) * rng.uniform(0.1e308, 0.85e308) for _ in range(n_)]
        vals = vals[:max(2, n_)]
        rng.shuffle(vals)
        k_ = max(1, min(len(vals) - 1, len(pos)))
        pos, neg = vals[:k_], vals[k_:]
        a_, b_ = rng.choice([0.5, 0.25]), 0.0
    ep, en = gen.easy_counts(rng, stream, len(pos), len(neg))
    sc, ec = rng.choice(gen.CFGS)
    ts = gen.thresholds(rng, pos, neg, k=6)
    rs = sorted(set([rng.random() for _ in range(3)] + [rng.choice([0.0, 1.0, 0.5, 0.25])]))
    return {"stream": stream, "pos": pos, "neg": neg, "ep": ep, "en": en, "sc": sc, "ec": ec, "ts": ts,
            "rs": rs, "a": a_, "b": b_, "fmax": fmax,
            # the classes held in arrays of different precision (model output float32, reference data float64)
            "mixdt": rng.choice([None, None, None, "f4f8", "f8f4"]),
            "tiefree": tiefree, "G": rng.choice([1, 2, 3]), "gsalt": rng.randint(0, 10**6),
            "tam": _gen_tam(rng, pos, neg)}


def _gen_tam(rng, pos, neg):
    """arguments of one threshold_at_metric call: None / k evenly spaced points / the caller's points"""
    if not pos or not neg or rng.random() < 0.3:
        return None
    lo, hi = min(pos + neg), max(pos + neg)
    kind = rng.choice(["none", "int", "int", "array"])
    if kind == "none":
        pts = None
    elif kind == "int":
        pts = rng.choice([2, 3, 5, 8, 17, rng.randint(2, 40)])
    else:
        pts = sorted(rng.uniform(lo - 0.1, hi + 0.1) for _ in range(rng.randint(2, 12)))
    return {"metric": rng.choice(gen.METRICS), "target": rng.uniform(0.03, 0.97), "points": pts}


def nontrivial(inp):
    return (inp["ep"] > 0 or inp["en"] > 0 or (inp["sc"], inp["ec"]) != ("pos", "pos")
            or len(set(inp["pos"])) < len(inp["pos"]) or bool(set(inp["pos"]) & set(inp["neg"])))


def _cells(s, ts):
    return thr_common.cells(s.cm(np.array(ts, dtype=float)))


def _ulps(x, k=8):
    return k * abs(np.spacing(x)) if math.isfinite(x) else 0.0


def build(inp) -> Case:
    from score_analysis import Scores

    inp = dict(inp)
    ts = [float(common.unjson_num(x)) for x in inp["ts"]]
    pos, neg, ep, en, sc, ec = inp["pos"], inp["neg"], inp["ep"], inp["en"], inp["sc"], inp["ec"]
    a, b = inp["a"], inp["b"]
    flip = {"pos": "neg", "neg": "pos"}
    pre = []
    lines = []
    s = Scores(pos, neg, nb_easy_pos=ep, nb_easy_neg=en, score_class=sc, equal_class=ec)
    c0 = _cells(s, ts)

    def cmline(p_, n_, ep_, en_, sc_, ec_, ts_, cells_):
        return line("cm", pos=ql(p_), neg=ql(n_), ep=ep_, en=en_, sc=sc_, ec=ec_, sorted=0,
                    ts=ql(ts_), icms=il(cells_))

    lines.append(cmline(pos, neg, ep, en, sc, ec, ts, c0))
    # ---- swap
    sw = s.swap()
    cs = _cells(sw, ts)
    lines.append(cmline(neg, pos, en, ep, flip[sc], flip[ec], ts, cs))
    lines.append(line("rel", kind="swap", a=il(c0), b=il(cs)))
    tarr = np.array(ts, dtype=float)
    for m1, m2 in (("fpr", "fnr"), ("tpr", "tnr"), ("topr", "tonr")):
        for x, y in ((m1, m2), (m2, m1)):
            u_, v_ = np.asarray(getattr(s, x)(tarr)), np.asarray(getattr(sw, y)(tarr))
            if not np.array_equal(u_, v_, equal_nan=True):
                pre.append(Issue("PROPFAIL", "swap-rates", f"{x} of original != {y} of swap(): {u_.tolist()} vs {v_.tolist()}", f"swap/{x}"))
    if sw.swap() != s:
        pre.append(Issue("PROPFAIL", "swap-involution", "swap().swap() differs from the original", "swap/involution"))
    if inp.get("mixdt") and pos and neg and not inp.get("fmax"):
        # one class float32, the other float64 (each float32 value is a float64 value, so the object holds well-defined
        # scores); thresholds equal to float64 scores that are not float32 numbers must be compared at full precision by
        # the object AND by its swap
        dp, dn = (np.float32, np.float64) if inp["mixdt"] == "f4f8" else (np.float64, np.float32)
        pa_, na_ = np.array(pos, dtype=dp), np.array(neg, dtype=dn)
        mp_, mn_ = [float(x) for x in pa_], [float(x) for x in na_]
        sm = Scores(pa_, na_, nb_easy_pos=ep, nb_easy_neg=en, score_class=sc, equal_class=ec)
        smw = sm.swap()
        mts = ts + [float(x) for x in (mn_ if dp == np.float32 else mp_)][:6]
        cm0, cm1 = _cells(sm, mts), _cells(smw, mts)
        lines.append(cmline(mp_, mn_, ep, en, sc, ec, mts, cm0))
        lines.append(cmline(mn_, mp_, en, ep, flip[sc], flip[ec], mts, cm1))
        lines.append(line("rel", kind="swap", a=il(cm0), b=il(cm1)))
        marr = np.array(mts, dtype=float)
        for m1, m2 in (("fpr", "fnr"), ("tpr", "tnr"), ("topr", "tonr")):
            for x, y in ((m1, m2), (m2, m1)):
                u_, v_ = np.asarray(getattr(sm, x)(marr)), np.asarray(getattr(smw, y)(marr))
                if not np.array_equal(u_, v_, equal_nan=True):
                    pre.append(Issue("PROPFAIL", "swap-rates", f"classes of mixed precision ({inp['mixdt']}): {x} of original != {y} of swap() "
                                     f"at thresholds {mts}: {u_.tolist()} vs {v_.tolist()}", f"swap/{x}/mixed-precision"))
    # ---- negation
    npos, nneg = [-x for x in pos], [-x for x in neg]
    sn = Scores(npos, nneg, nb_easy_pos=ep, nb_easy_neg=en, score_class=flip[sc], equal_class=ec)
    nts = [-t for t in ts]
    cn = _cells(sn, nts)
    lines.append(cmline(npos, nneg, ep, en, flip[sc], ec, nts, cn))
    lines.append(line("rel", kind="same", a=il(c0), b=il(cn)))
    # ---- affine (exact stream only for matrices)
    apos, aneg = [a * x + b for x in pos], [a * x + b for x in neg]
    sa = Scores(apos, aneg, nb_easy_pos=ep, nb_easy_neg=en, score_class=sc, equal_class=ec)
    if inp["stream"] == "exact":
        # only thresholds whose image a*t+b is computed exactly in floating point
        keep = [k for k, t in enumerate(ts) if math.isinf(t)
                or Fraction(a * t + b) == Fraction(a) * Fraction(t) + Fraction(b)]
        ats = [a * ts[k] + b for k in keep]
        ca = _cells(sa, ats)
        c0k = [v for k in keep for v in c0[4 * k:4 * k + 4]]
        lines.append(cmline(apos, aneg, ep, en, sc, ec, ats, ca))
        lines.append(line("rel", kind="same", a=il(c0k), b=il(ca)))
    # ---- integer-dtype objects (both classes int64) at NON-INTEGER thresholds of both signs: negation with the flipped
    # score_class keeps every matrix at the negated threshold, and an integer shift keeps it at the shifted threshold
    if pos and neg and not inp.get("fmax") and inp.get("gsalt", 0) % 4 == 0:
        pi_, ni_ = [int(round(x)) for x in pos], [int(round(x)) for x in neg]
        sh_ = 10 + inp.get("gsalt", 0) % 7
        oi = Scores(np.array(pi_, dtype=np.int64), np.array(ni_, dtype=np.int64), nb_easy_pos=ep, nb_easy_neg=en, score_class=sc, equal_class=ec)
        oin = Scores(-np.array(pi_, dtype=np.int64), -np.array(ni_, dtype=np.int64), nb_easy_pos=ep, nb_easy_neg=en,
                     score_class=flip[sc], equal_class=ec)
        ois = Scores(np.array(pi_, dtype=np.int64) - sh_, np.array(ni_, dtype=np.int64) - sh_, nb_easy_pos=ep, nb_easy_neg=en,
                     score_class=sc, equal_class=ec)
        vals_ = sorted(set(pi_ + ni_))[:6]
        tsi = [float(v) + d for v in vals_ for d in (-0.5, 0.0, 0.25)] + [-abs(float(v)) - 0.5 for v in vals_[:3]]
        ci0, ci1, ci2 = _cells(oi, tsi), _cells(oin, [-t for t in tsi]), _cells(ois, [t - sh_ for t in tsi])
        lines.append(cmline([float(v) for v in pi_], [float(v) for v in ni_], ep, en, sc, ec, tsi, ci0))
        lines.append(line("rel", kind="same", a=il(ci0), b=il(ci1)))
        lines.append(line("rel", kind="same", a=il(ci0), b=il(ci2)))
    # ---- thresholds, EER, AUC: relations between two real runs
    scale = max([1.0] + [abs(x) for x in pos + neg])
    # integer-dtype objects and the lower/higher methods under an affine map (a, b integers so that
    # the image is integer-valued as well): every method's threshold must be mapped by t -> a*t+b
    if all(x == round(x) for x in pos + neg) and pos and neg and not inp.get("fmax"):
        ai, bi = int(max(1, round(a))) * 2, int(round(b)) + 1
        si = Scores(np.array(pos, dtype=int), np.array(neg, dtype=int), nb_easy_pos=ep, nb_easy_neg=en,
                    score_class=sc, equal_class=ec)
        sj = Scores(ai * np.array(pos, dtype=int) + bi, ai * np.array(neg, dtype=int) + bi, nb_easy_pos=ep,
                    nb_easy_neg=en, score_class=sc, equal_class=ec)
        for metric in gen.METRICS:
            for meth in gen.METHODS:
                for r in list(inp["rs"]) + [0.0, 1.0]:
                    u0 = common.call(getattr(si, "threshold_at_" + metric), r, method=meth)
                    u1 = common.call(getattr(sj, "threshold_at_" + metric), r, method=meth)
                    if u0[0] == "exc" or u1[0] == "exc":
                        pre.append(Issue("PROPFAIL", "raises", f"threshold_at_{metric}({r},{meth}) on int scores raised: {u0[1:]} {u1[1:]}", f"thr/{metric}/raises"))
                        continue
                    t0, t1 = float(u0[1]), float(u1[1])
                    if abs(t1 - (ai * t0 + bi)) > ai * _ulps(t0) + _ulps(t1) + 1e-12 * scale * ai:
                        pre.append(Issue("PROPFAIL", "affine-threshold", f"int scores, threshold_at_{metric}({r},{meth}): original {t0}, "
                                         f"image under {ai}*s+{bi} gives {t1}, expected {ai*t0+bi}", f"thr/{metric}/affine-int"))
    if pos and neg and inp.get("gsalt", 0) % 3 == 0:
        # ASYMMETRIC call histories: the three objects have been asked different things before (the relations are between
        # objects, whatever each was asked earlier)
        for o_, calls_ in ((s, (("threshold_at_topr", 0.4), ("threshold_at_tonr", 0.6))),
                           (sa, (("threshold_at_fnr", 0.2), ("eer", None), ("threshold_at_tnr", 0.7))),
                           (sn, (("threshold_at_fpr", 0.3),))):
            for nm_, a_ in calls_:
                common.call(getattr(o_, nm_), *(() if a_ is None else (a_,)))
    # (scores next to the float maximum: threshold SETTING is claimed for scores of moderate magnitude (C02, C06) - there the
    # textbook interpolation lo + w*(hi - lo) is as good as (1-w)*lo + w*hi - so only the counting clauses (matrices under swap /
    # negation / contraction, AUC) are judged on them, not the returned thresholds)
    for metric in ([] if inp.get("fmax") else gen.METRICS):
        arr_empty = (len(pos) == 0 and metric in ("tpr", "fnr")) or (len(neg) == 0 and metric in ("tnr", "fpr")) \
            or (len(pos) + len(neg) == 0)
        for r, meth in [(r_, "linear") for r_ in inp["rs"]] + [(r_, m_) for r_ in inp["rs"] if (r_ * 64) != round(r_ * 64) for m_ in ("lower", "higher")][:6]:
            # (lower/higher jump where target * N is a whole number; a target on that grid is decided by float noise in
            # 1 - r and r - 1/N, which differs between the two objects, so only off-grid targets are compared)
            # every method: `lower` / `higher` are defined through the metric's value, which negation with a flipped
            # score_class preserves, so the same method gives the negated threshold (theorem C08_negate_threshold_methods)
            kwm = {} if meth == "linear" else {"method": meth}
            r0 = common.call(getattr(s, "threshold_at_" + metric), r, **kwm)
            r1 = common.call(getattr(sn, "threshold_at_" + metric), r, **kwm)
            r2 = common.call(getattr(sa, "threshold_at_" + metric), r, **kwm)
            if arr_empty:
                if not (r0[0] == r1[0] == r2[0] == "exc"):
                    pre.append(Issue("PROPFAIL", "error-symmetry", f"threshold_at_{metric} error behaviour differs", f"thr/{metric}/error"))
                continue
            if "exc" in (r0[0], r1[0], r2[0]):
                pre.append(Issue("PROPFAIL", "raises", f"threshold_at_{metric}({r}) raised: {r0[1:]}, {r1[1:]}, {r2[1:]}", f"thr/{metric}/raises"))
                continue
            t0, t1, t2 = float(r0[1]), float(r1[1]), float(r2[1])
            if abs(t1 + t0) > _ulps(t0) + 1e-12 * scale:
                pre.append(Issue("PROPFAIL", "negate-threshold", f"threshold_at_{metric}({r}, {meth}): original {t0}, negated object {t1}", f"thr/{metric}/negate"))
            if abs(t2 - (a * t0 + b)) > a * _ulps(t0) + _ulps(t2) + 1e-12 * scale * a:
                pre.append(Issue("PROPFAIL", "affine-threshold", f"threshold_at_{metric}({r}, {meth}): original {t0}, image {t2}, expected {a*t0+b}", f"thr/{metric}/affine"))
    # ---- the general threshold search (threshold_at_metric) under negation and the affine map: its evaluation grid
    # (all scores, k evenly spaced points, or the caller's points mapped along) is mapped by the same map, the metric
    # values on it are unchanged, so every returned solution is mapped too
    tam_skipped = 0
    if pos and neg and inp.get("tam") and not inp.get("fmax"):
        tam = inp["tam"]
        mname, target, pts = tam["metric"], tam["target"], tam["points"]

        def tam_call(obj, pts_):
            r_ = common.call(obj.threshold_at_metric, target, mname, pts_)
            return r_ if r_[0] == "exc" else ("ok", np.asarray(r_[1], dtype=float).reshape(-1))
        p0 = pts if not isinstance(pts, list) else np.array(pts, dtype=float)
        p1 = pts if not isinstance(pts, list) else -np.array(pts, dtype=float)[::-1]
        p2 = pts if not isinstance(pts, list) else a * np.array(pts, dtype=float) + b
        q0, q1, q2 = tam_call(s, p0), tam_call(sn, p1), tam_call(sa, p2)
        allsc = np.sort(np.concatenate([np.asarray(pos, dtype=float), np.asarray(neg, dtype=float)]))
        if pts is None:
            grid, interior = allsc, np.zeros(0)
        elif isinstance(pts, int):
            grid = np.linspace(allsc[0], allsc[-1], pts, endpoint=True) if allsc[0] < allsc[-1] else allsc[:1]
            interior = grid[1:-1]
        else:
            grid = interior = np.asarray(pts, dtype=float)
        # The relations are judged when nothing hinges on a comparison of (nearly) equal floats computed along two routes:
        # the target is not attained at a grid point, and no computed grid point sits on a score (the metric jumps there;
        # the end points of an evenly spaced grid ARE scores in every one of the three objects, exactly).
        vals = np.asarray(getattr(s, mname)(grid), dtype=float)
        clear = bool(np.all(np.abs(vals - target) > 1e-9)) and (
            len(interior) == 0 or bool(np.min(np.abs(interior[:, None] - allsc[None, :])) > 1e-7 * scale))
        # without a crossing the answer is the single closest sample point, first one in grid order among equally close
        # ones: not a symmetric notion, so the relations are claimed for targets the sampled metric crosses
        clear = clear and len(vals) > 1 and bool(np.any((vals[:-1] - target) * (vals[1:] - target) < 0))
        if q0[0] == "ok" and clear:
            for nm_, q_, img in (("negated", q1, np.sort(-q0[1])), ("affine image", q2, a * q0[1] + b)):
                if q_[0] == "exc":
                    pre.append(Issue("PROPFAIL", "raises", f"threshold_at_metric({target}, {mname}, points={pts}) raised on the {nm_} "
                                     f"object: {q_[1:]}", "tam/raises"))
                elif len(q_[1]) != len(img) or not np.allclose(np.sort(q_[1]), img, rtol=1e-9, atol=1e-9 * scale * max(a, 1.0)):
                    pre.append(Issue("PROPFAIL", "negate-threshold" if nm_ == "negated" else "affine-threshold",
                                     f"threshold_at_metric({target}, {mname}, points={pts}): original {q0[1].tolist()[:6]}, {nm_} object "
                                     f"{q_[1].tolist()[:6]}, expected {img.tolist()[:6]}", f"tam/{mname}/{'negate' if nm_ == 'negated' else 'affine'}" + (
                                         "/range-overflow" if isinstance(pts, int) and not np.isfinite(allsc[-1] - allsc[0]) else "")))
        elif q0[0] == "ok":
            tam_skipped = 1
    if pos and neg:
        e0, e1, e2 = (common.call(s.eer), common.call(sn.eer), common.call(sa.eer)) if not inp.get("fmax") else (("ok", (0.0, 0.0)),) * 3
        if "exc" in (e0[0], e1[0], e2[0]):
            pre.append(Issue("PROPFAIL", "raises", f"eer raised: {e0[1:]} {e1[1:]} {e2[1:]}", "eer/raises"))
        else:
            (t0, v0), (t1, v1), (t2, v2) = e0[1], e1[1], e2[1]
            # with ties the EER is only determined up to the tie block (C06), so both EER relations
            # are claimed for tie-free scores
            if inp["tiefree"] and (abs(v2 - v0) > 1e-8 or abs(t2 - (a * t0 + b)) > 1e-7 * scale * a + 1e-9):
                pre.append(Issue("PROPFAIL", "affine-eer", f"eer original {(t0, v0)}, image {(t2, v2)}", "eer/affine"))
            if inp["tiefree"] and (abs(v1 - v0) > 1e-8 or abs(t1 + t0) > 1e-7 * scale + 1e-9):
                pre.append(Issue("PROPFAIL", "negate-eer", f"eer original {(t0, v0)}, negated {(t1, v1)}", "eer/negate"))
        for lo, hi in ((0.0, 1.0), (0.1, 0.6)):
            a0, a1, a2 = common.call(s.auc, lo, hi), common.call(sn.auc, lo, hi), common.call(sa.auc, lo, hi)
            if "exc" in (a0[0], a1[0], a2[0]):
                pre.append(Issue("PROPFAIL", "raises", f"auc raised: {a0[1:]} {a1[1:]} {a2[1:]}", "auc/raises"))
            elif abs(a1[1] - a0[1]) > 1e-9 or abs(a2[1] - a0[1]) > 1e-9:
                pre.append(Issue("PROPFAIL", "auc-symmetry", f"auc[{lo},{hi}] original {a0[1]}, negated {a1[1]}, image {a2[1]}", "auc/symmetry"))
    # ---- the same three symmetries for GroupScores (group_scores.py: swap() and the per-group objects): per-group
    # matrices / rates of the transformed object against those of the original, group by group
    if pos and neg and inp.get("G"):
        from score_analysis import GroupScores
        G, salt = inp["G"], inp.get("gsalt", 0)
        pg = ["g%d" % ((k * 7 + salt) % G) for k in range(len(pos))]
        ng = ["g%d" % ((k * 5 + salt // 7) % G) for k in range(len(neg))]

        def mk(p_, n_, sc_, ec_):
            return GroupScores(p_, n_, pos_groups=pg, neg_groups=ng, score_class=sc_, equal_class=ec_)

        def gcm(o_, t_):
            r_ = common.call(o_.group_cm, np.array(t_, dtype=float))
            return r_ if r_[0] == "exc" else ("ok", np.asarray(r_[1].matrix if hasattr(r_[1], "matrix") else r_[1]))

        g0 = common.call(mk, pos, neg, sc, ec)
        if g0[0] == "exc":
            pre.append(Issue("PROPFAIL", "raises", f"GroupScores(...) raised {g0[1]}: {g0[2]}", "group/raises"))
        else:
            gs = g0[1]
            gsw = common.call(gs.swap)
            if gsw[0] == "exc":
                pre.append(Issue("PROPFAIL", "raises", f"GroupScores.swap() raised {gsw[1]}: {gsw[2]}", "group/raises"))
            else:
                for m1, m2 in (("fpr", "fnr"), ("tpr", "tnr"), ("topr", "tonr")):
                    for x, y in ((m1, m2), (m2, m1)):
                        u_ = common.call(getattr(gs, "group_" + x), tarr)
                        v_ = common.call(getattr(gsw[1], "group_" + y), tarr)
                        if u_[0] == "exc" or v_[0] == "exc" or not np.array_equal(np.asarray(u_[1]), np.asarray(v_[1]), equal_nan=True):
                            pre.append(Issue("PROPFAIL", "swap-rates", f"GroupScores (groups {pg}/{ng}): group_{x} of the original != group_{y} "
                                             f"of swap() at {ts}: {u_[1] if u_[0]=='exc' else np.asarray(u_[1]).tolist()} vs "
                                             f"{v_[1] if v_[0]=='exc' else np.asarray(v_[1]).tolist()}", f"group/swap/{x}"))
            m0 = gcm(gs, ts)
            gn_ = common.call(mk, npos, nneg, flip[sc], ec)
            m1_ = gcm(gn_[1], nts) if gn_[0] == "ok" else gn_
            if m0[0] == "exc" or m1_[0] == "exc":
                pre.append(Issue("PROPFAIL", "raises", f"GroupScores.group_cm raised: {m0[1:]}, {m1_[1:]}", "group/raises"))
            elif not np.array_equal(m0[1], m1_[1]):
                pre.append(Issue("PROPFAIL", "relation-same", f"GroupScores (groups {pg}/{ng}): group_cm({ts}) = {m0[1].tolist()} but the negated "
                                 f"object with flipped score_class gives {m1_[1].tolist()} at the negated thresholds", "group/negate"))
            if inp["stream"] == "exact":
                ga_ = common.call(mk, apos, aneg, sc, ec)
                m2_ = gcm(ga_[1], ats) if ga_[0] == "ok" else ga_
                m0k = gcm(gs, [ts[k] for k in keep])
                if m2_[0] == "exc" or m0k[0] == "exc":
                    pre.append(Issue("PROPFAIL", "raises", f"GroupScores.group_cm raised: {m2_[1:]}", "group/raises"))
                elif not np.array_equal(m0k[1], m2_[1]):
                    pre.append(Issue("PROPFAIL", "relation-same", f"GroupScores (groups {pg}/{ng}): group_cm differs between the original and "
                                     f"its image under {a}*s+{b} at the mapped thresholds", "group/affine"))
    inp["_evals"] = 4 * len(ts) + 18 * len(inp["rs"]) + 8
    tags = [inp["stream"], f"cfg={sc},{ec}"]
    if ep or en:
        tags.append("easy")
    if inp["tiefree"]:
        tags.append("tiefree")

    def judge(outs):
        iss = []
        for ln, o in zip(lines, outs):
            op = ln.split(" ", 1)[0]
            if op == "cm":
                icms = ln.split("icms=")[1].split(" ")[0]
                if o["ms"] != icms:
                    iss.append(Issue("DISAGREE", "cm", f"model={o['ms']} impl={icms}", "cm/cells"))
                if "0" in common.plist(o["spec.cells"]):
                    iss.append(Issue("PROPFAIL", "cells", f"a transformed object's matrix is not the count by the decision rule: {ln[:200]}", "cm/cells"))
            else:
                kind = "swap" if "kind=swap" in ln else "same"
                for k, bit in enumerate(common.plist(o["spec.rel"])):
                    if bit != "1":
                        iss.append(Issue("PROPFAIL", "relation-" + kind, f"threshold index {k} ({ts[k] if k < len(ts) else 'extra'}): {ln[:300]}", f"rel/{kind}"))
                        break
        return iss

    if inp.get("fmax"):
        tags.append("scores-near-float-max")
    if inp.get("mixdt"):
        tags.append("mixed-precision:" + inp["mixdt"])
    if inp.get("tam"):
        tags.append("threshold_at_metric:" + ("none" if inp["tam"]["points"] is None else
                                              "int" if isinstance(inp["tam"]["points"], int) else "array"))
    return Case(ID, inp, lines, judge, tuple(tags), tam_skipped, pre)


def shrink_candidates(inp):
    for key in ("pos", "neg"):
        xs = inp[key]
        if len(xs) > 1:
            for i in range(len(xs)):
                c = dict(inp); c[key] = xs[:i] + xs[i + 1:]; yield c
    for key in ("ts", "rs"):
        if len(inp[key]) > 1:
            for i in range(len(inp[key])):
                c = dict(inp); c[key] = inp[key][:i] + inp[key][i + 1:]; yield c
    for key in ("ep", "en"):
        if inp[key] > 0:
            c = dict(inp); c[key] = 0; yield c


# --------------------------------------------------------------------------------------
# second tie: the decision tables of this property regenerated from the source on every run
# (harness/dectables.py -> generated Lean file checked by the kernel; bridge: SA/Theorems/DecTables.lean)
# --------------------------------------------------------------------------------------
def extra_gate_start():
    """start the translator + Lean check in a child process; the cases run meanwhile"""
    import common
    import dectables
    return dectables.start(common.REPO)


def extra_gate_finish(handle):
    """-> {problems, theorems, obligations, discharged, notes, evidence}; a definite mismatch of a table row is a
    broken proof obligation, `unknown` rows are evidence only"""
    import dectables
    return dectables.gate_result(dectables.finish(handle), ID)
