"""C09 — virtual easy samples behave exactly like materialised extreme scores."""
from __future__ import annotations

import math

import numpy as np

import common
import gen
import thr_common
from common import Case, Issue, q, ql, il, line

ID = "C09"
LEVEL = "proof"
RULE = ("cases = Scores with both classes non-empty x (k, m) easy counts in 0..30 x 4 configurations; each is run with "
        "declared easy samples and with the same samples materialised as extreme scores beyond all others on their own "
        "class's side; thresholds strictly inside the materialised range, targets for all six metrics, full and partial "
        "AUC; non-trivial = distinct input with k+m > 0 and ties or a non-default configuration")
EXPLANATION = ("Theorem C09_cm proves for all lists, counts, configurations and thresholds at which the materialised positive "
               "is accepted and the materialised negative rejected that both objects have the same confusion matrix "
               "(C09_side_pos/neg: this is the case strictly inside the materialised range). The correspondence run ties "
               "both real objects to the model (op cm) and evaluates the relation on observed matrices; equality of "
               "thresholds (within the range of the scored samples, up to a few ulp) and of full/partial AUC is evaluated "
               "as a relation between two real runs.")
TRUSTED_BASE = ["Lean 4.33 kernel", "axioms propext/Classical.choice/Quot.sound only",
                "hand-written model tied to /repo by this correspondence run", "harness and driver parsing"]
ASSUMPTIONS = ["threshold and AUC equivalence are evaluated on every case, not proved (statements_only)"]


def n_cases(tier):
    return 600 if tier == "quick" else 6000


def _gen_big(rng):
    """a class of 2**19 tie-free scored samples with a few easy ones: targets whose materialised threshold lies among the
    last scored samples next to the easy ones are within 1e-5 (relative) of the end of the rescaled range"""
    n = 2 ** 19
    k, m = rng.choice([20, 50]), rng.choice([3, 7])
    small = [0.25 + j for j in range(8)]
    if rng.random() < 0.5:
        pos, neg, nk = {"range": n, "off": 0.0}, small, k
    else:
        pos, neg, nk = small, {"range": n, "off": 0.0}, m
    sc, ec = rng.choice(gen.CFGS)
    cs = [1.5, 3.7, rng.choice([2.5, 4.2])]
    rs = sorted(set([(nk + c) / (n + nk) for c in cs] + [1 - (nk + c) / (n + nk) for c in cs] + [rng.random(), 0.5]))
    return {"stream": "generic", "pos": pos, "neg": neg, "k": k, "m": m, "sc": sc, "ec": ec, "ts": [3.5, 1000.25, float(n - 3)],
            "rs": rs, "delta": 1.0, "big": n}


def gen_one(rng, i, tier):
    if i % 150 == 75:
        return _gen_big(rng)
    stream = "exact" if i % 2 == 0 else "generic"
    pos, neg = gen.score_sets(rng, stream, nmin=1, allow_empty=False)
    if len(pos) > 40:
        pos, neg = pos[:40], neg[:40]
    k = rng.choice([0, 1, 2, 3, 5, 8, 30])
    m = rng.choice([0, 1, 2, 4, 7, 30])
    sc, ec = rng.choice(gen.CFGS)
    ts = gen.thresholds(rng, pos, neg, k=6)
    rs = sorted(set([rng.random() for _ in range(4)] + [rng.choice([0.5, 0.25, 0.75])]))
    return {"stream": stream, "pos": pos, "neg": neg, "k": k, "m": m, "sc": sc, "ec": ec, "ts": ts,
            "rs": rs, "delta": rng.choice([0.5, 1.0, 10.0])}


def nontrivial(inp):
    if inp.get("big"):
        return True
    return (inp["k"] + inp["m"] > 0) and ((inp["sc"], inp["ec"]) != ("pos", "pos")
                                          or len(set(inp["pos"])) < len(inp["pos"])
                                          or bool(set(inp["pos"]) & set(inp["neg"])) or inp["k"] * inp["m"] > 0)


def _ulps(x, k=8):
    return k * abs(np.spacing(x)) if math.isfinite(x) else 0.0


def build(inp) -> Case:
    from score_analysis import Scores

    inp = dict(inp)
    pos, neg, k, m, sc, ec = (thr_common.expand_scores(inp["pos"]), thr_common.expand_scores(inp["neg"]), inp["k"], inp["m"],
                              inp["sc"], inp["ec"])
    allv = pos + neg
    lo, hi = min(allv), max(allv)
    d = inp["delta"]
    Mp, Mn = (hi + d, lo - d) if sc == "pos" else (lo - d, hi + d)
    ts = [float(common.unjson_num(t)) for t in inp["ts"]]
    ts = [t for t in ts if min(Mp, Mn) < t < max(Mp, Mn)]
    pre, lines = [], []
    if len(pos) + len(neg) < 5000 and (len(pos) * 7 + len(neg) * 3 + k + m) % 4 == 0:
        # the object with easy samples obtained through the labelled-data route (labels + scores, any order)
        lab_ = np.array([1] * len(pos) + [0] * len(neg))
        sco_ = np.array(pos + neg, dtype=float)
        perm_ = np.random.RandomState((len(pos) * 31 + len(neg) * 17 + k * 7 + m) % (2**31)).permutation(len(lab_))
        e = Scores.from_labels(lab_[perm_], sco_[perm_], pos_label=1, nb_easy_pos=k, nb_easy_neg=m, score_class=sc, equal_class=ec)
    else:
        e = Scores(pos, neg, nb_easy_pos=k, nb_easy_neg=m, score_class=sc, equal_class=ec)
    mpos, mneg = pos + [Mp] * k, neg + [Mn] * m
    mt = Scores(mpos, mneg, score_class=sc, equal_class=ec)
    ce = thr_common.cells(e.cm(np.array(ts)))
    cmt = thr_common.cells(mt.cm(np.array(ts)))
    lines.append(line("cm", pos=ql(pos), neg=ql(neg), ep=k, en=m, sc=sc, ec=ec, sorted=0, ts=ql(ts), icms=il(ce)))
    lines.append(line("cm", pos=ql(mpos), neg=ql(mneg), ep=0, en=0, sc=sc, ec=ec, sorted=0, ts=ql(ts), icms=il(cmt)))
    lines.append(line("rel", kind="same", a=il(ce), b=il(cmt)))
    # the same thresholds in scalar form (Python float, NumPy scalar, 0-d array): counts of a scalar query are immutable
    # NumPy integers, an in-place "+=" of the easy counts on them is a rebinding
    if not inp.get("big"):
        for j_, t_ in enumerate(ts[:4]):
            for form, arg in (("float", float(t_)), ("np.float64", np.float64(t_)), ("0-d array", np.array(t_))):
                r0, r1 = common.call(e.cm, arg), common.call(mt.cm, arg)
                if r0[0] == "exc" or r1[0] == "exc":
                    pre.append(Issue("PROPFAIL", "raises", f"cm({form} {t_}) raised: {r0[1:]} / {r1[1:]}", "cm/scalar/raises"))
                    continue
                c0, c1 = thr_common.cells(r0[1]), thr_common.cells(r1[1])
                if c0 != c1 or c0 != ce[4 * j_:4 * j_ + 4]:
                    pre.append(Issue("PROPFAIL", "relation-same", f"cm({form} {t_}): easy {c0} vs materialised {c1}; the array query "
                                     f"gave {ce[4 * j_:4 * j_ + 4]} (k={k}, m={m}, cfg={sc},{ec})", "cm/scalar-form"))
                    break
    # AUC: full and partial, several axis pairs
    for (lo_, hi_, xa, ya) in ((0.0, 1.0, "fpr", "tpr"), (0.1, 0.7, "fpr", "tpr"), (0.0, 0.3, "fnr", "tnr"),
                               (0.2, 1.0, "fpr", "fnr"), (0.0, 1.0, "tpr", "fpr")):
        a0 = common.call(e.auc, lo_, hi_, x_axis=xa, y_axis=ya)
        a1 = common.call(mt.auc, lo_, hi_, x_axis=xa, y_axis=ya)
        if a0[0] == "exc" or a1[0] == "exc":
            pre.append(Issue("PROPFAIL", "raises", f"auc raised: {a0[1:]} / {a1[1:]}", "auc/raises"))
        elif abs(float(a0[1]) - float(a1[1])) > 1e-9:
            pre.append(Issue("PROPFAIL", "auc", f"auc[{lo_},{hi_}] {xa}/{ya}: easy {a0[1]} vs materialised {a1[1]} (k={k}, m={m}, cfg={sc},{ec})", f"auc/{xa}/{ya}"))
    # thresholds: when the materialised threshold lies within [min,max] of the relevant scored samples
    scale = max(1.0, abs(lo), abs(hi))
    nthr = 0
    for metric in gen.METRICS:
        rel = pos if metric in ("tpr", "fnr") else neg if metric in ("tnr", "fpr") else allv
        rmin, rmax = min(rel), max(rel)
        for r in inp["rs"]:
            t1 = common.call(getattr(mt, "threshold_at_" + metric), r)
            t0 = common.call(getattr(e, "threshold_at_" + metric), r)
            if t0[0] == "exc" or t1[0] == "exc":
                pre.append(Issue("PROPFAIL", "raises", f"threshold_at_{metric}({r}) raised: {t0[1:]} / {t1[1:]}", f"thr/{metric}/raises"))
                continue
            t0, t1 = float(t0[1]), float(t1[1])
            if rmin <= t1 <= rmax:
                nthr += 1
                if abs(t0 - t1) > _ulps(t1) + 1e-12 * scale:
                    pre.append(Issue("PROPFAIL", "threshold", f"threshold_at_{metric}({r}): easy {t0} vs materialised {t1} "
                                     f"(k={k}, m={m}, cfg={sc},{ec})", f"thr/{metric}/easy"))
    # after these queries (which read the easy / hard ratios), swap(): the swapped object must answer like a freshly built
    # object with the classes, easy counts and both flags exchanged - also for the ratio-dependent thresholds
    if not inp.get("big") and pos and neg:
        flip = {"pos": "neg", "neg": "pos"}
        sw = common.call(e.swap)
        fresh_sw = Scores(neg, pos, nb_easy_pos=m, nb_easy_neg=k, score_class=flip[sc], equal_class=flip[ec])
        if sw[0] == "exc":
            pre.append(Issue("PROPFAIL", "raises", f"swap() raised {sw[1]}: {sw[2]}", "swap/raises"))
        else:
            for metric in gen.METRICS:
                for r in inp["rs"][:3]:
                    a_, b_ = common.call(getattr(sw[1], "threshold_at_" + metric), r), common.call(getattr(fresh_sw, "threshold_at_" + metric), r)
                    if a_[0] != b_[0] or (a_[0] == "ok" and float(a_[1]) != float(b_[1])):
                        pre.append(Issue("PROPFAIL", "threshold", f"after queries on the object, swap().threshold_at_{metric}({r}) = "
                                         f"{a_[1]} but a freshly built swapped object gives {b_[1]} (k={k}, m={m}, cfg={sc},{ec})",
                                         f"thr/{metric}/swap-after-history"))
                        break
    # the same targets as ONE float64 array that the caller keeps: first the object with virtual easy samples, then the
    # materialised one (a target array rescaled in place by the first call reaches the second one changed)
    rs_arr = np.array(inp["rs"], dtype=float)
    for metric in gen.METRICS:
        rel = pos if metric in ("tpr", "fnr") else neg if metric in ("tnr", "fpr") else allv
        rmin, rmax = min(rel), max(rel)
        a0 = common.call(getattr(e, "threshold_at_" + metric), rs_arr)
        changed = not np.array_equal(rs_arr, np.array(inp["rs"], dtype=float))
        a1 = common.call(getattr(mt, "threshold_at_" + metric), rs_arr)
        if a0[0] == "exc" or a1[0] == "exc":
            continue
        v0, v1 = np.asarray(a0[1], dtype=float).reshape(-1), np.asarray(a1[1], dtype=float).reshape(-1)
        ref1 = [common.call(getattr(mt, "threshold_at_" + metric), r) for r in inp["rs"]]
        for j_, r in enumerate(inp["rs"]):
            if ref1[j_][0] != "ok" or len(v0) != len(inp["rs"]) or len(v1) != len(inp["rs"]):
                continue
            t1s = float(ref1[j_][1])
            if rmin <= t1s <= rmax and (abs(v0[j_] - v1[j_]) > _ulps(t1s) + 1e-12 * scale or changed):
                pre.append(Issue("PROPFAIL", "threshold", f"threshold_at_{metric}(targets) with the targets {inp['rs']} in one array "
                                 f"used for both objects: easy {v0.tolist()} vs materialised {v1.tolist()}; the array "
                                 f"{'was changed to ' + str(rs_arr.tolist()) if changed else 'is unchanged'} (k={k}, m={m}, cfg={sc},{ec})",
                                 f"thr/{metric}/easy-array"))
                break
        rs_arr = np.array(inp["rs"], dtype=float)
    inp["_evals"] = 2 * len(ts) + 5 + nthr
    tags = [inp["stream"], f"cfg={sc},{ec}", f"k={'0' if k == 0 else '+'},m={'0' if m == 0 else '+'}"]

    def judge(outs):
        iss = []
        for ln, o in zip(lines[:2], outs[:2]):
            icms = ln.split("icms=")[1].split(" ")[0]
            if o["ms"] != icms:
                iss.append(Issue("DISAGREE", "cm", f"model={o['ms']} impl={icms}", "cm/cells"))
            if "0" in common.plist(o["spec.cells"]):
                iss.append(Issue("PROPFAIL", "cells", f"matrix is not the count by the decision rule: {ln[:200]}", "cm/cells"))
        for j, bit in enumerate(common.plist(outs[2]["spec.rel"])):
            if bit != "1":
                iss.append(Issue("PROPFAIL", "cm-equivalence", f"threshold {ts[j]}: easy {ce[4*j:4*j+4]} vs materialised {cmt[4*j:4*j+4]} "
                                 f"(k={k}, m={m}, cfg={sc},{ec})", "cm/easy"))
                break
        return iss

    return Case(ID, inp, lines, judge, tuple(tags), 0, pre)


def shrink_candidates(inp):
    for key in ("pos", "neg"):
        xs = inp[key]
        if isinstance(xs, dict):
            continue
        if len(xs) > 1:
            for i in range(len(xs)):
                c = dict(inp); c[key] = xs[:i] + xs[i + 1:]; yield c
    for key in ("k", "m"):
        if inp[key] > 1:
            c = dict(inp); c[key] = 1; yield c
        if inp[key] > 0:
            c = dict(inp); c[key] = 0; yield c
    for key in ("ts", "rs"):
        if len(inp[key]) > 1:
            for i in range(len(inp[key])):
                c = dict(inp); c[key] = inp[key][:i] + inp[key][i + 1:]; yield c


# --------------------------------------------------------------------------------------
# second tie: the decision tables of this property regenerated from the source on every run
# (harness/dectables.py -> generated Lean file checked by the kernel; bridge: SA/Theorems/DecTables.lean)
# --------------------------------------------------------------------------------------
def extra_gate_start():
    """start the translator + Lean check in a child process; the cases run meanwhile"""
    import common
    import dectables
    return dectables.start(common.REPO)


def extra_gate_finish(handle):
    """-> {problems, theorems, obligations, discharged, notes, evidence}; a definite mismatch of a table row is a
    broken proof obligation, `unknown` rows are evidence only"""
    import dectables
    return dectables.gate_result(dectables.finish(handle), ID)
