"""C10 — queries are vectorised elementwise, shape-preserving and side-effect free.

One case = ONE Scores object and a random HISTORY of public deterministic calls on it.  Around
every call the harness takes byte-for-byte snapshots of the object and of every caller-supplied
array and checks

  (a) shape      result shape X+(2,2) / X / scores.shape+X+(2,2)
  (b) scalar     Python / NumPy scalar in -> plain scalar out (0-d ndarray in: ndim 0 pinned)
  (c) elementwise  element idx of the result == the scalar call on element idx (exact, NaN==NaN)
  (d) alias      alias methods return identical values
  (e) mutates-object / mutates-input   snapshots identical before and after
  (f) nondeterministic / mutates-result / repeat-end   the same call again (immediately and at
      the end of the history) returns identical bytes and leaves earlier results alone

and sends the scalar results (cm cells, rates, thresholds, swap) to the Lean model, which runs
`runHistory` on the same query list (DISAGREE on mismatch) and evaluates the Lean predicates
`Spec.C10.repeatFlags` (same question -> same observation, aliases resolved) and the shape
predicates on the implementation's own observations.

Second tie for clause (e) (no mutation of the object / of a caller's array): on every run `harness/effects.py`
translates the CURRENT source of scores/cm/metrics/utils/roc_curve.py into the effect IR of
`lean/SA/Model/Effects.lean`, the Lean kernel checks the generated bodies (`generated_c10_effects_ok`), and
`SA.Effects.C10_effects_no_mutation` (proved for all bodies) gives "no cell allocated at entry changes" for every
covered function.  A definite violation found there is a broken proof obligation (the history runner then
searches for a failing input); an `unknown` is recorded as "not covered by the effect model" (hooks:
`extra_gate_start` / `extra_gate_finish` below).
"""
from __future__ import annotations

import copy
import math
import struct
from fractions import Fraction

import numpy as np

import common
import gen
import thr_common
from common import Case, Issue, q, ql, line

ID = "C10"
LEVEL = "proof"
RULE = ("case = one Scores object (exact stream: dyadic scores with heavy ties / generic stream: arbitrary "
        "floats; easy counts; 4 configurations; int and float dtypes; built from ndarrays, lists or "
        "from_labels, with is_sorted=True aliasing the caller's arrays, sometimes read-only) x a random "
        "history of 5-30 (thorough: 30-100) public deterministic calls (cm, confusion_matrix, 6 rates + 6 "
        "aliases, 12 threshold_at_* x 3 methods and their shared helper _threshold_at_ratio, threshold_at_metric, eer, auc, swap (+ query on the swapped "
        "object), roc, ratio/count properties, bootstrap_metric / bootstrap_ci with an identity sampler, "
        "pointwise_cm, ConfusionMatrix metric methods) with argument arrays of shapes (), (1,), (3,), (2,3), "
        "(2,1,2), (0,), (2,0), (0,3) passed as ndarray (C, strided, Fortran, read-only; float or int), nested "
        "list, Python scalar, NumPy scalar or 0-d array; evaluations = implementation calls; non-trivial = "
        "history contains an array argument with ndim >= 1")
EXPLANATION = ("The Lean theorems (C10_pure, C10_repeat, C10_elementwise_*, C10_pointwise_shape, C10_alias) are "
               "true by construction of a pure model and say so; the content of C10 is this correspondence run "
               "on histories: byte-for-byte snapshots of pos/neg/easy counts/flags and of every caller array "
               "(constructor arrays incl. aliased ones, threshold/target arrays) around every call, shape / "
               "scalar / elementwise / alias / repeat checks on the implementation's own results, and the "
               "scalar results compared with the model's runHistory on the same query list.  In addition the "
               "no-mutation clause is checked statically on every run: the source is translated to an effect IR, the "
               "Lean kernel checks the regenerated bodies and SA.Effects.C10_effects_no_mutation applies to every "
               "covered function (coverage.effect_model lists functions, writes with the provenance of their targets, "
               "and what is not covered).")
TRUSTED_BASE = ["Lean 4.33 kernel", "axioms propext/Classical.choice/Quot.sound only",
                "hand-written model SA/Model/History.lean (+Basic, Threshold) tied to /repo by this run",
                "ndarray.tobytes()/flags/np.shares_memory report the memory state faithfully",
                "harness (harness/common.py, props/c10.py) and driver parsing",
                "effect model: the translator harness/effects.py (Python ast -> effect IR) and its classification of NumPy / "
                "builtin operations into fresh / view / in-place write / unknown (table in the file header); the reading of "
                "the IR's heap semantics as a model of CPython + NumPy memory (one cell per array buffer / per object "
                "with everything reachable from it).  NOT trusted: the certificates (abstract environments, callee "
                "summaries) the translator computes - the kernel re-checks them"]
ASSUMPTIONS = ["runtime clauses (no mutation, scalar type, identical bytes on repetition) are decided on the "
               "sampled histories only: a pure model cannot exhibit aliasing or in-place writes",
               "thresholds and targets are finite floats or +-inf (no NaN arguments)",
               "exceptions are accepted only where the call is undefined for the object (empty relevant "
               "class, fewer than two distinct points) and must then be identical on repetition",
               "bootstrap_* is exercised with an identity sampling_method only (deterministic)",
               "effect model: callables supplied by the caller (metric, sampling_method, f) are the caller's code - what "
               "they do to the objects handed to them is not attributed to the query; methods are resolved statically "
               "(no overriding in subclasses); operators (==, <, +) on library objects are pure; functions reached by "
               "dynamic dispatch (getattr(self, name)) are 'not covered', never assumed pure"]

SHAPES = [(), (), (1,), (3,), (2, 3), (2, 1, 2), (0,), (2, 0), (0, 3)]
SHAPES_1D = [(), (1,), (3,), (0,)]
RATES = gen.METRICS + [gen.ALIASES[m] for m in gen.METRICS]
BASE_OF = {**{m: m for m in gen.METRICS}, **{a: m for m, a in gen.ALIASES.items()}}
PARTNER = {**gen.ALIASES, **{a: m for m, a in gen.ALIASES.items()}}
CM_ALIAS = {"tpr": "tar", "fnr": "frr", "tnr": "trr", "fpr": "far", "topr": "acceptance_rate",
            "tonr": "rejection_rate", "tpr_ci": "tar_ci", "fnr_ci": "frr_ci"}
CM_PARTNER = {**CM_ALIAS, **{a: m for m, a in CM_ALIAS.items()}}
CM_METHODS = ["tpr", "fnr", "tnr", "fpr", "topr", "tonr", "tar", "frr", "trr", "far", "acceptance_rate",
              "rejection_rate", "ppv", "npv", "fdr", "for_", "accuracy", "error_rate", "tp", "fn", "fp",
              "tn", "p", "n", "top", "ton", "pop", "tpr_ci", "fnr_ci", "tar_ci"]
CM_COUNTS = {"tp", "fn", "fp", "tn", "p", "n", "top", "ton"}
PROPS = ["hard_pos_ratio", "hard_neg_ratio", "easy_pos_ratio", "easy_neg_ratio", "nb_easy_samples",
         "nb_hard_pos", "nb_hard_neg", "nb_hard_samples", "nb_all_pos", "nb_all_neg", "nb_all_samples",
         "easy_ratio", "hard_ratio"]
KINDS = (["cm"] * 3 + ["rate"] * 4 + ["thr"] * 5 + ["pw"] * 2 + ["tam", "eer", "auc", "swap", "roc",
                                                                 "prop", "bm", "bci", "thrp"])
MAX_QUERIES = 250


def n_cases(tier):
    return 1200 if tier == "quick" else 9600


# --------------------------------------------------------------------------------------
# second tie for the no-mutation clause: an effect model regenerated from the source on every run
# (harness/effects.py -> generated Lean file, checked by the kernel; soundness: SA/Theorems/C10Effects.lean)
# --------------------------------------------------------------------------------------
def extra_gate_start():
    """start the translator + Lean check in a child process; the histories run meanwhile"""
    import effects
    return effects.start(common.REPO)


def extra_gate_finish(handle):
    """-> {problems, theorems, obligations, discharged, notes, evidence}; a definite violation is a broken proof
    obligation (run.py then searches for a failing input with the history runner), unknowns are evidence only"""
    import effects
    return effects.gate_result(effects.finish(handle))


# --------------------------------------------------------------------------------------
# generation (everything from rng)
# --------------------------------------------------------------------------------------
def _integral(vals):
    return all(math.isfinite(v) and float(v) == round(v) and abs(v) < 2**40 for v in vals)


def _gen_arg(rng, pool, shapes=SHAPES, int_ok=True):
    shape = rng.choice(shapes)
    n = int(np.prod(shape)) if shape else 1
    vals = [rng.choice(pool) for _ in range(n)]
    if shape == ():
        as_ = rng.choice(["py", "py", "np", "zerod"])
    else:
        as_ = rng.choice(["nd", "nd", "nd", "list"])
    dtype = "i8" if (int_ok and vals and _integral(vals) and rng.random() < 0.3) else "f8"
    layout = rng.choice(["c", "c", "strided", "ro", "fortran"]) if as_ == "nd" else "c"
    return {"shape": list(shape), "vals": vals, "as": as_, "dtype": dtype, "layout": layout}


def _targets(rng, inp, metric):
    npos, nneg, ep, en = len(inp["pos"]), len(inp["neg"]), inp["ep"], inp["en"]
    n_rel = {"tpr": npos, "fnr": npos, "tnr": nneg, "fpr": nneg}.get(metric, npos + nneg)
    n_all = {"tpr": npos + ep, "fnr": npos + ep, "tnr": nneg + en, "fpr": nneg + en}.get(
        metric, npos + nneg + ep + en)
    ex = thr_common.exact_case({**inp, "metric": metric})
    return thr_common.gen_targets(rng, n_rel, n_all, ex, boundary_heavy=rng.random() < 0.3)


def _gen_call(rng, inp, tpool):
    k = rng.choice(KINDS)
    if k == "cm":
        return {"k": k, "name": rng.choice(["cm", "cm", "confusion_matrix"]), "arg": _gen_arg(rng, tpool),
                "cmm": rng.sample(CM_METHODS, rng.randint(0, 4))}
    if k == "rate":
        return {"k": k, "name": rng.choice(RATES), "arg": _gen_arg(rng, tpool)}
    if k == "thr":
        name = rng.choice(RATES)
        return {"k": k, "name": name, "method": rng.choice(gen.METHODS),
                "arg": _gen_arg(rng, _targets(rng, inp, BASE_OF[name]))}
    if k == "thrp":
        # the shared helper behind all threshold_at_* (scores.py:539-608), handed caller arrays directly
        return {"k": k, "increasing": rng.random() < 0.5, "ratio_class": rng.choice(["pos", "neg"]),
                "method": rng.choice(gen.METHODS),
                "arg": _gen_arg(rng, [0.0, 1.0, 0.25, 0.5, -0.5, 1.5, rng.random(), rng.random()])}
    if k == "tam":
        metric = rng.choice(["fnr", "fpr", "tpr", "tnr", "far", "topr"])
        pk = rng.choice(["none", "none", "int", "array"])
        points = None
        if pk == "int":
            points = rng.choice([2, 5, 17])
        elif pk == "array":
            points = sorted(rng.choice(tpool) for _ in range(rng.randint(2, 6)))
            points = [p for p in points if math.isfinite(p)]
            if len(points) < 2:
                points = [-1.0, 0.0, 1.0]
        tg = [rng.choice([0.0, 0.25, 0.5, 1.0, rng.random(), rng.random()]) for _ in range(4)]
        return {"k": k, "metric": metric, "points": points, "arg": _gen_arg(rng, tg, SHAPES_1D)}
    if k == "eer":
        return {"k": k}
    if k == "auc":
        lo, hi = rng.choice([(0.0, 1.0), (0.0, 1.0), (0.0, 0.5), (0.25, 0.75), (0.1, 1.0)])
        x, y = rng.choice([("fpr", "tpr"), ("fnr", "tnr"), ("far", "tar"), ("fpr", "fnr"), ("topr", "tpr")])
        return {"k": k, "lower": lo, "upper": hi, "x": x, "y": y}
    if k == "swap":
        sub = None
        if rng.random() < 0.7:
            name = rng.choice(RATES)
            if rng.random() < 0.5:
                sub = {"k": "rate", "name": name, "arg": _gen_arg(rng, tpool)}
            else:
                sub = {"k": "thr", "name": name, "method": rng.choice(gen.METHODS),
                       "arg": _gen_arg(rng, [0.0, 0.25, 0.5, 1.0, rng.random()])}
        return {"k": k, "then": sub}
    if k == "roc":
        mode = rng.choice(["default", "all", "fnr", "fpr", "thresholds", "mixed"])
        c = {"k": k, "fnr": None, "fpr": None, "thresholds": None, "nb_points": rng.choice([4, 7, 10]),
             "x_axis": rng.choice(["fpr", "fnr", "tpr", "far"])}
        rs = [0.0, 0.1, 0.5, 1.0, rng.random()]
        one_d = [(1,), (3,), (0,)]
        if mode == "all":
            c["nb_points"] = None
        if mode in ("fnr", "mixed"):
            c["fnr"] = _gen_arg(rng, rs, one_d)
        if mode in ("fpr", "mixed"):
            c["fpr"] = _gen_arg(rng, rs, one_d)
        if mode in ("thresholds", "mixed"):
            c["thresholds"] = _gen_arg(rng, [t for t in tpool if math.isfinite(t)] or [0.0], one_d, int_ok=False)
        return c
    if k == "prop":
        return {"k": k, "name": rng.choice(PROPS)}
    if k in ("bm", "bci"):
        name = rng.choice(RATES)
        if rng.random() < 0.6:
            c = {"k": k, "metric": name, "arg": _gen_arg(rng, tpool), "method": None}
        else:
            c = {"k": k, "metric": "threshold_at_" + name, "method": rng.choice(gen.METHODS),
                 "arg": _gen_arg(rng, _targets(rng, inp, BASE_OF[name]))}
        if k == "bci":
            c["alpha"] = rng.choice([0.05, 0.1, 0.5])
        return c
    # pointwise_cm on the labelled samples
    return {"k": "pw", "arg": _gen_arg(rng, tpool), "two_d": rng.random() < 0.4,
            "poslabel": rng.choice([1, 0, 7, "a"]), "layout": rng.choice(["c", "c", "ro", "strided"])}


def gen_one(rng, i, tier):
    stream = "exact" if i % 2 == 0 else "generic"
    pos, neg = gen.score_sets(rng, stream)
    dtype = "int" if rng.random() < 0.15 else "float"
    if dtype == "int":
        pos, neg = [float(round(x)) for x in pos], [float(round(x)) for x in neg]
    ep, en = gen.easy_counts(rng, stream, len(pos), len(neg))
    sc, ec = rng.choice(gen.CFGS)
    inp = {"stream": stream, "pos": pos, "neg": neg, "ep": ep, "en": en, "sc": sc, "ec": ec,
           "sorted": rng.random() < 0.4, "dtype": dtype,
           "ctor": rng.choice(["nd", "nd", "nd", "list", "from_labels"]),
           "ctor_ro": rng.random() < 0.25}
    ncalls = rng.randint(5, 30) if tier == "quick" else rng.randint(30, 100)
    tpool = gen.thresholds(rng, pos, neg, k=8)
    inp["hist"] = [_gen_call(rng, inp, tpool) for _ in range(ncalls)]
    return inp


def nontrivial(inp):
    def nd(c):
        a = c.get("arg")
        return bool(a and len(a["shape"]) >= 1)
    return any(nd(c) for c in inp["hist"])


# --------------------------------------------------------------------------------------
# snapshots and fingerprints
# --------------------------------------------------------------------------------------
def arr_snap(a):
    return (a.tobytes(), a.dtype.str, a.shape, a.strides, bool(a.flags.writeable),
            bool(a.flags.c_contiguous), bool(a.flags.f_contiguous), bool(a.flags.owndata),
            a.__array_interface__["data"][0])


SNAP_FIELDS = ["bytes", "dtype", "shape", "strides", "writeable", "c_contiguous", "f_contiguous", "owndata",
               "address"]


def obj_snap(x):
    """snapshot of a caller-supplied argument (ndarray, list, scalar)"""
    if isinstance(x, np.ndarray):
        return ("nd",) + arr_snap(x)
    return ("py", type(x).__name__, repr(x))


def snap_diff(a, b):
    if a[0] == "nd" and b[0] == "nd":
        return [SNAP_FIELDS[i] for i in range(len(SNAP_FIELDS)) if a[1 + i] != b[1 + i]]
    return [] if a == b else ["value"]


def fp(x):
    """byte-exact fingerprint of a result"""
    if isinstance(x, tuple) and len(x) >= 2 and x[0] == "exc" and isinstance(x[1], str):
        return ("exc", x[1], x[2] if len(x) > 2 else "")
    if isinstance(x, np.ndarray):
        return ("nd", x.dtype.str, x.shape, np.ascontiguousarray(x).tobytes())
    if isinstance(x, np.generic):
        return ("g", x.dtype.str, x.tobytes())
    if isinstance(x, bool):
        return ("b", x)
    if isinstance(x, float):
        return ("f", struct.pack("<d", x))
    if isinstance(x, int):
        return ("i", x)
    if isinstance(x, (tuple, list)):
        return (type(x).__name__,) + tuple(fp(v) for v in x)
    if x is None:
        return ("none",)
    cls = type(x).__name__
    if cls == "ConfusionMatrix":
        return ("cm", fp(x.matrix), fp(np.asarray(x.classes)), bool(x.binary))
    if cls in ("Scores", "FraudScores"):
        return ("scores", fp(x.pos), fp(x.neg), fp(x.nb_easy_pos), fp(x.nb_easy_neg),
                x.score_class.value, x.equal_class.value)
    if cls == "ROCCurve":
        return ("roc", fp(x.fnr), fp(x.fpr), fp(x.thresholds), fp(x.fnr_ci), fp(x.fpr_ci))
    return ("repr", cls, repr(x))


def elem_eq(a, b):
    a, b = np.asarray(a), np.asarray(b)
    if a.shape != b.shape:
        return False
    return bool(np.array_equal(a, b, equal_nan=(a.dtype.kind in "fc" and b.dtype.kind in "fc")))


def plain_scalar(x):
    return not isinstance(x, np.ndarray) and isinstance(x, (float, int, np.generic))


def sh(shape):
    return "s" + "x".join(str(int(d)) for d in shape)


# --------------------------------------------------------------------------------------
# argument materialisation
# --------------------------------------------------------------------------------------
def _vals(a):
    return [common.unjson_num(v) for v in a["vals"]]


def ref_array(a):
    dt = np.int64 if a["dtype"] == "i8" else np.float64
    return np.array(_vals(a), dtype=dt).reshape(a["shape"])


def _lay(arr, layout):
    if layout == "strided" and arr.ndim >= 1:
        big = np.zeros(arr.shape[:-1] + (2 * arr.shape[-1] + 1,), dtype=arr.dtype)
        v = big[..., 1:1 + 2 * arr.shape[-1]:2]
        v[...] = arr
        return v
    if layout == "fortran" and arr.ndim >= 2:
        return np.asfortranarray(arr)
    if layout == "ro":
        arr = arr.copy()
        arr.flags.writeable = False
        return arr
    return arr


def mk_arg(a):
    """the object handed to the implementation"""
    arr = ref_array(a)
    as_ = a["as"]
    if as_ == "py":
        return arr.item()
    if as_ == "np":
        return arr[()]
    if as_ == "zerod":
        return arr
    if as_ == "list":
        return arr.tolist()
    return _lay(arr, a.get("layout", "c"))


def scalar_of(e):
    return e.item()


# --------------------------------------------------------------------------------------
# the history runner
# --------------------------------------------------------------------------------------
class Stop(Exception):
    pass


class Runner:
    def __init__(self, inp):
        from score_analysis import BootstrapConfig, Scores, pointwise_cm, roc

        self.Scores, self.pointwise_cm, self.roc = Scores, pointwise_cm, roc
        self.inp = inp
        self.issues = []
        self.queries = []      # (query token, obs token, meta)
        self.shape_rows = []   # (kind, a-shape, x-shape, out-shape, method)
        self.evals = 0
        self.done = []         # (spec, fingerprint of first result)
        self.seen = set()
        pos, neg = list(inp["pos"]), list(inp["neg"])
        self.srt = bool(inp["sorted"])
        if self.srt:  # caller's contract
            pos, neg = sorted(pos), sorted(neg)
        self.mpos, self.mneg = pos, neg
        npdt = np.int64 if inp["dtype"] == "int" else np.float64
        kw = dict(nb_easy_pos=inp["ep"], nb_easy_neg=inp["en"], score_class=inp["sc"],
                  equal_class=inp["ec"], is_sorted=self.srt)
        self.ctor = {}
        if inp["ctor"] == "from_labels":
            labels = [1] * len(pos) + [0] * len(neg)
            allsc = pos + neg
            order = list(range(len(allsc)))
            if not self.srt:
                order = sorted(order, key=lambda i: (i * 7919 + 13) % 104729)
            lab = np.array([labels[i] for i in order], dtype=np.int64)
            sco = np.array([allsc[i] for i in order], dtype=npdt)
            if inp["ctor_ro"]:
                lab.flags.writeable = False
                sco.flags.writeable = False
            self.ctor = {"ctor.labels": lab, "ctor.scores": sco}
            self.s = Scores.from_labels(lab, sco, pos_label=1, **kw)
            self.mpos = [float(x) for x, l in zip(sco.tolist(), lab.tolist()) if l == 1]
            self.mneg = [float(x) for x, l in zip(sco.tolist(), lab.tolist()) if l != 1]
        elif inp["ctor"] == "list":
            lp = [npdt(x).item() for x in pos]
            ln = [npdt(x).item() for x in neg]
            self.ctor = {"ctor.pos": lp, "ctor.neg": ln}
            self.s = Scores(lp, ln, **kw)
        else:
            ap, an = np.array(pos, dtype=npdt), np.array(neg, dtype=npdt)
            if inp["ctor_ro"]:
                ap.flags.writeable = False
                an.flags.writeable = False
            self.ctor = {"ctor.pos": ap, "ctor.neg": an}
            self.s = Scores(ap, an, **kw)
        self.scale = max([abs(float(x)) for x in pos + neg] + [1.0])
        self.boot = BootstrapConfig(sampling_method=lambda sc_: sc_, nb_samples=3, bootstrap_method="quantile")
        self.base = self.snapshot()

    # ---- snapshots -------------------------------------------------------------------
    def snapshot(self):
        s = self.s
        d = {"obj.pos": obj_snap(s.pos), "obj.neg": obj_snap(s.neg),
             "obj.pos.id": ("py", "id", id(s.pos)), "obj.neg.id": ("py", "id", id(s.neg)),
             "obj.nb_easy_pos": obj_snap(s.nb_easy_pos), "obj.nb_easy_neg": obj_snap(s.nb_easy_neg),
             "obj.score_class": ("py", type(s.score_class).__name__, repr(s.score_class)),
             "obj.equal_class": ("py", type(s.equal_class).__name__, repr(s.equal_class))}
        arrs = [("obj.pos", s.pos), ("obj.neg", s.neg)]
        for k, v in self.ctor.items():
            d[k] = obj_snap(v)
            if isinstance(v, np.ndarray):
                arrs.append((k, v))
        for i in range(len(arrs)):
            for j in range(i + 1, len(arrs)):
                d[f"shares({arrs[i][0]},{arrs[j][0]})"] = (
                    "py", "bool", bool(np.shares_memory(arrs[i][1], arrs[j][1])))
        return d

    def fail(self, method, clause, detail, kind="PROPFAIL"):
        sig = f"hist/{method}/{clause}"
        if sig in self.seen:
            return
        self.seen.add(sig)
        self.issues.append(Issue(kind, clause, f"{method}: {detail}"[:500], sig))

    def check_state(self, method, args=(), where=""):
        """clause (e): the object, the constructor arrays and this call's argument arrays"""
        now = self.snapshot()
        bad = [(k, snap_diff(self.base[k], now[k])) for k in self.base if self.base[k] != now[k]]
        if bad:
            k, fields = bad[0]
            clause = "mutates-object" if k.startswith("obj.") or k.startswith("shares") else "mutates-input"
            self.fail(method, clause, f"{k} changed ({','.join(fields)}) after {where or 'the call'}; "
                      f"before={_short(self.base[k])} after={_short(now[k])}")
            raise Stop()
        for name, obj, before in args:
            after = obj_snap(obj)
            if after != before:
                self.fail(method, "mutates-input", f"argument {name} changed ({','.join(snap_diff(before, after))}) "
                          f"after {where or 'the call'}; before={_short(before)} after={_short(after)}")
                raise Stop()

    def call(self, fn, *a, **k):
        self.evals += 1
        return common.call(fn, *a, **k)

    # ---- degenerate objects: where a call is undefined ---------------------------------
    def undefined(self, spec, obj=None):
        """None if the call must return; otherwise the reason an exception is acceptable"""
        s = obj if obj is not None else self.s
        np_, nn = len(s.pos), len(s.neg)
        k = spec["k"]
        if k in ("thr", "bm", "bci") and (k == "thr" or spec["metric"].startswith("threshold_at_")):
            base = BASE_OF[(spec["name"] if k == "thr" else spec["metric"][len("threshold_at_"):])]
            n = {"tpr": np_, "fnr": np_, "tnr": nn, "fpr": nn}.get(base, np_ + nn)
            return "empty relevant class" if n == 0 else None
        if k == "thrp":
            n = np_ if spec["ratio_class"] == "pos" else nn
            if not hasattr(s, "_threshold_at_ratio"):
                return "helper absent"
            return "empty array" if n == 0 else None
        if k == "tam":
            allv = np.concatenate([np.asarray(s.pos, dtype=float), np.asarray(s.neg, dtype=float)])
            if spec["points"] is None:
                return "fewer than two points" if len(allv) < 2 else None
            if isinstance(spec["points"], int):
                return "fewer than two distinct points" if len(np.unique(allv)) < 2 else None
            return None
        if k == "eer":
            return "empty class" if (np_ == 0 or nn == 0) else None
        if k == "auc":
            return "no scores" if np_ + nn == 0 else None
        if k == "roc":
            need_pos = spec["fnr"] is not None
            need_neg = spec["fpr"] is not None
            if spec["fnr"] is None and spec["fpr"] is None and spec["thresholds"] is None \
                    and spec["nb_points"] is not None:
                need_pos = need_neg = True
            # roc concatenates: an explicitly empty selection falls through to the defaults
            if self._roc_empty(spec) and spec["nb_points"] is not None:
                need_pos = need_neg = True
            if (need_pos and np_ == 0) or (need_neg and nn == 0):
                return "empty relevant class"
            return None
        return None

    @staticmethod
    def _roc_empty(spec):
        n = 0
        for key in ("fnr", "fpr", "thresholds"):
            if spec[key] is not None:
                n += int(np.prod(spec[key]["shape"]))
        return n == 0

    # ---- one call of the history -------------------------------------------------------
    def thunk(self, spec, obj=None):
        """(method label, callable, [(argname, argobj)], X, ref) for the main call of `spec`"""
        s = obj if obj is not None else self.s
        k = spec["k"]
        if k in ("cm", "rate"):
            arg = mk_arg(spec["arg"])
            return spec["name"], (lambda: getattr(s, spec["name"])(arg)), [("threshold", arg)]
        if k == "thr":
            arg = mk_arg(spec["arg"])
            name = "threshold_at_" + spec["name"]
            return name, (lambda: getattr(s, name)(arg, method=spec["method"])), [("target", arg)]
        if k == "thrp":
            from score_analysis import BinaryLabel

            arg = mk_arg(spec["arg"])
            arr = s.pos if spec["ratio_class"] == "pos" else s.neg
            return "_threshold_at_ratio", (lambda: s._threshold_at_ratio(
                arr, arg, spec["increasing"], BinaryLabel(spec["ratio_class"]), spec["method"])), [("target", arg)]
        if k == "tam":
            arg = mk_arg(spec["arg"])
            pts = spec["points"]
            args = [("target", arg)]
            if isinstance(pts, list):
                pts = np.array([common.unjson_num(p) for p in pts], dtype=float)
                args.append(("points", pts))
            return "threshold_at_metric", (lambda: s.threshold_at_metric(arg, spec["metric"], pts)), args
        if k == "eer":
            return "eer", (lambda: s.eer()), []
        if k == "auc":
            return "auc", (lambda: s.auc(spec["lower"], spec["upper"], x_axis=spec["x"], y_axis=spec["y"])), []
        if k == "swap":
            return "swap", (lambda: s.swap()), []
        if k == "roc":
            kw, args = {}, []
            for key in ("fnr", "fpr", "thresholds"):
                if spec[key] is not None:
                    kw[key] = mk_arg(spec[key])
                    args.append((key, kw[key]))
            return "roc", (lambda: self.roc(s, nb_points=spec["nb_points"], x_axis=spec["x_axis"], **kw)), args
        if k == "prop":
            return spec["name"], (lambda: getattr(s, spec["name"])), []
        if k in ("bm", "bci"):
            arg = mk_arg(spec["arg"])
            kw = self._metric_kwargs(spec, arg)
            if k == "bm":
                return "bootstrap_metric", (lambda: s.bootstrap_metric(spec["metric"], config=self.boot, **kw)), \
                    [("metric-arg", arg)]
            return "bootstrap_ci", (lambda: s.bootstrap_ci(spec["metric"], alpha=spec["alpha"],
                                                           config=self.boot, **kw)), [("metric-arg", arg)]
        if k == "pw":
            arg = mk_arg(spec["arg"])
            lab, sco = self._labelled(spec)
            return "pointwise_cm", (lambda: self.pointwise_cm(
                lab, sco, arg, pos_label=spec["poslabel"], score_class=self.inp["sc"],
                equal_class=self.inp["ec"])), [("threshold", arg), ("labels", lab), ("scores", sco)]
        raise ValueError(k)

    @staticmethod
    def _metric_kwargs(spec, arg):
        m = spec["metric"]
        if m.startswith("threshold_at_"):
            return {m[len("threshold_at_"):]: arg, "method": spec["method"]}
        return {"threshold": arg}

    def _labelled(self, spec):
        pl = spec["poslabel"]
        other = "zz" if isinstance(pl, str) else pl + 1
        pos, neg = self.mpos, self.mneg
        labels = [pl] * len(pos) + [other] * len(neg)
        allsc = pos + neg
        order = sorted(range(len(allsc)), key=lambda i: (i * 6007 + 5) % 100003)
        npdt = np.int64 if self.inp["dtype"] == "int" else np.float64
        lab = np.array([labels[i] for i in order]) if labels else np.array([], dtype=np.int64)
        sco = np.array([allsc[i] for i in order], dtype=npdt)
        if spec["two_d"] and len(allsc) % 2 == 0 and len(allsc) > 0:
            lab, sco = lab.reshape(2, -1), sco.reshape(2, -1)
        return _lay(lab, spec["layout"]), _lay(sco, spec["layout"])

    def run_call(self, spec, obj=None, record=True):
        """main call + all clauses; returns the first result"""
        k = spec["k"]
        method, fn, args = self.thunk(spec, obj)
        snaps = [(n, o, obj_snap(o)) for n, o in args]
        undefined = self.undefined(spec, obj)
        r1 = self.call(fn)
        self.check_state(method, snaps)
        f1 = fp(r1)
        if r1[0] == "exc":
            if undefined is None:
                a = spec.get("arg")
                size0 = "/size-0" if (a is not None and np.asarray(mk_arg(a)).size == 0) else ""
                self.fail(method, f"raises/{r1[1]}{size0}", f"raised {r1[1]}: {r1[2]} on {_brief(spec)}")
            elif k == "thr" and obj is None:
                # expected error: the model must raise the same, whatever the targets are
                flat = [scalar_of(e) for e in ref_array(spec["arg"]).reshape(-1)[:2]] or [0.5]
                for e in flat:
                    self.add_query(f"thr:{spec['name']}:{spec['method']}:{q(e)}", "e:" + r1[1],
                                   {"k": "thr-err", "method": method, "exc": r1[1]})
        else:
            if undefined is not None and k == "thr":
                self.fail(method, "no-error", f"returned {r1[1]!r} although undefined ({undefined})")
            self.clauses(spec, method, r1[1], args, snaps, obj)
        # (f) immediate repetition with the same argument objects
        r2 = self.call(fn)
        self.check_state(method, snaps, "the repeated call")
        if fp(r1) != f1:
            self.fail(method, "mutates-result", f"the first result changed when the call was repeated on {_brief(spec)}")
        elif fp(r2) != f1:
            self.fail(method, "nondeterministic", f"repeated call returned different bytes on {_brief(spec)}: "
                      f"{_short(f1)} vs {_short(fp(r2))}")
        if record and obj is None:
            self.done.append((spec, f1, method))
        return r1

    # ---- clauses (a)-(d) per kind --------------------------------------------------------
    def clauses(self, spec, method, res, args, snaps, obj):
        s = obj if obj is not None else self.s
        k = spec["k"]
        a = spec.get("arg")
        if a is not None:
            ref = np.asarray(mk_arg(a)) if a["as"] != "list" else np.asarray(ref_array(a).tolist())
            X = ref.shape
            scalar_in = a["as"] in ("py", "np")
            idxs = list(np.ndindex(*X))
        if k == "cm":
            if type(res).__name__ != "ConfusionMatrix":
                self.fail(method, "type", f"returned {type(res).__name__}")
                return
            mat = res.matrix
            self.shape_rows.append(("m", (), X, mat.shape, method))
            if mat.dtype.kind not in "iu":
                self.fail(method, "dtype", f"matrix dtype {mat.dtype}")
            msnap = arr_snap(mat)
            if tuple(mat.shape) != X + (2, 2):
                return
            smats = {}
            for idx in idxs:
                e = scalar_of(ref[idx])
                r = self.call(s.cm, e)
                self.check_state(method, snaps, "the scalar call")
                if r[0] == "exc":
                    self.fail(method, f"raises/{r[1]}", f"cm({e!r}) raised {r[1]}: {r[2]}")
                    continue
                smats[idx] = r[1]
                if not elem_eq(mat[idx], r[1].matrix) or r[1].matrix.shape != (2, 2):
                    self.fail(method, "elementwise", f"{method}(X={X})[{idx}]={mat[idx].tolist()} but "
                              f"cm({e!r})={np.asarray(r[1].matrix).tolist()}")
                if obj is None:
                    m = np.asarray(r[1].matrix)
                    self.add_query(f"cm:{q(e)}", "c:" + ":".join(str(int(v)) for v in m.reshape(-1)[:4]),
                                   {"k": "cm", "method": method, "e": e, "cells": [int(v) for v in m.reshape(-1)[:4]]})
            for name in spec.get("cmm", []):
                self.cm_metric(method, res, name, X, scalar_in, idxs, smats, snaps)
            # one-vs-all of the vectorised matrices: shape X + (2, 2, 2), entry [x] = one-vs-all of the matrix at x
            ova = self.call(res.one_vs_all)
            if ova[0] == "exc":
                self.fail(method + ".one_vs_all", f"raises/{ova[1]}", f"one_vs_all() of matrices of shape {X}+(2,2) raised {ova[1]}: {ova[2]}")
            else:
                om = np.asarray(ova[1].matrix)
                if tuple(om.shape) != X + (2, 2, 2):
                    self.fail(method + ".one_vs_all", "shape", f"shape {om.shape} for matrices of shape {X}+(2,2)")
                else:
                    for idx in idxs:
                        if idx in smats:
                            o1 = self.call(smats[idx].one_vs_all)
                            if o1[0] == "exc" or not elem_eq(om[idx], np.asarray(o1[1].matrix)):
                                self.fail(method + ".one_vs_all", "elementwise", f"[{idx}]={om[idx].tolist()} but the scalar matrix gives "
                                          f"{np.asarray(o1[1].matrix).tolist() if o1[0] == 'ok' else o1[1:]}")
            # the same counts held as float64 (weighted counts; here halved, exactly): rates equal those of the integer
            # matrices, and no rate query writes into the matrix it was given
            if mat.size and spec.get("cmm"):
                from score_analysis import ConfusionMatrix as _CM
                fmat = np.asarray(mat, dtype=np.float64) * 0.5
                fcm = self.call(lambda: _CM(matrix=fmat, binary=True))
                if fcm[0] == "ok":
                    fsnap = arr_snap(fmat)
                    for name in [n_ for n_ in spec.get("cmm", []) if n_ not in CM_COUNTS and not n_.endswith("_ci")][:4] + ["tpr", "fnr"]:
                        rf, ri = self.call(getattr(fcm[1], name)), self.call(getattr(res, name))
                        if arr_snap(fmat) != fsnap or arr_snap(np.asarray(fcm[1].matrix)) != fsnap:
                            self.fail(method + "." + name, "mutates-argument", f"{name}() of a float64 ConfusionMatrix changed the matrix "
                                      f"it was built from: {np.asarray(fmat).reshape(-1).tolist()[:8]} (was {(np.asarray(mat).reshape(-1) * 0.5).tolist()[:8]})")
                            break
                        scale_free = name in ("tpr", "fnr", "tnr", "fpr", "topr", "tonr", "ppv", "npv", "fdr", "for_", "accuracy", "error_rate",
                                              "tar", "frr", "trr", "far", "acceptance_rate", "rejection_rate")
                        if scale_free and (rf[0] != ri[0] or (rf[0] == "ok" and not elem_eq(np.asarray(rf[1]), np.asarray(ri[1])))):
                            self.fail(method + "." + name, "elementwise", f"{name}() of the halved float64 matrices differs from the integer ones")
            if arr_snap(mat) != msnap:
                self.fail(method, "mutates-result", "ConfusionMatrix.matrix changed by its own metric methods")
            return
        if k == "rate":
            self.shape_rows.append(("r", (), X, np.shape(res), method))
            self.rate_like(spec, method, res, X, scalar_in, idxs, ref, snaps, s, obj,
                           lambda e: getattr(s, spec["name"])(e),
                           lambda arg: getattr(s, PARTNER[spec["name"]])(arg), PARTNER[spec["name"]], args)
            return
        if k == "thr":
            self.shape_rows.append(("r", (), X, np.shape(res), method))
            nm, pm = "threshold_at_" + spec["name"], "threshold_at_" + PARTNER[spec["name"]]
            self.rate_like(spec, method, res, X, scalar_in, idxs, ref, snaps, s, obj,
                           lambda e: getattr(s, nm)(e, method=spec["method"]),
                           lambda arg: getattr(s, pm)(arg, method=spec["method"]), pm, args)
            return
        if k == "thrp":
            from score_analysis import BinaryLabel

            if scalar_in and not (isinstance(res, float) and not isinstance(res, np.ndarray)):
                self.fail(method, "scalar", f"scalar input returned {type(res).__name__} {np.shape(res)}")
            if tuple(np.shape(res)) != X:
                self.fail(method, "shape", f"result shape {np.shape(res)} for target shape {X}")
                return
            arr = s.pos if spec["ratio_class"] == "pos" else s.neg
            resa = np.asarray(res)
            for idx in idxs:
                e = scalar_of(ref[idx])
                r = self.call(s._threshold_at_ratio, arr, e, spec["increasing"],
                              BinaryLabel(spec["ratio_class"]), spec["method"])
                self.check_state(method, snaps, "the scalar call")
                if r[0] == "exc":
                    self.fail(method, f"raises/{r[1]}", f"scalar call on {e!r} raised {r[1]}: {r[2]}")
                elif not elem_eq(resa[idx], r[1]):
                    self.fail(method, "elementwise", f"[{idx}]={resa[idx]!r} but the scalar call on {e!r} gives {r[1]!r}")
            return
        if k == "tam":
            if ref.ndim == 0:
                # one array holding all solutions (its exact shape is not part of C10: the no-solution
                # fallback of utils.invert_pl_function returns shape (1, 1), consistently for scalar
                # and array targets)
                if not isinstance(res, np.ndarray):
                    self.fail(method, "shape", f"scalar target returned {type(res).__name__} {np.shape(res)}")
                    return
                outs = [res]
            else:
                if not isinstance(res, list) or len(res) != X[0]:
                    self.fail(method, "shape", f"target shape {X} returned {type(res).__name__} of length "
                              f"{len(res) if hasattr(res, '__len__') else '?'}")
                    return
                outs = res
            pts = args[1][1] if len(args) > 1 else spec["points"]
            for j, idx in enumerate(idxs):
                e = scalar_of(ref[idx])
                r = self.call(s.threshold_at_metric, e, spec["metric"], pts)
                self.check_state(method, snaps, "the scalar call")
                if r[0] == "exc":
                    self.fail(method, f"raises/{r[1]}", f"scalar call raised {r[1]}: {r[2]}")
                elif not elem_eq(outs[j], r[1]):
                    self.fail(method, "elementwise", f"solutions for target[{j}]={e!r}: {np.asarray(outs[j]).tolist()} "
                              f"vs scalar call {np.asarray(r[1]).tolist()}")
            return
        if k == "eer":
            if not (isinstance(res, tuple) and len(res) == 2 and all(plain_scalar(v) for v in res)):
                self.fail(method, "scalar", f"eer returned {res!r}")
            return
        if k == "auc":
            if np.ndim(res) != 0 or isinstance(res, np.ndarray):
                self.fail(method, "scalar", f"auc returned {type(res).__name__} of shape {np.shape(res)}")
            return
        if k == "prop":
            if not plain_scalar(res) or isinstance(res, np.generic):
                self.fail(method, "scalar", f"{method} = {res!r} ({type(res).__name__})")
            return
        if k == "swap":
            self.swap_clauses(spec, method, res)
            return
        if k == "roc":
            n_given = sum(int(np.prod(spec[key]["shape"])) for key in ("fnr", "fpr", "thresholds")
                          if spec[key] is not None)
            n = n_given if n_given else (spec["nb_points"] if spec["nb_points"] is not None
                                         else len(s.pos) + len(s.neg))
            shp = (np.shape(res.fnr), np.shape(res.fpr), np.shape(res.thresholds))
            if shp != ((n,), (n,), (n,)):
                self.fail(method, "shape", f"ROCCurve shapes {shp}, expected ({n},) for {_brief(spec)}")
                return
            r = self.call(lambda: (s.fnr(res.thresholds), s.fpr(res.thresholds)))
            self.check_state(method, snaps, "fnr/fpr at the curve's thresholds")
            if r[0] == "ok" and not (elem_eq(r[1][0], res.fnr) and elem_eq(r[1][1], res.fpr)):
                self.fail(method, "elementwise", "ROCCurve.fnr/fpr differ from fnr/fpr at ROCCurve.thresholds")
            return
        if k in ("bm", "bci"):
            kw1 = self._metric_kwargs(spec, args[0][1])
            base = self.call(lambda: getattr(type(s), spec["metric"])(s, **kw1))
            self.check_state(method, snaps, "the plain metric call")
            if base[0] == "exc":
                self.fail(method, f"raises/{base[1]}", f"metric raised {base[1]}: {base[2]}")
                return
            bv = np.asarray(base[1], dtype=float)
            if k == "bm":
                if np.shape(res) != (3,) + X:
                    self.fail(method, "shape", f"shape {np.shape(res)} for metric shape {X}")
                    return
                if not all(elem_eq(res[j], bv) for j in range(3)):
                    self.fail(method, "elementwise", f"identity-sampler replicates differ from the metric: "
                              f"{np.asarray(res).tolist()} vs {bv.tolist()}")
                return
            if np.shape(res) != X + (2,):
                self.fail(method, "shape", f"shape {np.shape(res)} for metric shape {X}")
                return
            if not (elem_eq(res[..., 0], bv) and elem_eq(res[..., 1], bv)):
                self.fail(method, "elementwise", f"identity-sampler CI {np.asarray(res).tolist()} is not the "
                          f"metric value {bv.tolist()}")
            for idx in idxs:
                e = scalar_of(ref[idx])
                kw = self._metric_kwargs(spec, e)
                r = self.call(lambda: s.bootstrap_ci(spec["metric"], alpha=spec["alpha"], config=self.boot, **kw))
                self.check_state(method, snaps, "the scalar call")
                if r[0] == "exc":
                    self.fail(method, f"raises/{r[1]}", f"scalar call raised {r[1]}: {r[2]}")
                elif not elem_eq(res[idx], r[1]):
                    self.fail(method, "elementwise", f"ci[{idx}]={np.asarray(res[idx]).tolist()} vs scalar call "
                              f"{np.asarray(r[1]).tolist()}")
            return
        if k == "pw":
            lab, sco = args[1][1], args[2][1]
            A = sco.shape
            if not isinstance(res, np.ndarray):
                self.fail(method, "type", f"returned {type(res).__name__}")
                return
            self.shape_rows.append(("p", A, X, res.shape, method))
            if res.dtype != np.bool_:
                self.fail(method, "dtype", f"dtype {res.dtype}")
            if tuple(res.shape) != A + X + (2, 2):
                return
            for idx in idxs:
                e = scalar_of(ref[idx])
                r = self.call(self.pointwise_cm, lab, sco, e, pos_label=spec["poslabel"],
                              score_class=self.inp["sc"], equal_class=self.inp["ec"])
                self.check_state(method, snaps, "the scalar call")
                if r[0] == "exc":
                    self.fail(method, f"raises/{r[1]}", f"scalar call raised {r[1]}: {r[2]}")
                    continue
                sub = res[(slice(None),) * len(A) + idx]
                if not elem_eq(sub, r[1]):
                    self.fail(method, "elementwise", f"pointwise_cm[..., {idx}, :, :] differs from the call on "
                              f"threshold {e!r}")
            return

    def rate_like(self, spec, method, res, X, scalar_in, idxs, ref, snaps, s, obj, scalar_fn, alias_fn,
                  alias_name, args):
        k = spec["k"]
        base = BASE_OF[spec["name"]]
        if scalar_in and not (isinstance(res, float) and not isinstance(res, np.ndarray)):
            self.fail(method, "scalar", f"scalar input {args[0][1]!r} returned {type(res).__name__} "
                      f"{np.shape(res)}")
        if tuple(np.shape(res)) != X:
            return
        if X != () and not (isinstance(res, np.ndarray) and res.dtype == np.float64):
            self.fail(method, "dtype", f"returned {type(res).__name__} {getattr(res, 'dtype', '')}")
        resa = np.asarray(res)
        for idx in idxs:
            e = scalar_of(ref[idx])
            r = self.call(scalar_fn, e)
            self.check_state(method, snaps, "the scalar call")
            if r[0] == "exc":
                self.fail(method, f"raises/{r[1]}", f"scalar call on {e!r} raised {r[1]}: {r[2]}")
                continue
            if not (isinstance(r[1], float) and not isinstance(r[1], np.ndarray)):
                self.fail(method, "scalar", f"scalar input {e!r} returned {type(r[1]).__name__} {np.shape(r[1])}")
                continue
            if not elem_eq(resa[idx], r[1]):
                self.fail(method, "elementwise", f"{method}(X={X})[{idx}]={resa[idx]!r} but scalar call on "
                          f"{e!r} gives {r[1]!r}")
            if obj is None:
                if k == "rate":
                    self.add_query(f"rate:{spec['name']}:{q(e)}", "r:" + q(r[1]),
                                   {"k": "rate", "method": method, "e": e, "v": float(r[1])})
                else:
                    self.add_query(f"thr:{spec['name']}:{spec['method']}:{q(e)}", "t:" + q(r[1]),
                                   {"k": "thr", "method": method, "e": e, "v": float(r[1]), "base": base,
                                    "meth": spec["method"]})
        # (d) alias
        ra = self.call(alias_fn, args[0][1])
        self.check_state(method, snaps, f"the alias call {alias_name}")
        if fp(ra if ra[0] == "exc" else ra[1]) != fp(res):
            self.fail(method, "alias", f"{alias_name} returned {_short(fp(ra if ra[0] == 'exc' else ra[1]))}, "
                      f"{method} returned {_short(fp(res))} on {_brief(spec)}")

    def cm_metric(self, method, cmobj, name, X, scalar_in, idxs, smats, snaps):
        label = f"{method}.{name}"
        r = self.call(getattr(cmobj, name))
        self.check_state(label, snaps, "the ConfusionMatrix metric")
        if r[0] == "exc":
            self.fail(label, f"raises/{r[1]}", f"raised {r[1]}: {r[2]}")
            return
        v = r[1]
        want = X + (2,) if name.endswith("_ci") else X
        if tuple(np.shape(v)) != want:
            self.fail(label, "shape", f"shape {np.shape(v)} for matrices of shape {X}+(2,2)")
            return
        # counts (tp, p, top, ...) are documented as "array of shape (...)": matrix[..., i, j] is a 0-d
        # array for one matrix; the plain-scalar claim is about the rates (metrics.py 0-d reduction)
        if scalar_in and want == () and name not in CM_COUNTS and not plain_scalar(v):
            self.fail(label, "scalar", f"scalar threshold gave {type(v).__name__}")
        va = np.asarray(v)
        for idx in idxs:
            if idx not in smats:
                continue
            r2 = self.call(getattr(smats[idx], name))
            if r2[0] == "exc":
                self.fail(label, f"raises/{r2[1]}", f"scalar matrix raised {r2[1]}: {r2[2]}")
            elif not elem_eq(va[idx], r2[1]):
                self.fail(label, "elementwise", f"[{idx}]={va[idx]!r} but the scalar matrix gives {r2[1]!r}")
        if name in CM_PARTNER:
            r3 = self.call(getattr(cmobj, CM_PARTNER[name]))
            if fp(r3 if r3[0] == "exc" else r3[1]) != fp(v):
                self.fail(label, "alias", f"{CM_PARTNER[name]} differs from {name}")
        r4 = self.call(getattr(cmobj, name))
        if fp(r4 if r4[0] == "exc" else r4[1]) != fp(v):
            self.fail(label, "nondeterministic", "repeated metric call differs")

    def swap_clauses(self, spec, method, sw):
        s = self.s
        if type(sw).__name__ != type(s).__name__:
            self.fail(method, "type", f"returned {type(sw).__name__}")
            return
        ok = (fp(sw.pos) == fp(s.neg) and fp(sw.neg) == fp(s.pos) and sw.nb_easy_pos == s.nb_easy_neg
              and sw.nb_easy_neg == s.nb_easy_pos and sw.score_class.value != s.score_class.value
              and sw.equal_class.value != s.equal_class.value)
        if not ok:
            self.fail(method, "elementwise", "swap() is not the object with the classes exchanged and the flags flipped")
        back = self.call(lambda: sw.swap())
        self.check_state(method, (), "swap().swap()")
        if back[0] == "exc" or fp(back[1]) != fp(s):
            self.fail(method, "elementwise", "swap().swap() differs from the object")
        self.add_query("swap", "s:" + _scores_token(sw), {
            "k": "swap", "method": method, "pos": [common.fr(x) for x in np.asarray(sw.pos).tolist()],
            "neg": [common.fr(x) for x in np.asarray(sw.neg).tolist()], "ep": int(sw.nb_easy_pos),
            "en": int(sw.nb_easy_neg), "sc": sw.score_class.value, "ec": sw.equal_class.value})
        sub = spec.get("then")
        if sub is not None:
            # a query on the swapped object (which aliases this object's arrays) must leave this one alone
            self.run_call(sub, obj=sw, record=False)
            self.check_state(method, (), f"a {sub['k']} query on the swapped object")

    def add_query(self, qtok, otok, meta):
        if len(self.queries) < MAX_QUERIES:
            self.queries.append((qtok, otok, meta))

    # ---- whole history -----------------------------------------------------------------
    def run(self):
        try:
            for spec in self.inp["hist"]:
                self.run_call(spec)
            # (f) again at the end of the history, with freshly built argument arrays
            for spec, f1, method in self.done:
                m, fn, args = self.thunk(spec)
                snaps = [(n, o, obj_snap(o)) for n, o in args]
                r = self.call(fn)
                self.check_state(m, snaps, "the end-of-history repetition")
                if fp(r) != f1:
                    self.fail(m, "repeat-end", f"repeating {_brief(spec)} at the end of the history returned "
                              f"{_short(fp(r))}, first time {_short(f1)}")
            self.reused_buffer()
            self.ambient_errstate()
        except Stop:
            pass

    def ambient_errstate(self):
        """(h) the caller's ambient NumPy error state is not the library's business: a rate whose denominator is zero is NaN
        by a masked division that never evaluates 0/0, so `np.errstate(all="raise")` around a query changes nothing -
        same values, same shapes, no FloatingPointError (objects lacking a class, scalar and array thresholds)."""
        inp = self.inp
        kw = dict(score_class=inp["sc"], equal_class=inp["ec"])
        objs = [("no negatives", self.Scores(list(self.mpos) or [0.5], [], nb_easy_pos=inp["ep"], **kw)),
                ("no positives", self.Scores([], list(self.mneg) or [0.5], nb_easy_neg=inp["en"], **kw)),
                ("the object", self.s)]
        thr = np.array([0.0, 0.5])
        for what, o in objs:
            for name in ("tpr", "fnr", "tnr", "fpr", "topr", "tonr"):
                for arg in (thr, 0.25):
                    plain = self.call(getattr(o, name), arg)
                    with np.errstate(all="raise"):
                        strict = self.call(getattr(o, name), arg)
                    self.evals += 1
                    if plain[0] == "ok" and fp(strict) != fp(plain):
                        self.fail(name, "repeat", f"{name}({'array' if isinstance(arg, np.ndarray) else 'scalar'}) on an object with "
                                  f"{what} under np.errstate(all='raise'): {_short(fp(strict))}; without it {_short(fp(plain))}")
                        return

    def reused_buffer(self):
        """(g) ONE threshold array, refilled in place by the caller between two consecutive calls of the same query (a
        sweep that reuses its buffer): the second answer must be the answer for the values the array holds NOW, i.e. what
        an identical, freshly built object answers for a new array with those values.  Nothing else is called in between."""
        inp = self.inp
        vals = sorted(set(float(x) for x in self.mpos + self.mneg))
        if not vals:
            return
        fresh = self.Scores(list(self.mpos), list(self.mneg), nb_easy_pos=inp["ep"], nb_easy_neg=inp["en"],
                            score_class=inp["sc"], equal_class=inp["ec"])
        first = [vals[0] - 1.0, vals[len(vals) // 2], vals[-1] + 1.0]
        second = [vals[len(vals) // 3], vals[-1], vals[0]]
        names = ["cm", "tpr", "fnr", "tnr", "fpr", "topr", "tonr", "tar", "far"]
        k0 = (len(self.mpos) * 7 + len(self.mneg) * 3 + inp["ep"]) % len(names)
        for name in (names[k0], names[(k0 + 4) % len(names)]):
            buf = np.array(first, dtype=float)
            r1 = self.call(getattr(self.s, name), buf)
            buf[:] = second
            r2 = self.call(getattr(self.s, name), buf)
            want = self.call(getattr(fresh, name), np.array(second, dtype=float))
            self.evals += 2
            if r1[0] == "exc" or r2[0] == "exc" or want[0] == "exc":
                continue
            if fp(r2) != fp(want):
                self.fail(name, "repeat", f"{name}(buf) after the caller refilled buf in place with {second} returned "
                          f"{_short(fp(r2))}; an identical fresh object answers {_short(fp(want))} for these thresholds "
                          f"(the previous call was {name}(buf) with buf = {first})")
                return


def _scores_token(sw):
    return ":".join([str(int(sw.nb_easy_pos)), str(int(sw.nb_easy_neg)), sw.score_class.value,
                     sw.equal_class.value, ";".join(q(x) for x in np.asarray(sw.pos).tolist()),
                     ";".join(q(x) for x in np.asarray(sw.neg).tolist())])


def _short(x, n=120):
    r = repr(x)
    return r if len(r) <= n else r[:n] + "..."


def _brief(spec):
    d = {k: v for k, v in spec.items() if k not in ("cmm", "then")}
    return _short(d, 260)


# --------------------------------------------------------------------------------------
# case
# --------------------------------------------------------------------------------------
def _tags(inp, rn):
    t = [inp["stream"], f"cfg={inp['sc']},{inp['ec']}", f"ctor={inp['ctor']}", f"sorted={int(bool(inp['sorted']))}",
         f"dtype={inp['dtype']}"]
    if inp["ep"] or inp["en"]:
        t.append("easy")
    if not inp["pos"] or not inp["neg"]:
        t.append("empty-class")
    if inp.get("ctor_ro"):
        t.append("ctor-readonly")
    if inp["sorted"] and inp["ctor"] == "nd":
        t.append("object-aliases-caller-arrays")
    kinds, shapes, forms = set(), set(), set()
    for c in inp["hist"]:
        kinds.add(c["k"])
        a = c.get("arg")
        if a:
            shapes.add("X=" + "x".join(map(str, a["shape"])) if a["shape"] else "X=()")
            forms.add("as=" + a["as"] + ("/" + a["layout"] if a["as"] == "nd" and a["layout"] != "c" else ""))
    t += sorted("k=" + k for k in kinds) + sorted(shapes) + sorted(forms)
    n = len(inp["hist"])
    t.append("len<=10" if n <= 10 else "len<=30" if n <= 30 else "len<=60" if n <= 60 else "len>60")
    return tuple(t)


def build(inp) -> Case:
    inp = copy.deepcopy(inp)
    inp["pos"] = [float(common.unjson_num(x)) for x in inp["pos"]]
    inp["neg"] = [float(common.unjson_num(x)) for x in inp["neg"]]
    rn = Runner(inp)
    rn.run()
    pre = list(rn.issues)
    queries = list(rn.queries)
    rows = list(rn.shape_rows)
    lines = [line("hist", pos=ql(rn.mpos), neg=ql(rn.mneg), ep=inp["ep"], en=inp["en"], sc=inp["sc"],
                  ec=inp["ec"], sorted=int(rn.srt),
                  qs="[" + ",".join(t[0] for t in queries) + "]",
                  obs="[" + ",".join(t[1] for t in queries) + "]"),
             line("shapes", kinds="[" + ",".join(r[0] for r in rows) + "]",
                  **{"as": "[" + ",".join(sh(r[1]) for r in rows) + "]",
                     "xs": "[" + ",".join(sh(r[2]) for r in rows) + "]",
                     "outs": "[" + ",".join(sh(r[3]) for r in rows) + "]"})]
    inp["_evals"] = rn.evals
    case = Case(ID, inp, lines, None, _tags(inp, rn), 0, pre)
    scale = rn.scale
    ex_of = {m: thr_common.exact_case({**inp, "metric": m}) for m in gen.METRICS}

    def judge(outs):
        o, o2 = outs
        iss = []
        seen = set()

        def add(kind, method, clause, detail):
            sig = f"hist/{method}/{clause}"
            if sig not in seen:
                seen.add(sig)
                iss.append(Issue(kind, clause, f"{method}: {detail}"[:500], sig))

        mouts = common.plist(o["outs"])
        if len(mouts) != len(queries) or o.get("spec.length") != "1":
            add("DISAGREE", "history", "length", f"model returned {len(mouts)} outputs for {len(queries)} queries")
            return iss
        if o.get("pure") != "1":
            add("DISAGREE", "history", "model-pure", "the model's final state differs from its initial state")
        for (qt, ot, meta), mo, flag in zip(queries, mouts, common.plist(o["spec.repeat"])):
            method = meta["method"]
            if flag != "1":
                add("PROPFAIL", method, "repeat-spec", f"the same question ({qt}, aliases resolved) was answered "
                    f"differently at two points of the history; one answer: {ot}")
            parts = mo.split(":")
            if meta["k"] == "cm":
                if parts[0] != "c" or [int(x) for x in parts[1:5]] != meta["cells"]:
                    add("DISAGREE", method, "model-cm", f"cm({meta['e']!r}) impl={meta['cells']} model={mo}")
            elif meta["k"] == "rate":
                mv = common.pfrac(parts[1])
                iv = common.fr(meta["v"])
                good = (iv is None) if mv is None else (iv is not None and not isinstance(iv, float)
                                                        and abs(iv - mv) <= Fraction(1, 2**50) * abs(mv))
                if not good:
                    add("DISAGREE", method, "model-rate", f"{qt} impl={meta['v']!r} model={parts[1]}")
            elif meta["k"] == "thr":
                if parts[0] == "e":
                    add("DISAGREE", method, "model-error", f"{qt}: model raises {parts[1]} but implementation "
                        f"returned {meta['v']!r}")
                    continue
                mv, dist = common.pfrac(parts[1]), common.pfrac(parts[2])
                r = meta["e"]
                if meta["meth"] == "linear":
                    if not common.close(meta["v"], mv, rel=Fraction(1, 10**9), abs_=Fraction(1, 10**9), scale=scale):
                        add("DISAGREE", method, "model-linear", f"{qt} impl={meta['v']!r} model={float(mv)}")
                elif (not ex_of[meta["base"]]) and dist < Fraction(1, 10**6) and 0 < r < 1:
                    case.skipped += 1
                elif common.fr(meta["v"]) != mv:
                    add("DISAGREE", method, "model-" + meta["meth"], f"{qt} impl={meta['v']!r} model={float(mv)}")
            elif meta["k"] == "thr-err":
                if mo != "e:" + meta["exc"]:
                    add("DISAGREE", method, "model-error", f"{qt}: implementation raised {meta['exc']}, model {mo}")
            elif meta["k"] == "swap":
                want = ":".join(["s", str(meta["ep"]), str(meta["en"]), meta["sc"], meta["ec"],
                                 ";".join(q(x) for x in meta["pos"]), ";".join(q(x) for x in meta["neg"])])
                if mo != want:
                    add("DISAGREE", method, "model-swap", f"impl={want[:200]} model={mo[:200]}")
        flags = common.plist(o2["spec.shape"])
        if len(flags) != len(rows):
            add("DISAGREE", "history", "length", "shape rows lost in the driver")
        for (kind, a_, x_, out_, method), flag in zip(rows, flags):
            if flag != "1":
                want = {"m": "X+(2,2)", "r": "X", "p": "scores.shape+X+(2,2)"}[kind]
                add("PROPFAIL", method, "shape", f"result shape {tuple(out_)} for argument shape X={tuple(x_)}"
                    + (f", scores.shape={tuple(a_)}" if kind == "p" else "") + f"; expected {want}")
        return iss

    case.judge = judge
    return case


def shrink_candidates(inp):
    h = inp["hist"]
    n = len(h)
    if n > 1:
        for a, b in ((0, n // 2), (n // 2, n)):
            c = dict(inp); c["hist"] = h[a:b]; yield c
        for i in range(n):
            c = dict(inp); c["hist"] = h[:i] + h[i + 1:]; yield c
    for i, call in enumerate(h):
        if call.get("cmm"):
            c = dict(inp); cc = dict(call); cc["cmm"] = []; c["hist"] = h[:i] + [cc] + h[i + 1:]; yield c
        if call.get("then") is not None:
            c = dict(inp); cc = dict(call); cc["then"] = None; c["hist"] = h[:i] + [cc] + h[i + 1:]; yield c
    for key in ("pos", "neg"):
        xs = inp[key]
        if len(xs) > 1:
            c = dict(inp); c[key] = xs[:len(xs) // 2]; yield c
            for i in range(min(len(xs), 12)):
                c = dict(inp); c[key] = xs[:i] + xs[i + 1:]; yield c
    for key in ("ep", "en"):
        if inp[key] > 0:
            c = dict(inp); c[key] = 0; yield c
    if inp.get("ctor_ro"):
        c = dict(inp); c["ctor_ro"] = False; yield c
