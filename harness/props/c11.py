"""C11 — bootstrap samples are well-formed resamples of their source."""
from __future__ import annotations

import numpy as np

import common
import gen
import rng_script
from common import Case, Issue, q, ql, line
from rng_script import ScriptedRNG, adversarial

ID = "C11"
LEVEL = "proof"
RULE = ("case = one Scores object (both classes non-empty; for replacement/dynamic also an empty class; "
        "scored sizes 1..40 and 95..130 around the dynamic switch at 100; easy counts; 4 configurations) "
        "x every sampling method (replacement, single_pass, dynamic, proportion, callable, error branches) "
        "x stratification None/by_label x smoothing off (on where supported) x several RNG scripts "
        "(realistic answers from a private RandomState, adversarial in-support answers: all-zero "
        "multiplicities, binomials at 0 and n, constant choices) + runs with the real global RNG under "
        "np.random.seed; one evaluation = one bootstrap_sample call; non-trivial = distinct object with "
        "easy samples, ties, a size >= 95 or an empty class")
EXPLANATION = ("Theorems C11_* prove, for every script whose answers lie in the supports of the requested "
               "distributions, the property clauses of the model of _sampling_method/_sample_indices/"
               "bootstrap_sample. The correspondence run executes the real bootstrap_sample under a scripted "
               "RNG (np.random.binomial/poisson/choice/normal patched, answers recorded), feeds the same answers "
               "to the model and compares the request traces exactly (p/lam within 1e-12) and the samples exactly; "
               "the Lean spec predicates are evaluated on the implementation's own samples and request parameters. "
               "Unbiasedness: SA/Model/SamplingM.lean writes _sample_indices once over a monad; on scripts it is the model above "
               "(c11u_sampleIndicesM_state), on expectation oracles satisfying SA.C11U.Lawful (linearity, normalisation, support, "
               "textbook means) C11_unbiased proves mean multiplicity 1 and expected class/stratum sizes equal to the source's for "
               "the program without at-least-one corrections, which coincides with the model on every script that triggers no "
               "correction. Every sixth case also compares the exact expectation of the model under the true binomial/choice pmf "
               "(driver op c11expect, tiny sources) with the mean of 1500 real bootstrap_sample calls (6 standard errors).")
TRUSTED_BASE = ["Lean 4.33 kernel", "axioms propext/Classical.choice/Quot.sound only",
                "hand-written models SA/Model/Rng.lean, SA/Model/Sampling.lean tied to /repo by this run",
                "NumPy primitives by documented meaning: fancy indexing, np.repeat, np.arange, np.sort, and "
                "that np.random.{binomial,poisson,choice} answer inside the textbook supports with the textbook means "
                "(stated as the structure SA.C11U.Lawful, hypotheses of the C11_unbiased theorems; satisfiable: "
                "c11u_simpleOracle_lawful)",
                "harness (harness/common.py, harness/rng_script.py, props/c11.py) and driver parsing"]
ASSUMPTIONS = ["score_analysis draws randomness only through np.random.binomial/poisson/choice/normal (checked: a run "
               "under the scripted RNG leaves the global RandomState untouched)",
               "the float product ratio*n of proportion sampling is an oracle (checked to be a faithful rounding)",
               "smoothing noise is not modelled: with smoothing only flags, sizes, ordering are checked",
               "'stratifying by label preserves the four strata exactly' is read for replacement sampling; "
               "single-pass: easy strata exact, scored strata in expectation (request parameters)"]

ADV = ["zeros", "zeros+lo", "zeros+hi", "lo", "hi", "lo1", "hi1", "ones", "first", "last",
       "zeros+first", "zeros+last", "hi1+lo", "lo1+hi", "hi+last", "lo+first"]
METHODS = ["replacement", "single_pass", "dynamic"]


def n_cases(tier):
    return 960 if tier == "quick" else 6000


def _size(rng, large):
    if large:
        return rng.choice([95, 99, 100, 100, 100, 101, 104, 130, rng.randint(95, 130)])
    r = rng.random()
    if r < 0.35:
        return rng.randint(1, 4)
    return rng.randint(1, 40)


def _values(rng, n, loc):
    if n == 0:
        return []
    if rng.random() < 0.3:
        return gen.exact_values(rng, n)
    return gen.generic_values(rng, n, loc)


def _easy(rng, n):
    r = rng.random()
    if r < 0.4:
        return 0
    return rng.choice([1, 2, 5, n, 3 * n + 1, 30])


def _script(rng):
    if rng.random() < 0.5:
        return {"seed": rng.randrange(10**6), "mode": ""}
    return {"seed": rng.randrange(10**6), "mode": rng.choice(ADV)}


def gen_one(rng, i, tier):
    if i % 50 == 7:
        # a class of more than a thousand scores sampled at a small proportion (a quick look at 3 % of a large data set):
        # the requested number of DISTINCT scores, whatever shortcut the implementation takes for sparse draws
        npos = rng.choice([1000, 1200, 1500])
        pos = [k / 8.0 for k in rng.sample(range(-8000, 8000), npos)]
        neg = [k / 8.0 + 0.0625 for k in rng.sample(range(-8000, 8000), rng.randint(30, 60))]
        sc, ec = rng.choice(gen.CFGS)
        runs = [{"method": "proportion", "strat": rng.choice([None, "by_label"]), "smooth": False, "ratio": r_,
                 "script": {"real": rng.randrange(2**31 - 1)}} for r_ in (0.03, 0.05, 0.02)]
        return {"pos": pos, "neg": neg, "ep": rng.choice([0, 40]), "en": 0, "sc": sc, "ec": ec, "runs": runs, "bigprop": True}
    large = rng.random() < 0.25
    npos, nneg = _size(rng, large), _size(rng, large)
    if large and rng.random() < 0.2:
        nneg = _size(rng, False)
    empty = None
    if not large and rng.random() < 0.12:
        empty = rng.choice(["pos", "neg", "both"])
        if empty in ("pos", "both"):
            npos = 0
        if empty in ("neg", "both"):
            nneg = 0
    pos, neg = _values(rng, npos, 1.0), _values(rng, nneg, -1.0)
    if rng.random() >= 0.03:  # negative zeros only in a few cases (see corpus/C11/negzero_smoothing.json)
        pos, neg = [x + 0.0 for x in pos], [x + 0.0 for x in neg]
    sdt = None
    if empty is None and rng.random() < 0.12:
        # the source holds its scores in an integer dtype, also an unsigned one (quantised detector outputs): values -> dense
        # ranks (ties kept), spread over the dtype's range
        sdt = rng.choice(["u1", "u1", "u2", "i8"])
        vals = sorted(set(pos + neg))
        step_ = max(1, (250 if sdt == "u1" else 60000) // max(1, len(vals)))
        rank = {v: float(k * min(step_, 7)) for k, v in enumerate(vals)}
        if sdt == "u1" and max(rank.values(), default=0.0) > 255:
            sdt = "u2"
        pos, neg = [rank[x] for x in pos], [rank[x] for x in neg]
    ep, en = _easy(rng, max(npos, 1)), _easy(rng, max(nneg, 1))
    sc, ec = rng.choice(gen.CFGS)
    runs = []
    methods = METHODS if empty is None else ["replacement", "dynamic"]
    for m in methods:
        for strat in (None, "by_label"):
            scripts = [{"seed": rng.randrange(10**6), "mode": ""},
                       {"seed": rng.randrange(10**6), "mode": rng.choice(ADV)}, _script(rng)]
            for s in scripts:
                runs.append({"method": m, "strat": strat, "smooth": False, "ratio": None, "script": s})
    if empty is None:
        for strat in (None, "by_label"):
            runs.append({"method": "replacement", "strat": strat, "smooth": True, "ratio": None,
                         "script": _script(rng)})
        runs.append({"method": "dynamic", "strat": rng.choice([None, "by_label"]), "smooth": True,
                     "ratio": None, "script": _script(rng)})
        runs.append({"method": "single_pass", "strat": None, "smooth": True, "ratio": None,
                     "script": _script(rng)})
        for _ in range(3):
            ratio = rng.choice([0.5, 0.25, 0.1, 0.7, 0.9, 0.3, 0.99, 0.01, rng.random(), rng.random()])
            if not (0.0 < ratio < 1.0):
                ratio = 0.5
            runs.append({"method": "proportion", "strat": rng.choice([None, "by_label"]), "smooth": False,
                         "ratio": ratio, "script": {"seed": rng.randrange(10**6), "mode": ""}})
        runs.append({"method": "proportion", "strat": None, "smooth": False, "ratio": None,
                     "script": {"seed": 1, "mode": ""}})
    runs.append({"method": "bogus", "strat": None, "smooth": False, "ratio": None,
                 "script": {"seed": 1, "mode": ""}})
    runs.append({"method": "callable_id", "strat": None, "smooth": False, "ratio": None,
                 "script": {"seed": 1, "mode": ""}})
    runs.append({"method": "callable_count", "strat": None, "smooth": False, "ratio": None,
                 "script": {"seed": 1, "mode": ""}})
    runs.append({"method": "not_a_method", "strat": None, "smooth": False, "ratio": None,
                 "script": {"seed": 1, "mode": ""}})
    # exact expectation (true binomial / uniform-choice pmf, driver op c11expect) against a Monte-Carlo estimate from the
    # real code, on a tiny source with the case's shape (sizes clipped so that the exact sums stay small)
    if i % 6 == 0:
        strat_e = rng.choice([None, "by_label"])
        cap, ecap = (3, 2) if strat_e else (2, 1)  # non-stratified: the exact sum runs over three more binomials
        runs.append({"method": "expect", "strat": strat_e, "smooth": False, "ratio": None,
                     "script": {"seed": rng.randrange(2**31), "mode": ""}, "sp": rng.random() < 0.5,
                     "h": min(npos, cap), "k": min(nneg, cap), "ep": min(ep, ecap), "en": min(en, ecap), "n": 1500})
    # real global RNG
    for _ in range(3):
        m = rng.choice(methods + (["proportion"] if empty is None else []))
        runs.append({"method": m, "strat": rng.choice([None, "by_label"]), "smooth": False,
                     "ratio": rng.choice([0.5, 0.2, 0.8]) if m == "proportion" else None,
                     "script": {"real": rng.randrange(2**31)}})
    return {"pos": pos, "neg": neg, "ep": ep, "en": en, "sc": sc, "ec": ec, "runs": runs, "sdt": sdt}


def nontrivial(inp):
    return (inp["ep"] > 0 or inp["en"] > 0 or len(set(inp["pos"])) < len(inp["pos"])
            or len(set(inp["neg"])) < len(inp["neg"]) or max(len(inp["pos"]), len(inp["neg"])) >= 95
            or not inp["pos"] or not inp["neg"])


def _tags(inp):
    t = [f"cfg={inp['sc']},{inp['ec']}"]
    npos, nneg = len(inp["pos"]), len(inp["neg"])
    t.append("size>=100" if min(npos, nneg) >= 100 else ("size>=95" if max(npos, nneg) >= 95 else "small"))
    if min(npos, nneg) == 100:
        t.append("at-switch")
    if npos == 0 or nneg == 0:
        t.append("empty-class")
    if inp["ep"] or inp["en"]:
        t.append("easy")
    for r in inp["runs"]:
        t.append("run=" + r["method"] + ("/by_label" if r["strat"] else "") + ("/smooth" if r["smooth"] else "")
                 + ("/real" if "real" in r["script"] else ("/adv" if r["script"].get("mode") else "")))
    return tuple(t)


def _snapshot(s):
    return (np.asarray(s.pos).tobytes(), np.asarray(s.neg).tobytes(), str(np.asarray(s.pos).dtype),
            int(s.nb_easy_pos), int(s.nb_easy_neg), s.score_class.value, s.equal_class.value)


def _raise_sig(run, exc_name, msg):
    """signature of an exception where a sample was expected; the negative-zero bandwidth of the
    smoothing branch (np.random.normal(scale=-0.0) -> 'scale < 0') has its own signature"""
    if run["smooth"] and exc_name == "ValueError" and "scale < 0" in msg:
        return "smoothing/negative-zero-bandwidth"
    return _sig(run, "raises")


def _sig(run, clause):
    return f"{run['method']}/{run['strat']}/{'smooth' if run['smooth'] else 'plain'}/{clause}"


def _describe(inp, run):
    return (f"Scores(pos={inp['pos'] if len(inp['pos']) <= 8 else str(len(inp['pos'])) + ' values'}, "
            f"neg={inp['neg'] if len(inp['neg']) <= 8 else str(len(inp['neg'])) + ' values'}, "
            f"nb_easy_pos={inp['ep']}, nb_easy_neg={inp['en']}, {inp['sc']}/{inp['ec']})"
            f".bootstrap_sample(method={run['method']}, stratified={run['strat']}, smoothing={run['smooth']}, "
            f"ratio={run['ratio']}) script={run['script']}")


def build(inp) -> Case:
    from score_analysis import BootstrapConfig, Scores

    inp = dict(inp)
    pre, lines, judges = [], [], []
    sdt_ = {"u1": np.uint8, "u2": np.uint16, "i8": np.int64}.get(inp.get("sdt"), float)
    pa, na = np.array(inp["pos"], dtype=sdt_), np.array(inp["neg"], dtype=sdt_)
    pa0, na0 = pa.copy(), na.copy()
    s = Scores(pa, na, nb_easy_pos=inp["ep"], nb_easy_neg=inp["en"], score_class=inp["sc"],
               equal_class=inp["ec"])
    snap0 = _snapshot(s)
    held_pos, held_neg = np.asarray(s.pos).tolist(), np.asarray(s.neg).tolist()
    src = dict(pos=ql(held_pos), neg=ql(held_neg), ep=inp["ep"], en=inp["en"], sc=inp["sc"], ec=inp["ec"],
               sorted=1)
    gstate = np.random.get_state()
    retained, used_cfgs = [], []

    def retain(r, run, what, cfg):
        """keep the sample object alive together with a copy of what it held when it was returned: a sample must stay
        the well-formed resample it was, whatever is drawn from the same source afterwards"""
        if r[0] == "ok" and isinstance(r[1], Scores) and r[1] is not s:
            o_ = r[1]
            retained.append((run, what, o_, np.array(o_.pos, copy=True), np.array(o_.neg, copy=True),
                             int(o_.nb_easy_pos), int(o_.nb_easy_neg)))
            used_cfgs.append(cfg)

    def observed(r, run, what):
        """wire keys of an observed outcome; pre-issues for malformed samples"""
        if r[0] == "exc":
            return {"ores": r[1]}, None
        out = r[1]
        if not isinstance(out, Scores):
            pre.append(Issue("PROPFAIL", "type", f"{what}: returned {type(out).__name__}", _sig(run, "type")))
            return {"ores": "NotScores"}, None
        oep, oen = int(out.nb_easy_pos), int(out.nb_easy_neg)
        if oep < 0 or oen < 0:
            pre.append(Issue("PROPFAIL", "easy-nonneg", f"{what}: easy counts {oep}, {oen}",
                             _sig(run, "easy-nonneg")))
        op, on = np.asarray(out.pos), np.asarray(out.neg)
        if op.ndim != 1 or on.ndim != 1:
            pre.append(Issue("PROPFAIL", "shape", f"{what}: sample arrays of shape {op.shape}, {on.shape}",
                             _sig(run, "shape")))
            op, on = op.reshape(-1), on.reshape(-1)
        keys = {"ores": "ok", "opos": ql(op.tolist()), "oneg": ql(on.tolist()), "oep": max(oep, 0),
                "oen": max(oen, 0), "osc": out.score_class.value, "oec": out.equal_class.value}
        return keys, (op, on, oep, oen)

    for run in inp["runs"]:
        m = run["method"]
        what = _describe(inp, run)
        # ---------------------------------------------------------------- callables (harness only)
        if m in ("callable_id", "callable_count", "not_a_method"):
            calls = []
            if m == "callable_id":
                fn = lambda src_: (calls.append(src_), src_)[1]  # noqa: E731
                expect = s
            elif m == "callable_count":
                made = Scores([1.0, 2.0], [0.5], nb_easy_pos=3, score_class="neg", equal_class="neg")
                fn = lambda src_: (calls.append(src_), made)[1]  # noqa: E731
                expect = made
            else:
                fn, expect = 5, None
            with ScriptedRNG(seed=0) as rr:
                r = common.call(s.bootstrap_sample, BootstrapConfig(sampling_method=fn))
            if expect is None:
                if not (r[0] == "exc" and r[1] == "ValueError"):
                    pre.append(Issue("DISAGREE", "error-branch", f"{what}: non-string non-callable method gave {r[:2]}",
                                     _sig(run, "error-branch")))
            elif r[0] == "exc":
                pre.append(Issue("PROPFAIL", "callable", f"{what}: raised {r[1]}: {r[2]}", _sig(run, "callable")))
            elif r[1] is not expect or len(calls) != 1 or calls[0] is not s or rr.trace:
                pre.append(Issue("PROPFAIL", "callable",
                                 f"{what}: custom sampler must be called once with the source and its result "
                                 f"returned (calls={len(calls)}, rng requests={len(rr.trace)})", _sig(run, "callable")))
            continue
        # ---------------------------------------------------------------- exact expectation vs Monte-Carlo
        if m == "expect":
            h_, k_ = run["h"], run["k"]
            if h_ == 0 or k_ == 0:  # np.bincount on an empty class is not interesting here
                continue
            what = (f"Scores(pos=arange({h_}), neg=arange({k_})-100, nb_easy_pos={run['ep']}, nb_easy_neg={run['en']})"
                    f".bootstrap_sample(method={'single_pass' if run['sp'] else 'replacement'}, "
                    f"stratified={run['strat']}) x {run['n']} under np.random.seed({run['script']['seed']})")
            src_e = Scores(np.arange(h_, dtype=float), np.arange(k_, dtype=float) - 100.0, nb_easy_pos=run["ep"],
                           nb_easy_neg=run["en"])
            cfg_e = BootstrapConfig(sampling_method="single_pass" if run["sp"] else "replacement",
                                    stratified_sampling=run["strat"])
            np.random.seed(run["script"]["seed"])
            tot, tot2, failed = np.zeros(h_ + k_ + 4), np.zeros(h_ + k_ + 4), None
            for _ in range(run["n"]):
                r = common.call(src_e.bootstrap_sample, cfg_e)
                if r[0] == "exc":
                    failed = r
                    break
                o_ = r[1]
                row = np.concatenate([np.bincount(np.asarray(o_.pos).astype(int), minlength=h_)[:h_],
                                      np.bincount((np.asarray(o_.neg) + 100.0).astype(int), minlength=k_)[:k_],
                                      [len(o_.pos), len(o_.neg), int(o_.nb_easy_pos), int(o_.nb_easy_neg)]]).astype(float)
                tot += row
                tot2 += row * row
            if failed is not None:
                pre.append(Issue("PROPFAIL", "raises", f"{what}: raised {failed[1]}: {failed[2]}", _sig(run, "raises")))
                continue
            lines.append(line("c11expect", h=h_, k=k_, ep=run["ep"], en=run["en"],
                              strat=int(run["strat"] == "by_label"), sp=int(run["sp"]), corr=1))
            judges.append(("expect", run, what, None, (tot / run["n"]).tolist(), None))
            continue
        wire_method = m if m in ("replacement", "single_pass", "dynamic", "proportion") else "unknown"
        cfg = BootstrapConfig(sampling_method=m, stratified_sampling=run["strat"], smoothing=run["smooth"],
                              ratio=run["ratio"])
        ratio = run["ratio"]
        conf = dict(method=wire_method, strat=int(run["strat"] == "by_label"), smooth=int(run["smooth"]),
                    ratio="none" if ratio is None else q(float(ratio)),
                    prods="[]" if ratio is None else ql([ratio * len(held_pos), ratio * len(held_neg),
                                                         ratio * inp["ep"], ratio * inp["en"]]))
        # ---------------------------------------------------------------- real global RNG
        if "real" in run["script"]:
            seed = run["script"]["real"]
            np.random.seed(seed)
            r1 = common.call(s.bootstrap_sample, cfg)
            retain(r1, run, what, cfg)
            np.random.seed(seed)
            r2 = common.call(s.bootstrap_sample, cfg)
            k1, o1 = observed(r1, run, what)
            k2, o2 = observed(r2, run, what)
            if r1[0] == "exc":
                pre.append(Issue("PROPFAIL", "raises", f"{what}: raised {r1[1]}: {r1[2]}",
                                 _raise_sig(run, r1[1], r1[2])))
                continue
            same = (o1 is not None and o2 is not None and o1[0].tobytes() == o2[0].tobytes()
                    and o1[1].tobytes() == o2[1].tobytes() and o1[2:] == o2[2:]
                    and k1["osc"] == k2["osc"] and k1["oec"] == k2["oec"])
            if not same:
                pre.append(Issue("PROPFAIL", "reproducible", f"{what}: same seed, different sample",
                                 _sig(run, "reproducible")))
            if o1 is None:
                continue
            lines.append(line("sample", **src, **conf, hastrace=0, **k1))
            judges.append(("real", run, what, None, o1, k1))
            continue
        # ---------------------------------------------------------------- scripted RNG
        sc_ = run["script"]
        with ScriptedRNG(seed=sc_["seed"], policy=adversarial(sc_["mode"]) if sc_["mode"] else None) as rr:
            r = common.call(s.bootstrap_sample, cfg)
        retain(r, run, what, cfg)
        bad = [e for e in rr.trace if e["raised"] is None and not rng_script.in_range(e, e["resp"])]
        if bad:
            pre.append(Issue("ERR", "script", f"harness produced an out-of-support answer: {bad[0]}", "script"))
        keys, o = observed(r, run, what)
        lines.append(line("sample", **src, **conf, hastrace=1, **rng_script.encode_script(rr.trace),
                          **rng_script.encode_requests(rr.trace, "q"), **keys))
        judges.append(("scripted", run, what, rr.trace, o, keys if r[0] == "ok" else {"ores": r[1], "msg": r[2]}))

    # one more draw per configuration used (different seed), then every sample returned earlier must be untouched
    for k_, cfg_ in enumerate(used_cfgs[:6]):
        np.random.seed(977 + k_)
        common.call(s.bootstrap_sample, cfg_)
    for run_, what_, o_, p0_, n0_, ep0_, en0_ in retained:
        now_p, now_n = np.asarray(o_.pos), np.asarray(o_.neg)
        if (now_p.shape != p0_.shape or now_n.shape != n0_.shape or now_p.tobytes() != p0_.tobytes()
                or now_n.tobytes() != n0_.tobytes() or (int(o_.nb_easy_pos), int(o_.nb_easy_neg)) != (ep0_, en0_)):
            srt = bool(np.all(np.diff(now_p) >= 0)) and bool(np.all(np.diff(now_n) >= 0))
            pre.append(Issue("PROPFAIL", "sorted" if not srt else "membership",
                             f"{what_}: the returned sample changed when further samples were drawn from the same source "
                             f"(pos {p0_.tolist()[:6]} -> {now_p.tolist()[:6]}, neg {n0_.tolist()[:6]} -> {now_n.tolist()[:6]}; "
                             f"still ordered: {srt}): it is no longer the resample that was returned",
                             _sig(run_, "retained")))
            break
    np.random.set_state(gstate)
    if _snapshot(s) != snap0:
        pre.append(Issue("PROPFAIL", "source-unchanged", "the source object changed during sampling", "source"))
    if pa.tobytes() != pa0.tobytes() or na.tobytes() != na0.tobytes():
        pre.append(Issue("PROPFAIL", "source-unchanged", "the caller's arrays changed during sampling", "caller"))
    # the declared easy counts are public attributes: after they are reassigned on an object that has already been sampled
    # (so every derived ratio has been read), the next sample is drawn from the source AS IT IS NOW
    if inp["pos"] and inp["neg"] and not inp.get("bigprop") and any(r["method"] == "replacement" for r in inp["runs"]):
        s.nb_easy_neg = int(s.nb_easy_neg) + 7
        s.nb_easy_pos = int(s.nb_easy_pos) + 3
        run_h = {"method": "replacement", "strat": None, "smooth": False, "ratio": None, "script": {"seed": 4242, "mode": ""}}
        with ScriptedRNG(seed=4242) as rr:
            r = common.call(s.bootstrap_sample, BootstrapConfig(sampling_method="replacement"))
        what_h = _describe(dict(inp, ep=inp["ep"] + 3, en=inp["en"] + 7), run_h) + " after nb_easy_* were reassigned on the sampled object"
        keys, o = observed(r, run_h, what_h)
        src_h = dict(src, ep=inp["ep"] + 3, en=inp["en"] + 7)
        lines.append(line("sample", **src_h, method="replacement", strat=0, smooth=0, ratio="none", prods="[]", hastrace=1,
                          **rng_script.encode_script(rr.trace), **rng_script.encode_requests(rr.trace, "q"), **keys))
        judges.append(("scripted", run_h, what_h, rr.trace, o, keys if r[0] == "ok" else {"ores": r[1], "msg": r[2]}))
        s.nb_easy_neg, s.nb_easy_pos = inp["en"], inp["ep"]
    inp["_evals"] = len(inp["runs"])

    def judge(outs):
        iss = []
        for (kind, run, what, trace, o, keys), out in zip(judges, outs):
            if kind == "expect":
                # means of the multiplicities of every scored sample and of the four stratum sizes: exact (model, true pmf)
                # against Monte-Carlo (real code); tolerance 6 standard errors from the EXACT variance plus 4/n
                m1 = common.pfracs(out["pos1"]) + common.pfracs(out["neg1"]) + common.pfracs(out["size1"])
                m2 = common.pfracs(out["pos2"]) + common.pfracs(out["neg2"]) + common.pfracs(out["size2"])
                names = ([f"multiplicity of pos[{j}]" for j in range(run["h"])]
                         + [f"multiplicity of neg[{j}]" for j in range(run["k"])]
                         + ["len(pos)", "len(neg)", "nb_easy_pos", "nb_easy_neg"])
                if out["mass"] != "1" or len(m1) != len(o):
                    iss.append(Issue("ERR", "expect", f"{what}: malformed exact expectation {out}", "expect"))
                    continue
                claimed = [1] * (run["h"] + run["k"]) + [run["h"], run["k"], run["ep"], run["en"]]
                for nm, a1, a2, est, tgt in zip(names, m1, m2, o, claimed):
                    var = max(float(a2 - a1 * a1), 0.0)
                    tol = 6.0 * (var / run["n"]) ** 0.5 + 4.0 / run["n"] if var > 0 else 1e-9
                    if abs(est - float(a1)) > tol:
                        # where the model's exact mean IS the unbiased value (no correction can fire, e.g. by_label +
                        # replacement) a deviating sample mean contradicts the property itself; elsewhere it contradicts
                        # the model of the corrections
                        unb = a1 == tgt
                        iss.append(Issue("PROPFAIL" if unb else "DISAGREE", "unbiased-mean" if unb else "expectation",
                                         f"{what}: mean {nm} over {run['n']} samples = {est:.5f}, exact expectation "
                                         f"of the model under the true binomial/choice pmf = {float(a1):.5f} (tolerance {tol:.5f})",
                                         _sig(run, "unbiased-mean" if unb else "expectation")))
                continue
            spec = {k[5:]: v for k, v in out.items() if k.startswith("spec.")}
            for clause, v in spec.items():
                if v == "0":
                    extra = ""
                    if clause in ("unbiased", "dynamic") and trace is not None:
                        extra = " requests: " + rng_script.brief(trace)
                    elif o is not None:
                        extra = (f" sample: pos={o[0].tolist() if len(o[0]) <= 8 else len(o[0])} "
                                 f"neg={o[1].tolist() if len(o[1]) <= 8 else len(o[1])} easy={o[2]},{o[3]} "
                                 f"flags={keys.get('osc')},{keys.get('oec')}")
                    iss.append(Issue("PROPFAIL", clause, f"{what}:{extra}", _sig(run, clause)))
            if out.get("oracle.fmul") == "0":
                iss.append(Issue("ERR", "oracle", f"{what}: float product oracle not faithful", "oracle"))
            if kind == "real":
                continue
            mres = out["mres"]
            if keys["ores"] != "ok":
                if mres == "ok":
                    iss.append(Issue("PROPFAIL", "raises", f"{what}: raised {keys['ores']}: {keys.get('msg', '')} "
                                     f"(a sample exists for every in-support script)",
                                     _raise_sig(run, keys["ores"], keys.get("msg", ""))))
                elif mres != keys["ores"]:
                    iss.append(Issue("DISAGREE", "error-branch", f"{what}: impl raised {keys['ores']}, model {mres}",
                                     _sig(run, "error-branch")))
            elif mres != "ok":
                iss.append(Issue("DISAGREE", "error-branch", f"{what}: impl returned a sample, model raises {mres}",
                                 _sig(run, "error-branch")))
            if out["tracediff"] != "-1":
                mt = rng_script.decode_requests(out, "m")
                iss.append(Issue("DISAGREE", "trace", f"{what}: request #{out['tracediff']} differs; impl: "
                                 f"{rng_script.brief(trace)}; model: {[(e['prim'], e['n'], e['size'], e['replace'], float(e['p'])) for e in mt]}",
                                 _sig(run, "trace")))
            elif out["mok"] != "1" or out["left"] != "0":
                iss.append(Issue("ERR", "script", f"{what}: model run not ok on the implementation's answers "
                                 f"(ok={out['mok']}, unread={out['left']})", "script"))
            if keys["ores"] == "ok" and mres == "ok" and o is not None:
                mp, mn = common.pfracs(out["mpos"]), common.pfracs(out["mneg"])
                ip, in_ = [common.fr(x) for x in o[0].tolist()], [common.fr(x) for x in o[1].tolist()]
                if run["smooth"]:
                    arrays_ok = len(mp) == len(ip) and len(mn) == len(in_)
                else:
                    arrays_ok = mp == ip and mn == in_
                if not arrays_ok:
                    iss.append(Issue("DISAGREE", "sample", f"{what}: impl pos={o[0].tolist()[:12]} neg={o[1].tolist()[:12]}; "
                                     f"model pos={out['mpos'][:120]} neg={out['mneg'][:120]}", _sig(run, "sample")))
                if (int(out["mep"]), int(out["men"])) != (o[2], o[3]):
                    iss.append(Issue("DISAGREE", "easy", f"{what}: impl easy={o[2]},{o[3]} model={out['mep']},{out['men']}",
                                     _sig(run, "easy")))
                if (out["msc"], out["mec"]) != (keys["osc"], keys["oec"]):
                    iss.append(Issue("DISAGREE", "flags", f"{what}: impl {keys['osc']},{keys['oec']} model {out['msc']},{out['mec']}",
                                     _sig(run, "flags")))
        return iss

    return Case(ID, inp, lines, judge, _tags(inp), 0, pre)


def shrink_candidates(inp):
    runs = inp["runs"]
    if len(runs) > 1:
        for r in runs:
            c = dict(inp); c["runs"] = [r]; yield c
    for key in ("pos", "neg"):
        xs = inp[key]
        if len(xs) > 8:
            c = dict(inp); c[key] = xs[: len(xs) // 2]; yield c
        for i in range(len(xs)):
            if len(xs) > 1:
                c = dict(inp); c[key] = xs[:i] + xs[i + 1:]; yield c
    for key in ("ep", "en"):
        if inp[key] > 0:
            c = dict(inp); c[key] = 0; yield c
            if inp[key] > 1:
                c = dict(inp); c[key] = 1; yield c
    for key in ("pos", "neg"):
        xs = inp[key]
        for i, x in enumerate(xs):
            if x != round(x):
                c = dict(inp); c[key] = xs[:i] + [float(round(x))] + xs[i + 1:]; yield c
    if len(runs) == 1 and "mode" in runs[0]["script"] and runs[0]["script"]["seed"] > 3:
        for sd in (0, 1, 2, 3):
            c = dict(inp); r = dict(runs[0]); r["script"] = dict(r["script"], seed=sd); c["runs"] = [r]; yield c


# --------------------------------------------------------------------------------------
# second tie: the decision tables of this property regenerated from the source on every run
# (harness/dectables2.py -> generated Lean file checked by the kernel; bridge: SA/Theorems/DecTables2.lean)
# --------------------------------------------------------------------------------------
def extra_gate_start():
    """start the translator + Lean check in a child process; the cases run meanwhile"""
    import common
    import dectables2
    return dectables2.start(common.REPO)


def extra_gate_finish(handle):
    """-> {problems, theorems, obligations, discharged, notes, evidence}; a definite mismatch of a table row is a
    broken proof obligation, `unknown` rows are evidence only"""
    import dectables2
    return dectables2.gate_result(dectables2.finish(handle), ID)
