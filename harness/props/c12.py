"""C12 — group labels stay attached to their scores; groups partition the data.

One case = ONE labelled score set (1-4 groups, groups may lack a class) turned into a GroupScores
object by one of three routes, and on it

  (a) construction: held arrays sorted, multiset of (score, label) pairs preserved per class
      (Lean `permOK`, `sortedOK`), group list; `swap()` (`swapOK`); `gs[g]` for every listed group
      (`getitemOK`), cache identity, unknown group -> ValueError,
  (b) matrices: `group_cm(thresholds)` of shape (G, T, 2, 2) = counting on the filtered data
      (`groupCmOK`), sum over groups = `cm(thresholds)` (`partitionOK`, when the group list is
      duplicate-free and covers the labels), the 12 `group_*` metrics, `groupwise(...)`,
      a random HISTORY of gs[g] / group_cm / group_<rate> / cm calls on a fresh object compared
      with fresh objects (history independence) and with the Lean cache state machine,
  (c) sampling: every method x stratification under a scripted RNG (harness/rng_script.py): request
      trace and sample compared with the model, Lean predicates `attachedOK`, `sortedOK`,
      `namesOK`, `flagsOK`, `groupCountsOK`, `stratReqsOK` on the implementation's own samples and
      requests; a pass with the real global RNG under np.random.seed; error branches.

Group names (strings, ints) are mapped to Nat codes preserving their Python sort order; NumPy's
argsort is not stable, so label sequences are compared as multisets inside blocks of tied scores.
"""
from __future__ import annotations

from fractions import Fraction

import numpy as np

import common
import gen
import rng_script
from common import Case, Issue, q, ql, il, line
from rng_script import ScriptedRNG, adversarial

ID = "C12"
LEVEL = "proof"
RULE = ("case = one labelled score set (1-4 groups named by strings / numeric-looking strings / mixed-case "
        "strings / ints / negative ints; groups lacking a class, occasionally a whole class empty; scores "
        "tie-free, label-coded (the score identifies its label), heavily tied across groups, or generic "
        "floats; sizes 0..12 per group and class, 8% with >= 100 per class for the dynamic switch; 4 "
        "configurations; default or explicit group_names: permuted, with an extra empty group, or omitting a "
        "label) built by the constructor, by from_labels, or with is_sorted=True on pre-sorted input; "
        "x swap, gs[g] for every group, 8-12 thresholds incl. +-inf and score values, 12 group_* metrics, "
        "groupwise(str / callable), a random history of 6-12 cached queries, "
        "x 9 sampling modes (replacement/single_pass/dynamic x None/by_label/by_group) x 3 scripts "
        "(realistic, adversarial in-support answers, either) + 2 runs with the real global RNG + error branches; "
        "evaluations = implementation calls; non-trivial = at least 2 groups and an unsorted class")
EXPLANATION = ("Theorems C12_* prove the clauses for the model of GroupScores (pairs (score, group code), joint "
               "sort, explicit cache state machine, sampling on a scripted RNG reusing the C11 model of "
               "_sample_indices). The correspondence run builds the real object, sends the input and the "
               "observed arrays to the model (gbuild), evaluates the Lean predicates on the implementation's "
               "own arrays, per-group matrices (gcm) and samples (gsample), compares request traces exactly "
               "and samples exactly (up to the order inside tied blocks after an argsort).")
TRUSTED_BASE = ["Lean 4.33 kernel", "axioms propext/Classical.choice/Quot.sound only",
                "hand-written models SA/Model/Group.lean, SA/Model/Sampling.lean, SA/Model/Rng.lean tied to "
                "/repo by this run",
                "NumPy primitives by documented meaning: argsort sorts (not necessarily stably), boolean-mask "
                "and fancy indexing, np.stack / np.concatenate, np.searchsorted",
                "the harness maps group names to Nat codes preserving sorted() order "
                "(harness/common.py, harness/rng_script.py, props/c12.py) and driver parsing"]
ASSUMPTIONS = ["group names of one object are mutually comparable and hashable (all str or all int), as "
               "sorted(set(...)) in the constructor requires",
               "the partition clause is claimed when the group list is duplicate-free and contains every label "
               "in the data (always for the default list); otherwise it is reported 'na'",
               "'stratifying by group preserves each group's sample count' is read for replacement sampling "
               "(explicit or chosen by 'dynamic'); single-pass sample sizes vary by design",
               "score_analysis draws randomness only through np.random.binomial/poisson/choice",
               "swap() does not forward group_names (the swapped object lists the default groups): modelled as coded"]

ADV = ["zeros", "zeros+lo", "zeros+hi", "lo", "hi", "lo1", "hi1", "ones", "first", "last",
       "zeros+first", "zeros+last", "hi1+lo", "lo1+hi", "hi+last", "lo+first"]
METHODS = ["replacement", "single_pass", "dynamic"]
STRATS = [None, "by_label", "by_group"]
RATES = gen.METRICS + [gen.ALIASES[m] for m in gen.METRICS]
NAME_POOLS = {
    "many-str": ["k%02d" % j for j in range(40)],
    "many-int": [3 * j - 20 for j in range(40)],
    "str": ["a", "b", "c", "d", "e"],
    "str2": ["g1", "g10", "g2", "g21", "g3"],
    "mixed": ["B", "a", "C", "d", "Ab", "aB"],
    "int": [0, 1, 2, 3, 10, 7],
    "negint": [-3, -1, 0, 5, 12, 100],
    # int64 labels that float64 cannot tell apart (ids / hashes): a float round trip merges neighbours
    "bigint": [2**53, 2**53 + 1, 2**53 + 2, 2**53 + 3, 2**62 + 1, 2**62],
}


def n_cases(tier):
    return 960 if tier == "quick" else 7680


# --------------------------------------------------------------------------------------
# generation
# --------------------------------------------------------------------------------------
def _scores_for(rng, mode, sizes, ncodes):
    """sizes: list of (class, group index) per sample; returns one float per sample"""
    n = len(sizes)
    if mode == "tiefree":
        vals = rng.sample(range(-800, 800), n)
        return [v / 8.0 for v in vals]
    if mode == "coded":  # fractional part identifies the label; integer parts collide
        return [float(rng.randint(-3, 3)) + (gi + 1) / 16.0 for (_, gi) in sizes]
    if mode == "ties":
        pool = [rng.randint(-16, 16) / 4.0 for _ in range(rng.randint(2, 4))]
        return [rng.choice(pool) for _ in range(n)]
    if mode == "mixed":
        pool = [rng.randint(-16, 16) / 4.0 for _ in range(3)]
        return [rng.choice(pool) if rng.random() < 0.5 else float(rng.randint(-3, 3)) + (gi + 1) / 16.0
                for (_, gi) in sizes]
    return [rng.gauss(0.0, 1.5) for _ in range(n)]


def _script(rng):
    if rng.random() < 0.5:
        return {"seed": rng.randrange(10**6), "mode": ""}
    return {"seed": rng.randrange(10**6), "mode": rng.choice(ADV)}


def gen_one(rng, i, tier):
    kind = rng.choice(list(NAME_POOLS))
    G = rng.choice([1, 2, 2, 3, 3, 3, 4, 4])
    if rng.random() < 0.06:
        # many groups (a breakdown by country / device): anything that switches strategy with the number of groups
        kind = rng.choice(["many-str", "many-int"])
        G = rng.choice([17, 20, 24, 33])
    names = rng.sample(NAME_POOLS[kind], G)
    large = rng.random() < 0.08 and G <= 4
    members = []  # (class, group index)
    empty_class = rng.choice(["pos", "neg"]) if (not large and rng.random() < 0.04) else None
    for gi in range(G):
        if large:
            npos, nneg = rng.randint(100 // G + 1, 130 // G + 2), rng.randint(100 // G + 1, 130 // G + 2)
        else:
            npos, nneg = rng.randint(0, 8), rng.randint(0, 8)
            if rng.random() < 0.15:
                npos = rng.randint(8, 12)
            r = rng.random()
            if r < 0.15:
                npos = 0
            elif r < 0.30:
                nneg = 0
        if empty_class == "pos":
            npos = 0
        if empty_class == "neg":
            nneg = 0
        members += [("pos", gi)] * npos + [("neg", gi)] * nneg
    if not members:
        members = [("pos", 0)]
    rng.shuffle(members)
    mode = rng.choice(["tiefree", "coded", "coded", "ties", "ties", "mixed", "generic"])
    vals = _scores_for(rng, mode, members, G)
    sdt = None
    if rng.random() < 0.14:
        # integer / unsigned score arrays, given unsorted (np.diff of unsigned data wraps around; an int8 difference
        # overflows): the order type of the data is kept (values -> ranks, scaled)
        sdt = rng.choice(["u1", "u1", "u2", "i8", "i1"])
        uniq = sorted(set(vals))
        step_ = rng.choice([1, 2]) if len(uniq) <= 100 else 1
        if len(uniq) * step_ <= 250:
            off_ = rng.choice([0, 3]) if sdt != "i1" else -120
            if sdt == "i1" and len(uniq) * step_ > 240:
                sdt = "u1"; off_ = 0
            rk = {v: float(off_ + step_ * k) for k, v in enumerate(uniq)}
            vals = [rk[v] for v in vals]
        else:
            sdt = "i8"
            rk = {v: float(k) for k, v in enumerate(uniq)}
            vals = [rk[v] for v in vals]
    samples = [(c, names[gi], v) for (c, gi), v in zip(members, vals)]
    sc, ec = rng.choice(gen.CFGS)
    route = rng.choice(["ctor", "ctor", "ctor", "from_labels", "sorted"])
    group_names = None
    gn_kind = "default"
    if route != "from_labels":
        r = rng.random()
        present = sorted(set(s[1] for s in samples))
        if r < 0.28:
            group_names = list(names); rng.shuffle(group_names); gn_kind = "permuted"
        elif r < 0.38:
            extra = [x for x in NAME_POOLS[kind] if x not in names]
            group_names = list(names) + extra[:1]; rng.shuffle(group_names); gn_kind = "extra"
        elif r < 0.43 and len(present) >= 2:
            drop = rng.choice(present)
            group_names = [x for x in names if x != drop]; rng.shuffle(group_names)
            gn_kind = "omits"
    pos_label = rng.choice([1, "P"])
    # thresholds
    allv = sorted(set(vals))
    ts = [float("-inf"), float("inf")]
    for _ in range(rng.randint(6, 10)):
        r = rng.random()
        if r < 0.5:
            ts.append(rng.choice(allv))
        elif r < 0.8 and len(allv) >= 2:
            j = rng.randrange(len(allv) - 1)
            ts.append((allv[j] + allv[j + 1]) / 2.0)
        else:
            ts.append(rng.choice([allv[0] - 1.0, allv[-1] + 1.0, 0.0]))
    rng.shuffle(ts)
    # history of cached queries
    pool_unknown = [x for x in NAME_POOLS[kind] if x not in names and x not in (group_names or [])]
    unknown = pool_unknown[0] if pool_unknown else (max(NAME_POOLS[kind]) * 2 if kind in ("int", "negint", "bigint") else "zz")
    listed = group_names if group_names is not None else sorted(set(s[1] for s in samples))
    hist = []
    for _ in range(rng.randint(6, 12)):
        r = rng.random()
        if r < 0.35 and listed:
            hist.append(["gi", rng.choice(listed)])
        elif r < 0.42:
            hist.append(["gi", unknown])
        elif r < 0.65:
            hist.append(["gcm", rng.randrange(len(ts))])
        elif r < 0.88:
            hist.append(["gr", rng.choice(RATES), rng.randrange(len(ts))])
        else:
            hist.append(["cm", rng.randrange(len(ts))])
    # sampling runs
    runs = []
    for m in METHODS:
        for st in STRATS:
            runs.append({"method": m, "strat": st, "smooth": False, "script": {"seed": rng.randrange(10**6), "mode": ""}})
            runs.append({"method": m, "strat": st, "smooth": False,
                         "script": {"seed": rng.randrange(10**6), "mode": rng.choice(ADV)}})
            runs.append({"method": m, "strat": st, "smooth": False, "script": _script(rng)})
    runs.append({"method": "proportion", "strat": rng.choice(STRATS), "smooth": False, "script": {"seed": 1, "mode": ""}})
    runs.append({"method": rng.choice(METHODS), "strat": rng.choice(STRATS), "smooth": True, "script": {"seed": 1, "mode": ""}})
    runs.append({"method": rng.choice(["replacement", "single_pass"]), "strat": "by_foo", "smooth": False,
                 "script": {"seed": 1, "mode": ""}})
    runs.append({"method": "bogus", "strat": rng.choice(STRATS), "smooth": False, "script": {"seed": 1, "mode": ""}})
    for _ in range(2):
        runs.append({"method": rng.choice(METHODS), "strat": rng.choice(STRATS), "smooth": False,
                     "script": {"real": rng.randrange(2**31)}})
    return {"sdt": sdt, "kind": kind, "samples": samples, "sc": sc, "ec": ec, "route": route, "group_names": group_names,
            "gn_kind": gn_kind, "pos_label": pos_label, "ts": ts, "unknown": unknown, "hist": hist,
            "runs": runs, "mode": mode}


def _classes(inp):
    pos = [(s[2], s[1]) for s in inp["samples"] if s[0] == "pos"]
    neg = [(s[2], s[1]) for s in inp["samples"] if s[0] == "neg"]
    return pos, neg


def nontrivial(inp):
    pos, neg = _classes(inp)
    labels = set(p[1] for p in pos + neg)
    unsorted_ = any([p[0] for p in c] != sorted(p[0] for p in c) for c in (pos, neg))
    return len(labels) >= 2 and (unsorted_ or inp["route"] == "sorted")


def _tags(inp):
    pos, neg = _classes(inp)
    t = [f"cfg={inp['sc']},{inp['ec']}", "names=" + inp["kind"], "route=" + inp["route"], "gn=" + inp.get("gn_kind", "?"),
         "scores=" + inp.get("mode", "?"), f"G={len(set(p[1] for p in pos + neg))}"]
    if inp.get("sdt"):
        t.append("score-dtype=" + inp["sdt"])
    if min(len(pos), len(neg)) >= 100:
        t.append("size>=100")
    if not pos or not neg:
        t.append("empty-class")
    labs = set(p[1] for p in pos + neg)
    if any(not any(p[1] == g for p in pos) or not any(p[1] == g for p in neg) for g in labs):
        t.append("group-lacks-class")
    for r in inp["runs"]:
        t.append("run=" + str(r["method"]) + "/" + str(r["strat"]) + ("/smooth" if r["smooth"] else "")
                 + ("/real" if "real" in r["script"] else ("/adv" if r["script"].get("mode") else "")))
    return tuple(t)


# --------------------------------------------------------------------------------------
# helpers
# --------------------------------------------------------------------------------------
def _sig(run, clause):
    return f"{run['method']}/{run['strat']}/{'smooth' if run['smooth'] else 'plain'}/{clause}"


def _plain(x):
    return x.item() if isinstance(x, np.generic) else x


class Codes:
    """group name <-> Nat code, preserving sorted() order"""

    def __init__(self, names):
        self.names = sorted(set(names))
        self.code = {n: i for i, n in enumerate(self.names)}

    def of(self, x):
        """code of an observed label (None when it is not one of the names)"""
        x = _plain(x)
        try:
            return self.code.get(x)
        except TypeError:
            return None

    def of_list(self, xs):
        return [self.of(x) for x in np.asarray(xs).reshape(-1).tolist()]


def _short(xs, n=10):
    xs = list(xs)
    return str(xs) if len(xs) <= n else f"{xs[:n]}...({len(xs)})"


def _eq_nan(a, b):
    a, b = np.asarray(a, dtype=float), np.asarray(b, dtype=float)
    return a.shape == b.shape and bool(np.all((a == b) | (np.isnan(a) & np.isnan(b))))


def _pairs_equal(os_, oc, ms, mc, exact):
    if os_ != ms:
        return False
    if exact:
        return oc == mc
    return sorted(zip(os_, oc)) == sorted(zip(ms, mc))


def _fr_list(xs):
    return [common.fr(x) for x in xs]


# --------------------------------------------------------------------------------------
# build
# --------------------------------------------------------------------------------------
def build(inp) -> Case:
    from score_analysis import BootstrapConfig, GroupScores, Scores
    from score_analysis.group_scores import groupwise

    inp = dict(inp)
    pre, lines, judges = [], [], []
    evals = 0
    pos_in, neg_in = _classes(inp)
    sc, ec = inp["sc"], inp["ec"]
    gn = inp["group_names"]
    codes = Codes([p[1] for p in pos_in + neg_in] + list(gn or []) + [inp["unknown"]]
                  + [h[1] for h in inp["hist"] if h[0] == "gi"])
    route = inp["route"]
    if route == "sorted":  # the caller's contract: pre-sorted input
        pos_in = sorted(pos_in, key=lambda p: p[0])
        neg_in = sorted(neg_in, key=lambda p: p[0])
    what0 = (f"GroupScores[{route}](pos={_short(pos_in)}, neg={_short(neg_in)}, {sc}/{ec}, group_names={gn})")

    npdt = {"u1": np.uint8, "u2": np.uint16, "i8": np.int64, "i1": np.int8}.get(inp.get("sdt"), float)

    caller = {}

    def construct():
        if route == "from_labels":
            pl = inp["pos_label"]
            other = 0 if pl == 1 else "N"
            labels = [pl if s[0] == "pos" else other for s in inp["samples"]]
            sco_ = [s[2] for s in inp["samples"]]
            if npdt is not float:
                sco_ = np.array(sco_, dtype=npdt)
            return GroupScores.from_labels(labels, sco_, [s[1] for s in inp["samples"]],
                                           pos_label=pl, score_class=sc, equal_class=ec)
        caller["pos"] = np.array([p[0] for p in pos_in], dtype=npdt)
        caller["neg"] = np.array([p[0] for p in neg_in], dtype=npdt)
        caller["pg"] = np.array([p[1] for p in pos_in]) if pos_in else np.array([])
        caller["ng"] = np.array([p[1] for p in neg_in]) if neg_in else np.array([])
        caller["before"] = {k_: np.array(v_, copy=True) for k_, v_ in caller.items() if k_ != "before"}
        return GroupScores(caller["pos"], caller["neg"], pos_groups=caller["pg"], neg_groups=caller["ng"],
                           score_class=sc, equal_class=ec, group_names=gn, is_sorted=(route == "sorted"))

    def fail(clause, detail, sig=None, kind="PROPFAIL"):
        pre.append(Issue(kind, clause, f"{what0}: {detail}", sig or clause))

    r0 = common.call(construct)
    evals += 1
    if r0[0] == "exc":
        fail("construct", f"constructor raised {r0[1]}: {r0[2]}")
        inp["_evals"] = evals
        return Case(ID, inp, [], lambda outs: [], _tags(inp), 0, pre)
    gs = r0[1]
    if caller.get("before") and route != "sorted":
        # the caller's score and label arrays stay paired: the constructor works on copies (another object built from the
        # same arrays afterwards must see the same data)
        changed = [k_ for k_, v_ in caller["before"].items() if not np.array_equal(caller[k_], v_)]
        if changed:
            fail("attached", f"the constructor changed the caller's arrays {changed} (scores now "
                 f"{_short(caller['pos'].tolist(), 6)} / {_short(caller['neg'].tolist(), 6)} against labels "
                 f"{_short(caller['pg'].tolist(), 6)} / {_short(caller['ng'].tolist(), 6)}): their score/label pairing is lost",
                 "caller-arrays-modified")
    gstate = np.random.get_state()

    def observe(obj, label):
        """(pos, pos codes, neg, neg codes, group codes) of a GroupScores; None when malformed"""
        op, on = np.asarray(obj.pos), np.asarray(obj.neg)
        opg, ong = np.asarray(obj.pos_groups), np.asarray(obj.neg_groups)
        og = np.asarray(obj.groups)
        if op.ndim != 1 or on.ndim != 1 or opg.shape != op.shape or ong.shape != on.shape or og.ndim != 1:
            return None, (f"{label}: arrays of shapes pos{op.shape}/pos_groups{opg.shape} "
                          f"neg{on.shape}/neg_groups{ong.shape} groups{og.shape}")
        cp, cn, cg = codes.of_list(opg), codes.of_list(ong), codes.of_list(og)
        if any(c is None for c in cp + cn + cg):
            return None, (f"{label}: a label that is none of the group names: pos_groups={_short(opg.tolist())} "
                          f"neg_groups={_short(ong.tolist())} groups={og.tolist()}")
        return (op.tolist(), cp, on.tolist(), cn, cg), None

    def snapshot(obj):
        return tuple(np.asarray(x).tobytes() + str(np.asarray(x).dtype).encode() for x in
                     (obj.pos, obj.neg, obj.pos_groups, obj.neg_groups, obj.groups)) + (
            obj.score_class.value, obj.equal_class.value, int(obj.nb_easy_pos), int(obj.nb_easy_neg))

    snap0 = snapshot(gs)
    held, err = observe(gs, "constructed object")
    if held is None:
        fail("shape", err)
        inp["_evals"] = evals
        return Case(ID, inp, [], lambda outs: [], _tags(inp), 0, pre)
    hpos, hpg, hneg, hng, hgroups = held
    if (gs.score_class.value, gs.equal_class.value) != (sc, ec) or gs.nb_easy_pos != 0 or gs.nb_easy_neg != 0:
        fail("flags", f"flags {gs.score_class.value}/{gs.equal_class.value} easy {gs.nb_easy_pos},{gs.nb_easy_neg}")
    names_of = {c: n for n, c in codes.code.items()}
    group_objs = [names_of[c] for c in hgroups]  # python values to index with

    # ------------------------------------------------------------------ swap
    rs = common.call(gs.swap)
    evals += 1
    sw_keys = None
    if rs[0] == "exc":
        fail("swap", f"swap() raised {rs[1]}: {rs[2]}")
    else:
        sw, err = observe(rs[1], "swap()")
        if sw is None:
            fail("swap", err)
        else:
            sw_keys = dict(spos=ql(sw[0]), spg=il(sw[1]), sneg=ql(sw[2]), sng=il(sw[3]), sgroups=il(sw[4]),
                           ssc=rs[1].score_class.value, sec=rs[1].equal_class.value)
    if sw_keys is None:  # keep the driver line well-formed; the failure is already recorded
        sw_keys = dict(spos=ql(hneg), spg=il(hng), sneg=ql(hpos), sng=il(hpg), sgroups=il(hgroups),
                       ssc="neg" if sc == "pos" else "pos", sec="neg" if ec == "pos" else "pos")
        sw = None

    # ------------------------------------------------------------------ gs[g]
    gi_pos, gi_neg, gi_ep, gi_en, gi_sc, gi_ec = [], [], [], [], [], []
    getitem_ok = True
    for gname in group_objs:
        r = common.call(gs.__getitem__, gname)
        evals += 1
        if r[0] == "exc":
            fail("getitem", f"gs[{gname!r}] raised {r[1]}: {r[2]}", "getitem-raises")
            getitem_ok = False
            break
        it = r[1]
        if not isinstance(it, Scores) or np.asarray(it.pos).ndim != 1 or np.asarray(it.neg).ndim != 1:
            fail("getitem", f"gs[{gname!r}] is not a well-formed Scores object", "getitem-type")
            getitem_ok = False
            break
        if gs[gname] is not it:
            fail("cache-identity", f"gs[{gname!r}] is not gs[{gname!r}]")
        gi_pos.append(np.asarray(it.pos).tolist()); gi_neg.append(np.asarray(it.neg).tolist())
        gi_ep.append(max(int(it.nb_easy_pos), 0)); gi_en.append(max(int(it.nb_easy_neg), 0))
        gi_sc.append(it.score_class.value); gi_ec.append(it.equal_class.value)
    ru = common.call(gs.__getitem__, inp["unknown"])
    evals += 1
    if not (ru[0] == "exc" and ru[1] == "ValueError"):
        fail("getitem-unknown", f"gs[{inp['unknown']!r}] (not a group) gave {ru[:2]} instead of ValueError")
    if not getitem_ok:
        gi_pos = [[x for x, c in zip(hpos, hpg) if c == g] for g in hgroups]
        gi_neg = [[x for x, c in zip(hneg, hng) if c == g] for g in hgroups]
        gi_ep = gi_en = [0] * len(hgroups)
        gi_sc, gi_ec = [sc] * len(hgroups), [ec] * len(hgroups)

    names_key = "none" if (gn is None) else il([codes.code[x] for x in gn])
    lines.append(line("gbuild", pos=ql([p[0] for p in pos_in]), pg=il([codes.code[p[1]] for p in pos_in]),
                      neg=ql([p[0] for p in neg_in]), ng=il([codes.code[p[1]] for p in neg_in]), sc=sc, ec=ec,
                      names=names_key, sorted=int(route == "sorted"),
                      opos=ql(hpos), opg=il(hpg), oneg=ql(hneg), ong=il(hng), ogroups=il(hgroups),
                      osc=gs.score_class.value, oec=gs.equal_class.value, **sw_keys,
                      gipos=ql([x for l in gi_pos for x in l]), giposl=il([len(l) for l in gi_pos]),
                      gineg=ql([x for l in gi_neg for x in l]), ginegl=il([len(l) for l in gi_neg]),
                      giep=il(gi_ep), gien=il(gi_en), gisc="[" + ",".join(gi_sc) + "]", giec="[" + ",".join(gi_ec) + "]"))
    judges.append(("build", sw))

    # ------------------------------------------------------------------ matrices and metrics
    ts = [float(t) for t in inp["ts"]]
    T, G = len(ts), len(hgroups)
    src = dict(pos=ql(hpos), pg=il(hpg), neg=ql(hneg), ng=il(hng), sc=gs.score_class.value,
               ec=gs.equal_class.value, groups=il(hgroups))
    # independent per-group reference objects, from the held arrays
    ref = []
    for g in hgroups:
        ref.append(Scores(np.array([x for x, c in zip(hpos, hpg) if c == g], dtype=float),
                          np.array([x for x, c in zip(hneg, hng) if c == g], dtype=float),
                          score_class=gs.score_class.value, equal_class=gs.equal_class.value))
    rg = common.call(gs.group_cm, ts)
    rc = common.call(gs.cm, ts)
    evals += 2
    cm_line = False
    if rg[0] == "exc" or rc[0] == "exc":
        if G > 0:
            fail("group-cm", f"group_cm/cm raised {(rg if rg[0] == 'exc' else rc)[1:]}", "group-cm-raises")
    else:
        gm, om = np.asarray(rg[1]), np.asarray(rc[1])
        if gm.shape != (G, T, 2, 2) or om.shape != (T, 2, 2):
            fail("shape", f"group_cm(thresholds) has shape {gm.shape}, expected {(G, T, 2, 2)}; cm {om.shape}", "group-cm-shape")
        elif (gm < 0).any() or (om < 0).any():
            fail("group-cm", "negative matrix cells", "group-cm-negative")
        else:
            cm_line = True
            hq = []
            for h in inp["hist"]:
                if h[0] == "gi":
                    hq.append(f"gi:{codes.code[h[1]]}")
                elif h[0] == "gcm":
                    hq.append(f"gcm:{q(ts[h[1]])}")
                elif h[0] == "gr":
                    hq.append(f"gr:{h[1]}:{q(ts[h[2]])}")
                else:
                    hq.append(f"cm:{q(ts[h[1]])}")
            lines.append(line("gcm", **src, ts=ql(ts), ogcm=il(gm.reshape(-1).tolist()), ocm=il(om.reshape(-1).tolist()),
                              qs="[" + ",".join(hq) + "]"))
        # the caller's threshold buffer refilled IN PLACE between two calls (a sweep buffer): the second answer is for the
        # thresholds the buffer holds NOW (here: the same thresholds reversed, so the 1-d answer reversed along its axis)
        if G > 0 and T >= 2 and gm.shape == (G, T, 2, 2):
            buf = np.array(ts, dtype=float)
            common.call(gs.group_cm, np.array([0.125, -3.5]))  # something else in between: `buf` is a first-time argument
            common.call(gs.group_cm, buf)
            buf[:] = buf[::-1].copy()
            rb = common.call(gs.group_cm, buf)
            evals += 2
            if rb[0] == "exc" or not np.array_equal(np.asarray(rb[1]), gm[:, ::-1]):
                fail("group-cm", f"group_cm(buffer) after the buffer was reversed in place returned "
                     f"{_short(np.asarray(rb[1]).reshape(-1).tolist(), 12) if rb[0] == 'ok' else rb[1:]}; for the thresholds it holds now "
                     f"the matrices are {_short(gm[:, ::-1].reshape(-1).tolist(), 12)}", "group-cm-buffer-reused")
        # thresholds as an N-d array: group_cm has shape (G,) + X + (2, 2) and entry [g, x] is the matrix of group g at
        # threshold x, i.e. the 1-d answer (judged against the model above) reshaped
        if G > 0 and T >= 1 and gm.shape == (G, T, 2, 2):
            shapes = [(T, 1), (1, T)] + ([(2, T // 2)] if T % 2 == 0 and T >= 4 else []) + ([(3, T // 3)] if T % 3 == 0 and T >= 6 else [])
            for shp in shapes:
                tnd = np.asarray(ts, dtype=float).reshape(shp)
                rnd = common.call(gs.group_cm, tnd)
                evals += 1
                wantnd = gm.reshape((G,) + shp + (2, 2))
                if rnd[0] == "exc":
                    fail("group-cm", f"group_cm(thresholds of shape {shp}) raised {rnd[1]}: {rnd[2]}", "group-cm-nd-raises")
                elif np.asarray(rnd[1]).shape != wantnd.shape or not np.array_equal(np.asarray(rnd[1]), wantnd):
                    fail("group-cm", f"group_cm(thresholds of shape {shp}) has shape {np.asarray(rnd[1]).shape} / entries "
                         f"{_short(np.asarray(rnd[1]).reshape(-1).tolist(), 12)}; the same thresholds as a 1-d array give (reshaped to "
                         f"{wantnd.shape}) {_short(wantnd.reshape(-1).tolist(), 12)}", "group-cm-nd")
                rfn = common.call(gs.group_fnr, tnd)
                w1 = common.call(gs.group_fnr, ts)
                if rfn[0] == "exc" or (w1[0] == "ok" and not _eq_nan(rfn[1], np.asarray(w1[1]).reshape((G,) + shp))):
                    fail("groupwise", f"group_fnr(thresholds of shape {shp}) differs from the 1-d answer reshaped", "group-metric-nd")
        # the twelve group metrics against the independent per-group objects
        for name in RATES:
            r = common.call(getattr(gs, "group_" + name), ts)
            evals += 1
            if r[0] == "exc":
                if G > 0:
                    fail("groupwise", f"group_{name} raised {r[1]}: {r[2]}", "group-metric-raises")
                continue
            want = np.stack([getattr(x, name)(ts) for x in ref], axis=0) if G > 0 else None
            if G > 0 and not _eq_nan(r[1], want):
                fail("groupwise", f"group_{name}({_short(ts, 4)}) = {_short(np.asarray(r[1]).tolist(), 4)} but the metric of "
                     f"the scores carrying each label gives {_short(want.tolist(), 4)}", "group-metric")
        if G > 0:
            r = common.call(groupwise("fnr"), gs, threshold=ts)
            want = np.stack([x.fnr(ts) for x in ref], axis=0)
            if r[0] == "exc" or not _eq_nan(r[1], want):
                fail("groupwise", f"groupwise('fnr') gave {r[1] if r[0] == 'exc' else _short(np.asarray(r[1]).tolist(), 4)}, "
                     f"group by group: {_short(want.tolist(), 4)}", "groupwise-str")
            fn = lambda s_, k=1: np.array([len(s_.pos) * k, len(s_.neg), float(np.sum(s_.pos))])  # noqa: E731
            r = common.call(groupwise(fn), gs, k=3)
            want = np.stack([fn(x, k=3) for x in ref], axis=0)
            if r[0] == "exc" or not _eq_nan(r[1], want):
                fail("groupwise", f"groupwise(callable) gave {r[1] if r[0] == 'exc' else _short(np.asarray(r[1]).tolist(), 4)}, "
                     f"group by group: {_short(want.tolist(), 4)}", "groupwise-callable")
            evals += 2
    # ------------------------------------------------------------------ history on a fresh object
    hist_obs = []
    if cm_line:
        gh = construct()
        snap_h = snapshot(gh)

        def ask(obj, h):
            if h[0] == "gi":
                r = common.call(obj.__getitem__, h[1])
                if r[0] == "exc":
                    return ("e", r[1])
                return ("s", np.asarray(r[1].pos).tolist(), np.asarray(r[1].neg).tolist())
            if h[0] == "gcm":
                r = common.call(obj.group_cm, ts[h[1]])
                return ("e", r[1]) if r[0] == "exc" else ("m", np.asarray(r[1]).reshape(-1).tolist())
            if h[0] == "gr":
                r = common.call(getattr(obj, "group_" + h[1]), ts[h[2]])
                return ("e", r[1]) if r[0] == "exc" else ("r", np.asarray(r[1], dtype=float).reshape(-1).tolist())
            r = common.call(obj.cm, ts[h[1]])
            return ("e", r[1]) if r[0] == "exc" else ("c", np.asarray(r[1]).reshape(-1).tolist())

        for h in inp["hist"]:
            a1 = ask(gh, h)
            a2 = ask(construct(), h)
            evals += 2
            same = (a1[0] == a2[0]) and all(
                (_eq_nan(x, y) if a1[0] == "r" else x == y) for x, y in zip(a1[1:], a2[1:]))
            if not same:
                fail("history-independent", f"query {h} after the history {inp['hist']} gave {a1}, a fresh object gives {a2}",
                     "history")
            hist_obs.append(a1)
        if snapshot(gh) != snap_h:
            fail("source-unchanged", "the object changed during the query history", "history-mutates")
        judges.append(("cm", hist_obs))
        # swap() AFTER the history (the per-group cache of gh is now filled): the swapped object must answer like the
        # swap of a fresh object (C12_swap + C12_cache_fresh: a new object starts with an empty, hence correct, cache)
        r1, r2 = common.call(gh.swap), common.call(construct().swap)
        evals += 2
        if r1[0] != r2[0]:
            fail("swap", f"swap() after the history {inp['hist']}: {r1[:2]}, on a fresh object: {r2[:2]}", "swap-after-history")
        elif r1[0] == "ok":
            s1, s2 = r1[1], r2[1]
            for gname in list(np.asarray(s2.groups).tolist()):
                for h in (["gi", gname],) + tuple(["gcm", k] for k in range(len(ts))):
                    a1, a2 = ask(s1, h), ask(s2, h)
                    evals += 2
                    if a1 != a2:
                        fail("swap", f"after the history {inp['hist']}, swap() answers {h} (group {gname!r}) with {_short(a1, 6)}; "
                             f"the swap of a fresh object gives {_short(a2, 6)}", "swap-after-history")
                        break

    # ------------------------------------------------------------------ sampling
    def obs_sample(r, run, what):
        if r[0] == "exc":
            return {"ores": r[1]}, None
        out = r[1]
        if not isinstance(out, GroupScores):
            pre.append(Issue("PROPFAIL", "type", f"{what}: returned {type(out).__name__}", _sig(run, "type")))
            return {"ores": "NotGroupScores"}, None
        o, err = observe(out, "sample")
        if o is None:
            pre.append(Issue("PROPFAIL", "attached", f"{what}: {err}", _sig(run, "malformed")))
            return {"ores": "Malformed"}, None
        keys = {"ores": "ok", "opos": ql(o[0]), "opg": il(o[1]), "oneg": ql(o[2]), "ong": il(o[3]),
                "ogroups": il(o[4]), "osc": out.score_class.value, "oec": out.equal_class.value}
        if out.nb_easy_pos != 0 or out.nb_easy_neg != 0:
            pre.append(Issue("PROPFAIL", "flags", f"{what}: easy counts {out.nb_easy_pos},{out.nb_easy_neg}", _sig(run, "easy")))
        return keys, o

    retained, used_cfgs = [], []

    def retain(r, run, what, cfg):
        """keep every returned sample alive with a copy of what it held: drawing further samples from the same source
        must leave it alone (scores and their group labels)"""
        if r[0] == "ok" and isinstance(r[1], GroupScores) and r[1] is not gs:
            o_ = r[1]
            try:
                retained.append((run, what, o_, [np.array(getattr(o_, a_), copy=True)
                                                 for a_ in ("pos", "neg", "pos_groups", "neg_groups")]))
                used_cfgs.append(cfg)
            except Exception:
                pass

    for run in inp["runs"]:
        m, st = run["method"], run["strat"]
        what = (f"{what0}.bootstrap_sample(method={m}, stratified={st}, smoothing={run['smooth']}) script={run['script']}")
        wire_method = m if m in ("replacement", "single_pass", "dynamic", "proportion") else "unknown"
        wire_strat = {None: "none", "by_label": "by_label", "by_group": "by_group"}.get(st, "unknown")
        cfg = BootstrapConfig(sampling_method=m, stratified_sampling=st, smoothing=run["smooth"])
        conf = dict(method=wire_method, strat=wire_strat, smooth=int(run["smooth"]))
        evals += 1
        if "real" in run["script"]:
            seed = run["script"]["real"]
            np.random.seed(seed)
            r1 = common.call(gs.bootstrap_sample, cfg)
            retain(r1, run, what, cfg)
            np.random.seed(seed)
            r2 = common.call(gs.bootstrap_sample, cfg)
            if r1[0] == "exc":
                pre.append(Issue("PROPFAIL", "raises", f"{what}: raised {r1[1]}: {r1[2]}", _sig(run, "raises")))
                continue
            k1, o1 = obs_sample(r1, run, what)
            k2, o2 = obs_sample(r2, run, what)
            if o1 is None:
                continue
            if o1 != o2:
                pre.append(Issue("PROPFAIL", "reproducible", f"{what}: same seed, different sample", _sig(run, "reproducible")))
            lines.append(line("gsample", **src, **conf, hastrace=0, **k1))
            judges.append(("sample", "real", run, what, None, o1, k1))
            continue
        s_ = run["script"]
        with ScriptedRNG(seed=s_["seed"], policy=adversarial(s_["mode"]) if s_["mode"] else None) as rr:
            r = common.call(gs.bootstrap_sample, cfg)
        retain(r, run, what, cfg)
        bad = [e for e in rr.trace if e["raised"] is None and not rng_script.in_range(e, e["resp"])]
        if bad:
            pre.append(Issue("ERR", "script", f"harness produced an out-of-support answer: {bad[0]}", "script"))
        keys, o = obs_sample(r, run, what)
        lines.append(line("gsample", **src, **conf, hastrace=1, **rng_script.encode_script(rr.trace),
                          **rng_script.encode_requests(rr.trace, "q"), **keys))
        judges.append(("sample", "scripted", run, what, rr.trace, o,
                       keys if r[0] == "ok" else {"ores": keys["ores"], "msg": r[2] if r[0] == "exc" else ""}))

    for k_, cfg_ in enumerate(used_cfgs[:6]):  # one more draw per configuration used, then look at the earlier samples again
        np.random.seed(977 + k_)
        common.call(gs.bootstrap_sample, cfg_)
    for run_, what_, o_, held_ in retained:
        now_ = [np.asarray(getattr(o_, a_)) for a_ in ("pos", "neg", "pos_groups", "neg_groups")]
        if any(a_.shape != b_.shape or not np.array_equal(a_, b_) for a_, b_ in zip(now_, held_)):
            pre.append(Issue("PROPFAIL", "attached", f"{what_}: the returned sample changed when further samples were drawn from "
                             f"the same source (pos {_short(held_[0].tolist(), 6)}/{_short(held_[2].tolist(), 6)} -> "
                             f"{_short(now_[0].tolist(), 6)}/{_short(now_[2].tolist(), 6)})", _sig(run_, "retained")))
            break
    np.random.set_state(gstate)
    if snapshot(gs) != snap0:
        fail("source-unchanged", "the source object changed during queries / sampling", "source")
    inp["_evals"] = evals

    # ------------------------------------------------------------------ judge
    def judge(outs):
        iss = []
        for jd, out in zip(judges, outs):
            spec = {k[5:]: v for k, v in out.items() if k.startswith("spec.")}
            if jd[0] == "build":
                for clause, v in spec.items():
                    if v == "0":
                        detail = {
                            "attached": f"held pairs pos={_short(list(zip(hpos, [names_of[c] for c in hpg])))} "
                                        f"neg={_short(list(zip(hneg, [names_of[c] for c in hng])))} are not the input pairs",
                            "sorted": f"held arrays not sorted: pos={_short(hpos)} neg={_short(hneg)}",
                            "swap": f"swap() holds {jd[1]} for the object (pos,pg,neg,ng,groups)={_short(held, 5)}",
                            "getitem": f"gs[g] for g in {group_objs}: pos={_short(gi_pos, 4)} neg={_short(gi_neg, 4)} "
                                       f"but the held pairs are pos={_short(list(zip(hpos, hpg)))} neg={_short(list(zip(hneg, hng)))}",
                            "flags": "flags changed",
                        }.get(clause, "")
                        iss.append(Issue("PROPFAIL", clause, f"{what0}: {detail}", "build/" + clause))
                mp, mn = common.pfracs(out["mpos"]), common.pfracs(out["mneg"])
                mpg, mng = common.pints(out["mpg"]), common.pints(out["mng"])
                if not (_pairs_equal(_fr_list(hpos), hpg, mp, mpg, False) and _pairs_equal(_fr_list(hneg), hng, mn, mng, False)):
                    iss.append(Issue("DISAGREE", "held", f"{what0}: impl pos={_short(list(zip(hpos, hpg)))} neg="
                                     f"{_short(list(zip(hneg, hng)))}; model pos={out['mpos'][:100]}/{out['mpg'][:60]} "
                                     f"neg={out['mneg'][:100]}/{out['mng'][:60]}", "build/held"))
                if common.pints(out["mgroups"]) != hgroups:
                    iss.append(Issue("DISAGREE", "groups", f"{what0}: impl groups {hgroups} model {out['mgroups']}", "build/groups"))
                if jd[1] is not None and common.pints(out["msgroups"]) != jd[1][4]:
                    iss.append(Issue("DISAGREE", "swap-groups", f"{what0}: swap().groups {jd[1][4]} model {out['msgroups']}",
                                     "build/swap-groups"))
            elif jd[0] == "cm":
                for clause, v in spec.items():
                    if v == "0":
                        iss.append(Issue("PROPFAIL", clause, f"{what0}: thresholds {_short(ts, 6)}: group_cm={_short(np.asarray(rg[1]).reshape(-1).tolist(), 16)} "
                                         f"cm={_short(np.asarray(rc[1]).reshape(-1).tolist(), 16)} held pos={_short(list(zip(hpos, hpg)))} "
                                         f"neg={_short(list(zip(hneg, hng)))} groups={hgroups}", "cm/" + clause))
                if gn is None and out["covers"] == "0":
                    iss.append(Issue("PROPFAIL", "partition", f"{what0}: the default group list {[names_of[c] for c in hgroups]} "
                                     f"has duplicates or misses a label of the data, so the group matrices cannot partition "
                                     f"the overall matrix", "cm/default-groups"))
                if common.pints(out["mgcm"]) != np.asarray(rg[1]).reshape(-1).tolist() or \
                        common.pints(out["mcm"]) != np.asarray(rc[1]).reshape(-1).tolist():
                    iss.append(Issue("DISAGREE", "matrices", f"{what0}: group_cm / cm differ from the model", "cm/matrices"))
                toks = common.plist(out["hout"])
                if len(toks) != len(jd[1]):
                    iss.append(Issue("ERR", "history", "history length mismatch", "history"))
                for h, a, tok in zip(inp["hist"], jd[1], toks):
                    parts = tok.split(":")
                    ok = parts[0] == a[0]
                    if ok and a[0] == "e":
                        ok = parts[1] == a[1]
                    elif ok and a[0] == "s":
                        mp_ = [Fraction(x) for x in parts[1].split(";") if x]
                        mn_ = [Fraction(x) for x in parts[2].split(";") if x]
                        ok = mp_ == _fr_list(a[1]) and mn_ == _fr_list(a[2])
                    elif ok and a[0] in ("m", "c"):
                        ok = [int(x) for x in parts[1].split(";") if x] == a[1]
                    elif ok and a[0] == "r":
                        mv = [common.pfrac(x) for x in parts[1].split(";") if x]
                        ok = len(mv) == len(a[1]) and all(common.close(x, y, rel=Fraction(1, 10**12)) for x, y in zip(a[1], mv))
                    if not ok:
                        iss.append(Issue("DISAGREE", "history", f"{what0}: query {h}: impl {_short(a, 6)} model {tok[:200]}",
                                         "cm/history"))
            else:
                _, kind, run, what, trace, o, keys = jd
                for clause, v in spec.items():
                    if v == "0":
                        extra = ""
                        if clause == "stratreqs" and trace is not None:
                            extra = " requests: " + rng_script.brief(trace)
                        elif o is not None:
                            extra = (f" sample pos={_short(list(zip(o[0], o[1])))} neg={_short(list(zip(o[2], o[3])))} "
                                     f"groups={o[4]}; source pos={_short(list(zip(hpos, hpg)))} "
                                     f"neg={_short(list(zip(hneg, hng)))} groups={hgroups}")
                        iss.append(Issue("PROPFAIL", clause, f"{what}:{extra}", _sig(run, clause)))
                if kind == "real":
                    continue
                mres = out["mres"]
                if keys["ores"] != "ok":
                    if keys["ores"] in ("NotGroupScores", "Malformed"):
                        pass  # already reported
                    elif mres == "ok":
                        iss.append(Issue("PROPFAIL", "raises", f"{what}: raised {keys['ores']}: {keys.get('msg', '')} "
                                         f"(a sample exists for every in-support script)", _sig(run, "raises")))
                    elif mres != keys["ores"]:
                        iss.append(Issue("DISAGREE", "error-branch", f"{what}: impl raised {keys['ores']}, model {mres}",
                                         _sig(run, "error-branch")))
                elif mres != "ok":
                    iss.append(Issue("PROPFAIL" if run["smooth"] or run["method"] in ("proportion", "bogus") or
                                     run["strat"] == "by_foo" else "DISAGREE", "error-branch",
                                     f"{what}: impl returned a sample, the documented behaviour (model) raises {mres}",
                                     _sig(run, "error-branch")))
                if keys["ores"] in ("NotGroupScores", "Malformed"):
                    continue
                if out["tracediff"] != "-1":
                    mt = rng_script.decode_requests(out, "m")
                    iss.append(Issue("DISAGREE", "trace", f"{what}: request #{out['tracediff']} differs; impl: "
                                     f"{rng_script.brief(trace)}; model: "
                                     f"{[(e['prim'], e['n'], e['size'], e['replace'], float(e['p'])) for e in mt]}",
                                     _sig(run, "trace")))
                elif out["mok"] != "1" or out["left"] != "0":
                    iss.append(Issue("ERR", "script", f"{what}: model run not ok on the implementation's answers "
                                     f"(ok={out['mok']}, unread={out['left']})", "script"))
                elif keys["ores"] == "ok" and mres == "ok" and o is not None:
                    exact = out["eff"] == "single_pass" and run["strat"] != "by_group"
                    mp, mn = common.pfracs(out["mpos"]), common.pfracs(out["mneg"])
                    mpg, mng = common.pints(out["mpg"]), common.pints(out["mng"])
                    if not (_pairs_equal(_fr_list(o[0]), o[1], mp, mpg, exact) and
                            _pairs_equal(_fr_list(o[2]), o[3], mn, mng, exact)):
                        iss.append(Issue("DISAGREE", "sample", f"{what}: impl pos={_short(list(zip(o[0], o[1])))} "
                                         f"neg={_short(list(zip(o[2], o[3])))}; model pos={out['mpos'][:100]}/{out['mpg'][:60]} "
                                         f"neg={out['mneg'][:100]}/{out['mng'][:60]}", _sig(run, "sample")))
                    if common.pints(out["mgroups"]) != o[4] or (out["msc"], out["mec"]) != (keys["osc"], keys["oec"]):
                        iss.append(Issue("DISAGREE", "sample-meta", f"{what}: groups/flags impl {o[4]} {keys['osc']},{keys['oec']} "
                                         f"model {out['mgroups']} {out['msc']},{out['mec']}", _sig(run, "sample-meta")))
        return iss

    return Case(ID, inp, lines, judge, _tags(inp), 0, pre)


# --------------------------------------------------------------------------------------
# shrinking
# --------------------------------------------------------------------------------------
def shrink_candidates(inp):
    runs = inp["runs"]
    if len(runs) > 1:
        for r in runs:
            c = dict(inp); c["runs"] = [r]; yield c
    if inp["hist"]:
        c = dict(inp); c["hist"] = []; yield c
    if len(inp["ts"]) > 1:
        c = dict(inp); c["ts"] = inp["ts"][:1]
        c["hist"] = [h for h in inp["hist"] if h[0] == "gi"]; yield c
    xs = inp["samples"]
    if len(xs) > 8:
        c = dict(inp); c["samples"] = xs[: len(xs) // 2]; yield c
    for i in range(len(xs)):
        if len(xs) > 1:
            c = dict(inp); c["samples"] = xs[:i] + xs[i + 1:]; yield c
    for i, s in enumerate(xs):
        if s[2] != round(s[2]):
            c = dict(inp); c["samples"] = xs[:i] + [[s[0], s[1], float(round(s[2]))]] + xs[i + 1:]; yield c


# --------------------------------------------------------------------------------------
# second tie: the decision tables of this property regenerated from the source on every run
# (harness/dectables2.py -> generated Lean file checked by the kernel; bridge: SA/Theorems/DecTables2.lean)
# --------------------------------------------------------------------------------------
def extra_gate_start():
    """start the translator + Lean check in a child process; the cases run meanwhile"""
    import common
    import dectables2
    return dectables2.start(common.REPO)


def extra_gate_finish(handle):
    """-> {problems, theorems, obligations, discharged, notes, evidence}; a definite mismatch of a table row is a
    broken proof obligation, `unknown` rows are evidence only"""
    import dectables2
    return dectables2.gate_result(dectables2.finish(handle), ID)
