"""C13 — bootstrap confidence limits follow the documented quantile/BC/BCa formulas."""
from __future__ import annotations

import math
from fractions import Fraction

import numpy as np

import common
from common import Case, Issue, q, ql, il, line

ID = "C13"
LEVEL = "proof"
RULE = ("cases = replicate arrays (N,)+Y (constant, discrete, skewed, outlier-laden, NaN-containing; Y in {(), (2,), "
        "(2,2)}) x estimate inside/outside the range x alpha scalar / array x method quantile/bc/bca; each case also "
        "runs the implementation on a shuffled+NaN-padded copy, an affine image, a second alpha and per component, and "
        "sends the WHOLE-ARRAY call (quantile: also vector alphas of shape (k,) and (2,2); bc/bca: also the call "
        "without an estimate) to the array-level model bootstrapCIVec; "
        "non-trivial = distinct input with NaNs or ties or an estimate outside the replicate range or method != quantile")
EXPLANATION = ("The model is the documented formula (C13_*_levels); theorems derive ordering, range, NaN/order invariance, "
               "affine equivariance and nesting for all replicate lists, for any monotone normal cdf/ppf oracles. The "
               "correspondence run feeds the model the values returned by the real scipy.stats.norm.ppf/cdf calls made "
               "by utils.bootstrap_ci (recorded), compares the limits, and evaluates the derived clauses on the "
               "implementation's outputs and on pairs of real runs. The axis bookkeeping (ravel of alpha, stack, nanquantile "
               "axis=0, reshape, moveaxis([0,1]->[-1,-2]), reshape to Y+A+(2,); bc/bca flattening and loop) is a separate "
               "code-shaped model on row-major N-d arrays; C13_vec_quantile / C13_vec_bc prove that its entry [y,a,k] is "
               "the one-component formula on theta[:,y] at alpha[a] for every rank, and the op bootcivec evaluates both "
               "the model and that prescribed array on the implementation's whole-array output.")
TRUSTED_BASE = ["Lean 4.33 kernel", "axioms propext/Classical.choice/Quot.sound only",
                "hand-written model SA/Model/Bootstrap.lean tied to /repo by this correspondence run",
                "scipy.stats.norm.ppf/cdf and x**1.5 as oracles (recorded values; monotonicity is a theorem hypothesis)",
                "np.nanquantile(method='linear') modelled by its documented formula",
                "NumPy reshape / stack / moveaxis / transpose modelled by their documented C-order meaning (SA/Model/NdArray.lean)",
                "harness and driver parsing"]
ASSUMPTIONS = ["finite or NaN replicates, finite estimate", "alpha in (0,1)",
               "BCa cases within 1e-6 of the pole 1 - a*s = 0 are skipped",
               "bc/bca: scalar alpha and an estimate of the metric's shape (other broadcasts are outside the array model)"]
METHODS = ["quantile", "bc", "bca"]


def n_cases(tier):
    return 3200 if tier == "quick" else 25600


def gen_values(rng, n):
    kind = rng.choice(["const", "discrete", "normal", "skewed", "outlier", "dyadic"])
    if kind == "const":
        c = rng.choice([0.0, 1.0, 0.25, rng.gauss(0, 1)])
        v = [c] * n
    elif kind == "discrete":
        pool = [rng.randint(0, 4) / 4 for _ in range(3)]
        v = [rng.choice(pool) for _ in range(n)]
    elif kind == "normal":
        v = [rng.gauss(0, 1) for _ in range(n)]
    elif kind == "skewed":
        v = [rng.expovariate(1.0) for _ in range(n)]
    elif kind == "dyadic":
        v = [rng.randint(-32, 32) / 8 for _ in range(n)]
    else:
        v = [rng.gauss(0, 1) for _ in range(n)]
        v[rng.randrange(n)] = rng.choice([1e3, -1e3])
    if rng.random() < 0.3 and n > 1:
        keep = rng.randrange(n)
        for _ in range(rng.randint(1, max(1, n // 3))):
            k = rng.randrange(n)
            if k != keep:
                v[k] = math.nan
    if rng.random() < 0.2:
        # metrics measured on very different scales (error rates near 1e-5, counts near 1e3): the limits are
        # equivariant, so nothing in the formulas may depend on an absolute magnitude (powers of two: exact)
        k = rng.choice([2.0 ** -17, 2.0 ** -20, 2.0 ** -26, 2.0 ** 10])
        v = [x * k for x in v]
    if rng.random() < 0.04:
        v = [math.nan] * n  # no finite replicate at all: limits must be NaN (all three methods)
    return v


def _gen_polar(rng):
    """bca beyond the pole of its acceleration term, a*(z0+z_alpha) > 1: one dominant outlier (a ~ 1/6), an estimate below
    nearly every replicate (z0 ~ 3) and a small alpha; agreement with the documented formula is claimed everywhere"""
    n = rng.choice([200, 400, 999])
    big = rng.choice([100.0, 1e4, 37.5])
    col = [0.0] * n
    col[rng.randrange(n)] = big
    if rng.random() < 0.5:  # lower-tail mirror
        col = [-x for x in col]
    th = 0.0
    alpha = rng.choice([1e-3, 2e-3, 1e-4, 5e-4])
    return {"n": n, "yshape": [], "cols": [col], "th": [th], "method": "bca", "alpha": alpha, "alpha2": min(0.5, alpha * 4),
            "alpha_array": False, "c": 2.0, "d": 0.0, "perm_seed": rng.randint(0, 10**6), "int_dtype": False, "polar": True}


def gen_one(rng, i, tier):
    if i % 60 == 31:
        return _gen_polar(rng)
    n = rng.choice([1, 2, 3, 5, 10, 20, 50])
    yshape = rng.choice([[], [], [2], [2, 2]])
    ncomp = int(np.prod(yshape)) if yshape else 1
    cols = [gen_values(rng, n) for _ in range(ncomp)]
    # count-valued metrics (tp, fp, ...) arrive as integer arrays: Scores.bootstrap_metric allocates the replicates in
    # the metric's own dtype, so every method must cope with int64 replicates (limits are still real-valued quantiles)
    int_dtype = rng.random() < 0.15
    if int_dtype:
        hi_ = rng.choice([3, 12, 60, 1000])
        cols = [[float(rng.randint(0, hi_)) for _ in range(n)] for _ in range(ncomp)]
    method = rng.choice(METHODS)
    th = []
    for c in cols:
        fin = [x for x in c if not math.isnan(x)] or [0.0]
        r = rng.random()
        if r < 0.5:
            th.append(rng.choice(fin))
        elif r < 0.7:
            th.append(float(np.median(fin)))
        elif r < 0.85:
            th.append(max(fin) + 1.0)
        else:
            th.append(min(fin) - 1.0)
    alpha = rng.choice([0.05, 0.1, 0.01, 0.5, rng.uniform(0.01, 0.9)])
    alpha2 = min(0.95, alpha + rng.choice([0.05, 0.2, 0.3]))
    return {"n": n, "yshape": yshape, "cols": cols, "th": th, "method": method, "alpha": alpha,
            "alpha2": alpha2, "alpha_array": method == "quantile" and rng.random() < 0.3,
            "c": rng.choice([0.5, 2.0, 2.5]), "d": rng.choice([0.0, 1.0, -0.75]),
            "perm_seed": rng.randint(0, 10**6), "int_dtype": int_dtype}


def nontrivial(inp):
    for c, t in zip(inp["cols"], inp["th"]):
        fin = [x for x in c if not (isinstance(x, float) and math.isnan(x)) and x != "nan"]
        if len(fin) < len(c) or len(set(fin)) < len(fin) or (fin and (t > max(fin) or t < min(fin))):
            return True
    return inp["method"] != "quantile"


def _f(x):
    return math.nan if x == "nan" else float(x)


def _orat(x):
    return "nan" if math.isnan(x) else q(x)


def _erat_list(xs):
    return "[" + ",".join("nan" if math.isnan(x) else q(x) for x in xs) + "]"


def build(inp) -> Case:
    import scipy.stats
    from score_analysis import utils

    inp = dict(inp)
    cols = [[_f(x) for x in c] for c in inp["cols"]]
    n, yshape, method = inp["n"], list(inp["yshape"]), inp["method"]
    ncomp = len(cols)
    theta = np.array(cols, dtype=float).T.reshape([n] + yshape)  # (N,)+Y
    if inp.get("int_dtype") and not np.isnan(theta).any() and np.all(theta == np.round(theta)):
        theta = theta.astype(np.int64)
    th = np.array(inp["th"], dtype=float).reshape(yshape)
    alpha = inp["alpha"]
    pre = []

    def run(theta_, th_, alpha_, record=False):
        if record:
            with common.Recorder(scipy.stats.norm, "ppf") as rp, common.Recorder(scipy.stats.norm, "cdf") as rc:
                r = common.call(utils.bootstrap_ci, theta_, th_ if method != "quantile" else None, alpha_, method=method)
            return r, rp.calls, rc.calls
        return common.call(utils.bootstrap_ci, theta_, th_ if method != "quantile" else None, alpha_, method=method)

    before = theta.copy()
    r, ppf_calls, cdf_calls = run(theta, th, alpha, record=True)
    if r[0] == "exc":
        pre.append(Issue("PROPFAIL", "raises", f"bootstrap_ci raised {r[1]}: {r[2]}", f"bootci/raises/{r[1]}"))
        return Case(ID, inp, [], lambda outs: [], (method,), 0, pre)
    ci = np.asarray(r[1])
    if not np.array_equal(theta, before, equal_nan=True):
        pre.append(Issue("PROPFAIL", "mutation", "replicate array mutated", "bootci/mutation"))
    if list(ci.shape) != yshape + [2]:
        pre.append(Issue("PROPFAIL", "shape", f"shape {ci.shape} for metric shape {yshape}", "bootci/shape"))
        return Case(ID, inp, [], lambda outs: [], (method,), 0, pre)
    cif = ci.reshape(ncomp, 2)
    # the same call under the caller's strict floating-point error state (np.errstate(invalid/divide='raise') is what a
    # numerically careful caller runs with): the documented limits, not a FloatingPointError from a quotient that is
    # computed only to be discarded
    # (claimed for metrics every component of which has a finite replicate: for an all-NaN component the unchanged code
    # computes the fraction 0/0 on the way to its NaN limits, which the strict state turns into an exception)
    some_finite = bool(np.all(np.any(~np.isnan(np.asarray(theta, dtype=float).reshape(n, -1)), axis=0)))
    with np.errstate(invalid="raise", divide="raise"):
        r_strict = run(theta, th, alpha) if some_finite else r
    if r_strict[0] == "exc":
        pre.append(Issue("PROPFAIL", "raises", f"bootstrap_ci[{method}] under np.errstate(invalid='raise', divide='raise') raised "
                         f"{r_strict[1]}: {r_strict[2]}; without it the call returns {ci.reshape(-1).tolist()[:6]}", f"bootci/raises/strict-errstate/{method}"))
    elif not np.array_equal(np.asarray(r_strict[1]), ci, equal_nan=True):
        pre.append(Issue("PROPFAIL", "ambient", f"bootstrap_ci[{method}] depends on the ambient error state", "bootci/ambient"))
    # metrics without components (an empty threshold array): shape Y + (2,) resp. Y + alpha_shape + (2,), no exception
    for ys_ in ([0], [0, 3], [2, 0]):
        th0 = np.zeros(ys_)
        for al_ in ((alpha,) if method != "quantile" else (alpha, [alpha, min(0.9, alpha * 2)])):
            r0 = run(np.zeros([n] + ys_), th0, al_)
            want = ys_ + ([] if np.ndim(al_) == 0 else [len(al_)]) + [2]
            if r0[0] == "exc" or list(np.asarray(r0[1]).shape) != want:
                pre.append(Issue("PROPFAIL", "shape", f"bootstrap_ci[{method}] on {n} replicates of an EMPTY metric of shape {tuple(ys_)}, alpha "
                                 f"{al_}: " + (f"raised {r0[1]}: {r0[2]}" if r0[0] == "exc" else f"shape {np.asarray(r0[1]).shape}") +
                                 f", expected shape {tuple(want)}", f"bootci/shape/empty-metric/{method}"))
    scale = max([abs(x) for c in cols for x in c if not math.isnan(x)] + [abs(float(t)) for t in inp["th"]] + [0.0]) or 1.0
    tol = 1e-9 * scale

    def same(a, b, what, sig):
        a, b = np.asarray(a, dtype=float), np.asarray(b, dtype=float)
        if a.shape != b.shape or not np.allclose(a, b, rtol=1e-9, atol=tol, equal_nan=True):
            pre.append(Issue("PROPFAIL", what, f"{what}: {a.tolist()} vs {b.tolist()} (method {method}, alpha {alpha})", sig))

    # alpha array (quantile): shape Y + alpha_shape + (2,), each slice = the scalar call
    if inp["alpha_array"]:
        al = np.array([[alpha, inp["alpha2"]], [inp["alpha2"], alpha]])
        ra = run(theta, th, al)
        if ra[0] == "exc" or list(np.asarray(ra[1]).shape) != yshape + [2, 2, 2]:
            pre.append(Issue("PROPFAIL", "shape", f"alpha array: {ra[1] if ra[0]=='exc' else np.asarray(ra[1]).shape}", "bootci/alpha-array"))
        else:
            same(np.asarray(ra[1])[..., 0, 0, :], ci, "alpha-array-slice", "bootci/alpha-array")
            r2 = run(theta, th, inp["alpha2"])
            if r2[0] == "ok":
                same(np.asarray(ra[1])[..., 0, 1, :], r2[1], "alpha-array-slice", "bootci/alpha-array")
    # NaN- and order-invariance
    prng = np.random.RandomState(inp["perm_seed"])
    perm = prng.permutation(n)
    pad = np.full([2] + yshape, np.nan)
    theta_p = np.concatenate([theta[perm], pad], axis=0)
    rp_ = run(theta_p, th, alpha)
    if rp_[0] == "exc":
        pre.append(Issue("PROPFAIL", "invariance", f"raised on permuted/NaN-padded input: {rp_[1]}", "bootci/invariance"))
    else:
        same(rp_[1], ci, "nan/order invariance", "bootci/invariance")
    # affine equivariance
    c_, d_ = inp["c"], inp["d"]
    rf = run(c_ * theta + d_, c_ * th + d_, alpha)
    if rf[0] == "exc":
        pre.append(Issue("PROPFAIL", "affine", f"raised on affine image: {rf[1]}", "bootci/affine"))
    else:
        a_ = np.asarray(rf[1], dtype=float)
        if not np.allclose(a_, c_ * ci + d_, rtol=1e-7, atol=1e-7 * scale * c_ + 1e-12 * abs(d_), equal_nan=True):
            pre.append(Issue("PROPFAIL", "affine", f"limits of {c_}*theta+{d_}: {a_.tolist()} vs {(c_*ci+d_).tolist()} (method {method})", "bootci/affine"))
    # per component
    if ncomp > 1:
        for j in range(ncomp):
            rj = run(np.array(cols[j], dtype=float), np.float64(inp["th"][j]), alpha)
            if rj[0] == "ok":
                same(np.asarray(rj[1]).reshape(2), cif[j], "componentwise", "bootci/componentwise")
    # second alpha for nesting
    r2 = run(theta, th, inp["alpha2"])
    ci2 = np.asarray(r2[1]).reshape(ncomp, 2) if r2[0] == "ok" else None
    # oracle tables
    ppf_in, ppf_out, cdf_in, cdf_out = [], [], [], []
    for a_, k_, res in ppf_calls:
        xi, xo = np.asarray(a_[0], dtype=float).reshape(-1), np.asarray(res, dtype=float).reshape(-1)
        for u, v in zip(xi, xo):
            if not math.isnan(u) and not math.isnan(v):
                ppf_in.append(u); ppf_out.append(v)
    for a_, k_, res in cdf_calls:
        xi, xo = np.asarray(a_[0], dtype=float).reshape(-1), np.asarray(res, dtype=float).reshape(-1)
        for u, v in zip(xi, xo):
            if not math.isnan(u) and not math.isnan(v):
                cdf_in.append(u); cdf_out.append(v)
    tables = {"ppf_in": ppf_in, "ppf_out": ppf_out, "cdf_in": cdf_in, "cdf_out": cdf_out}

    def mkline(j):
        col = np.array(cols[j], dtype=float)
        s2 = float(np.nansum((col - inp["th"][j]) ** 2))
        p15 = float(s2 ** 1.5)
        return line("bootci", vals="[" + ",".join(_orat(x) for x in cols[j]) + "]", th=q(inp["th"][j]),
                    alpha=q(alpha), method=method, eps=q(Fraction(tol)),
                    ppf_in=_erat_list(tables["ppf_in"]), ppf_out=_erat_list(tables["ppf_out"]),
                    cdf_in=_erat_list(tables["cdf_in"]), cdf_out=_erat_list(tables["cdf_out"]),
                    p15_in=_erat_list([s2]), p15_out=_erat_list([p15]),
                    lo=_orat(float(cif[j][0])), hi=_orat(float(cif[j][1])))

    # ---- whole-array calls for the array-level model (op bootcivec) ----
    theta_f = np.asarray(theta, dtype=float)
    p15_in = [float(np.nansum((np.array(cols[j], dtype=float) - inp["th"][j]) ** 2)) for j in range(ncomp)]
    p15_out = [float(x ** 1.5) for x in p15_in]

    def mkvec(alpha_arr, impl):
        """driver line for utils.bootstrap_ci(theta, th, alpha_arr) with the implementation's outcome `impl`"""
        al = np.asarray(alpha_arr, dtype=float)
        kw = dict(theta=ql(theta_f.reshape(-1).tolist()), tshape=il(theta_f.shape),
                  alpha=ql(al.reshape(-1).tolist()), ashape=il(al.shape), method=method, eps=q(Fraction(tol)),
                  ppf_in=_erat_list(tables["ppf_in"]), ppf_out=_erat_list(tables["ppf_out"]),
                  cdf_in=_erat_list(tables["cdf_in"]), cdf_out=_erat_list(tables["cdf_out"]),
                  p15_in=_erat_list(p15_in), p15_out=_erat_list(p15_out))
        if impl.get("th", True) and method != "quantile":
            kw["th"] = ql(np.asarray(th, dtype=float).reshape(-1).tolist()); kw["thshape"] = il(th.shape)
        else:
            kw["th"] = "none"
        if impl["kind"] == "exc":
            kw["obs_err"] = impl["name"]
        else:
            o_ = np.asarray(impl["value"], dtype=float)
            kw["obs"] = ql(o_.reshape(-1).tolist()); kw["oshape"] = il(o_.shape)
        return line("bootcivec", **kw)

    vec = []  # (description, alpha array, implementation outcome)
    vec.append((f"alpha {alpha}", alpha, {"kind": "ok", "value": ci}))
    if method == "quantile":
        a1, a2 = alpha, inp["alpha2"]
        k_ = 2 + inp["perm_seed"] % 2
        # also array-form alphas holding exactly ONE level: shape Y + (1,) + (2,) resp. Y + (1, 1) + (2,), not Y + (2,)
        for al_ in (np.array([a1, a2, a1 / 2][:k_]), np.array([[a1, a2], [a2 / 2, a1 / 4]]),
                    np.array([a2]) if inp["perm_seed"] % 3 else np.array([[a1]])):
            rv = run(theta, th, al_)
            if rv[0] == "exc":
                pre.append(Issue("PROPFAIL", "vectorised", f"alpha array of shape {al_.shape}: raised {rv[1]}: {rv[2]}",
                                 "bootci/vectorised/raises"))
            else:
                vec.append((f"alpha array {al_.tolist()}", al_, {"kind": "ok", "value": rv[1]}))
    else:
        # documented error branch: bc / bca need the estimate
        rn = common.call(utils.bootstrap_ci, theta, None, alpha, method=method)
        if rn[0] == "exc":
            vec.append(("no estimate", alpha, {"kind": "exc", "name": rn[1], "th": False}))
        else:
            pre.append(Issue("PROPFAIL", "vectorised", f"method {method} without theta_hat did not raise", "bootci/vectorised/no-estimate"))

    lines = [mkline(j) for j in range(ncomp)] + [mkvec(al_, impl) for _, al_, impl in vec]
    inp["_evals"] = ncomp * 6 + 3 * len(vec)
    tags = [method, f"Y={yshape}", f"N={n}"]
    if theta.dtype.kind == "i":
        tags.append("int64-replicates")
    if any(math.isnan(x) for c in cols for x in c):
        tags.append("nan-replicates")

    oracle_filled = [0]

    def judge_vec(outs):
        """the whole-array calls: PROPFAIL when the prescribed array (spec.*) rejects the implementation's output,
        DISAGREE when only the code-shaped model differs"""
        iss = []
        for (desc, al_, impl), o in zip(vec, outs):
            if "ERR" in o:
                continue  # reported by the runner as a driver error
            misses = common.plist(o["miss"])
            rounds = 0
            while misses and rounds < 3 and all(m.startswith(("ppf:", "cdf:")) for m in misses):
                rounds += 1
                for m_ in misses:
                    kind, arg = m_.split(":", 1)
                    x = math.inf if arg == "inf" else (-math.inf if arg == "-inf" else float(Fraction(arg)))
                    val = float(getattr(scipy.stats.norm, kind)(x))
                    tables[kind + "_in"].append(x); tables[kind + "_out"].append(val)
                o = common.run_driver([mkvec(al_, impl)])[0]
                misses = common.plist(o["miss"])
                oracle_filled[0] += 1
            if misses:
                iss.append(Issue("ORACLE-MISS", "oracle", f"whole-array model query not among the recorded scipy calls: {misses}", "bootci/vectorised/oracle-miss"))
                continue
            pole = common.pfrac(o["pole"])
            if pole is not None and pole < Fraction(1, 10**6):
                case.skipped += 1
                continue
            if impl["kind"] == "exc":
                if o.get("spec.raises") != "1":
                    iss.append(Issue("PROPFAIL" if impl["name"] != "ValueError" else "DISAGREE", "vectorised",
                                     f"{desc}: implementation raised {impl['name']}, model gives {o.get('err', 'a result')}",
                                     f"bootci/vectorised/{method}/raises"))
                continue
            obs = np.asarray(impl["value"], dtype=float)
            if o.get("spec.shape") != "1":
                iss.append(Issue("PROPFAIL", "vectorised", f"{desc}: shape {obs.shape} for metric shape {yshape} and alpha shape "
                                 f"{list(np.shape(al_))} (method {method})", f"bootci/vectorised/{method}/shape"))
            elif o.get("spec.entries") != "1":
                exp = [_fl(x) for x in common.plist(o["expected"])]
                iss.append(Issue("PROPFAIL", "vectorised", f"{desc}, method {method}, metric shape {yshape}: entry [y..., a..., k] is not "
                                 f"the limit k of component y at alpha[a]: impl {obs.reshape(-1).tolist()} vs per-component formula {exp}; "
                                 f"theta {theta_f.tolist()}", f"bootci/vectorised/{method}/entries"))
            elif "err" in o or o.get("agree") != "1":
                iss.append(Issue("DISAGREE", "vectorised", f"{desc}: array model gives {o.get('err') or o.get('data')} (shape {o.get('shape')}), "
                                 f"impl {obs.reshape(-1).tolist()} (shape {obs.shape})", f"bootci/vectorised/{method}/model"))
            if "err" not in o and o.get("model_eq_spec") != "1":
                iss.append(Issue("DISAGREE", "vectorised", f"{desc}: the array model and the prescribed array differ (contradicts C13_vec_*): "
                                 f"model {o.get('data')} expected {o.get('expected')}", f"bootci/vectorised/{method}/theorem"))
        return iss

    def judge(outs):
        iss = []
        iss.extend(judge_vec(outs[ncomp:]))
        for j, o in enumerate(outs[:ncomp]):
            misses = common.plist(o["miss"])
            # The model asked the oracle something the implementation did not ask: answer it with
            # the real scipy functions (they are the oracle) and evaluate the formula again.
            rounds = 0
            while misses and rounds < 3 and all(m.startswith(("ppf:", "cdf:")) for m in misses):
                rounds += 1
                for m_ in misses:
                    kind, arg = m_.split(":", 1)
                    x = math.inf if arg == "inf" else (-math.inf if arg == "-inf" else float(Fraction(arg)))
                    val = float(getattr(scipy.stats.norm, kind)(x))
                    tables[kind + "_in"].append(x); tables[kind + "_out"].append(val)
                o = common.run_driver([mkline(j)])[0]
                misses = common.plist(o["miss"])
                oracle_filled[0] += 1
            pole = common.pfrac(o["pole"])
            if misses:
                iss.append(Issue("ORACLE-MISS", "oracle", f"model query not among the recorded scipy calls: {misses}", "bootci/oracle-miss"))
                continue
            if pole is not None and pole < Fraction(1, 10**6):
                case.skipped += 1
                continue
            if o["spec.formula"] != "1":
                iss.append(Issue("PROPFAIL", "formula", f"method {method} alpha {alpha} component {j}: impl {cif[j].tolist()} "
                                 f"documented formula gives ({o['lo']}, {o['hi']}) ~ "
                                 f"({_fl(o['lo'])}, {_fl(o['hi'])}); replicates {cols[j]} estimate {inp['th'][j]}", f"bootci/{method}/formula"))
            bca_branch = True
            if method == "bca":
                bca_branch = _bca_branch_ok(cols[j], inp["th"][j], [alpha, inp["alpha2"]])
            if method != "bca" or bca_branch:
                if o["spec.ordered"] != "1":
                    iss.append(Issue("PROPFAIL", "ordered", f"limits not ordered: {cif[j].tolist()} (method {method})", f"bootci/{method}/ordered"))
                if ci2 is not None:
                    lo1, hi1 = cif[j]; lo2, hi2 = ci2[j]
                    if not (math.isnan(lo1) and math.isnan(lo2)):
                        if not (lo1 <= lo2 + tol and hi2 <= hi1 + tol):
                            iss.append(Issue("PROPFAIL", "nested", f"alpha {alpha} -> {cif[j].tolist()}, alpha {inp['alpha2']} -> {ci2[j].tolist()} (method {method})", f"bootci/{method}/nested"))
            if o["spec.inrange"] != "1":
                iss.append(Issue("PROPFAIL", "inrange", f"limits {cif[j].tolist()} outside the replicate range (method {method})", f"bootci/{method}/inrange"))
        return iss

    case = Case(ID, inp, lines, judge, tuple(tags), 0, pre)
    return case


def _fl(s):
    return "nan" if s == "nan" else float(Fraction(s))


def _bca_branch_ok(col, th, alphas):
    """|a*(z0+z_alpha)| < 1 for both tails (the branch on which ordering/nesting is claimed)"""
    import scipy.stats
    x = np.array(col, dtype=float)
    fin = x[~np.isnan(x)]
    if len(fin) == 0:
        return True
    p0 = np.sum(fin <= th) / len(fin)
    z0 = scipy.stats.norm.ppf(p0)
    if not np.isfinite(z0):
        return True
    den = 6 * np.sum((fin - th) ** 2) ** 1.5
    a = np.sum((fin - th) ** 3) / den if den != 0 else 0.0
    for al in alphas:
        for za in (scipy.stats.norm.ppf(al / 2), scipy.stats.norm.ppf(1 - al / 2)):
            if abs(a * (z0 + za)) >= 1 - 1e-6:
                return False
    return True


def shrink_candidates(inp):
    if len(inp["cols"]) > 1:
        for j in range(len(inp["cols"])):
            c = dict(inp); c["cols"] = [inp["cols"][j]]; c["th"] = [inp["th"][j]]; c["yshape"] = []; yield c
    n = inp["n"]
    if n > 1:
        for i in range(n):
            c = dict(inp); c["cols"] = [col[:i] + col[i + 1:] for col in inp["cols"]]; c["n"] = n - 1; yield c
    if inp["alpha_array"]:
        c = dict(inp); c["alpha_array"] = False; yield c


# --------------------------------------------------------------------------------------
# second tie: the decision tables of this property regenerated from the source on every run
# (harness/dectables2.py -> generated Lean file checked by the kernel; bridge: SA/Theorems/DecTables2.lean)
# --------------------------------------------------------------------------------------
def extra_gate_start():
    """start the translator + Lean check in a child process; the cases run meanwhile"""
    import common
    import dectables2
    return dectables2.start(common.REPO)


def extra_gate_finish(handle):
    """-> {problems, theorems, obligations, discharged, notes, evidence}; a definite mismatch of a table row is a
    broken proof obligation, `unknown` rows are evidence only"""
    import dectables2
    return dectables2.gate_result(dectables2.finish(handle), ID)
