"""C14 — bootstrapped metrics / intervals are what the sampler and the CI formula produce.

One case = one Scores / GroupScores object x one metric (by name, `groupwise(...)`, or a recording
callable; with keyword arguments) x one sampler:

  counting   a deterministic custom `sampling_method`: call k returns a recognisable object derived
             from the source (k-th score removed / scores shifted by (k+1)/8) and records every
             sample it hands out.  Row j of `bootstrap_metric` must equal, exactly, the metric the
             harness applies to recorded sample j; the sampler must be called with the object itself,
             exactly nb_samples times, by bootstrap_metric and by bootstrap_ci.
  identity   `lambda s: s`: every row is the estimate and the interval collapses onto it for
             quantile, bc and bca (NaN estimate -> NaN interval).
  builtin    replacement / single_pass / dynamic / proportion(ratio), stratified None / by_label /
             by_group, smoothing, under np.random.seed(seed): two runs are byte-identical, row j is
             the metric of the j-th sample of a fresh `bootstrap_sample` loop under the same seed,
             and (instance-level hook) `bootstrap_sample` receives the configured config.

For all of them: shape (nb, *metric_shape) and dtype of the metric, bootstrap_ci shape
metric_shape + (2,), bootstrap_ci == utils.bootstrap_ci(theta=those rows, theta_hat=metric(original))
exactly, callables receive the sample first and the kwargs unchanged, the object and every caller
array are unchanged; the Lean op `bootmetric` evaluates rowsOK / formulaOK (C13 formula on the
OBSERVED replicates with recorded scipy oracle values) / identityOK on the observed outputs.
"""
from __future__ import annotations

import copy
import math
from fractions import Fraction

import numpy as np

import common
import gen
from common import Case, Issue, q, line

ID = "C14"
LEVEL = "proof"
RULE = ("cases = Scores (easy counts, 4 configurations, 2-9 scores per class, sometimes >=100 so that 'dynamic' is "
        "single pass) / GroupScores (2-3 groups, str or int labels, groups possibly missing a class) x metric by name "
        "(6 rates + aliases with scalar / 1-d / 2-d / size-0 thresholds, eer, auc with kwargs, threshold_at_* with "
        "scalar / array target and method=, group_* names, groupwise(name|callable)) or recording callable (numpy "
        "scalar, Python float, 1-d, 2-d, size-0, integer-valued, NaN-producing; kwargs scale / offset array / tag) x "
        "sampler (counting drop / counting shift / identity / every built-in configuration under a seed) x nb_samples "
        "1..12 x method quantile / bc / bca x alpha; evaluations = rows + interval components + call-protocol checks; "
        "non-trivial = everything except the identity sampler with a size-0 metric")
EXPLANATION = ("Lean: bootstrapMetric is 'row j = metric (sampler j)', bootstrapCIOf is the C13 formula per component on the "
               "columns with metric(original) as estimate; C14_rows / C14_ci unfold this, C14_quantile_const proves that "
               "every linear quantile of a constant list is the constant, hence C14_identity (all methods, any oracles), "
               "C14_deterministic (function of the samples). That the CODE has this shape is what this run observes: the "
               "harness owns the sampler, recomputes every row from the recorded samples with its own metric application, "
               "recomputes the interval with utils.bootstrap_ci (C13) from those rows and the metric of the original, and "
               "lets the Lean driver evaluate rowsOK / formulaOK / identityOK on the observed arrays.")
TRUSTED_BASE = ["Lean 4.33 kernel", "axioms propext/Classical.choice/Quot.sound only",
                "hand-written model SA/Model/BootMetric.lean (+Bootstrap) tied to /repo by this correspondence run",
                "scipy.stats.norm.ppf/cdf and x**1.5 as oracles (recorded values)",
                "utils.bootstrap_ci is the subject of C13; here it is the reference the assembled interval must equal",
                "Python attribute resolution, keyword forwarding and NumPy RNG determinism are observed, not proved",
                "harness and driver parsing"]
ASSUMPTIONS = ["metrics are deterministic functions of (sample, kwargs) with constant output shape and numeric dtype",
               "a NaN estimate component under bc/bca is outside the Lean model (still compared with utils.bootstrap_ci)",
               "infinite replicates / estimates are not sent to the driver", "alpha in (0,1)",
               "BCa components within 1e-6 of the pole 1 - a*s = 0 are skipped in formulaOK",
               "an exception is accepted only if the harness's own application of the metric to the same samples raises too"]

METHODS = ["quantile", "bc", "bca"]
RATES = gen.METRICS
ALIASES = [gen.ALIASES[m] for m in gen.METRICS]
THR_AT = [("threshold_at_" + m, m) for m in RATES] + [("threshold_at_far", "far"), ("threshold_at_frr", "frr")]
GROUP_NAMES = ["group_tpr", "group_fnr", "group_tnr", "group_fpr", "group_topr", "group_tonr", "group_tar",
               "group_frr", "group_trr", "group_far", "group_acceptance_rate", "group_rejection_rate"]
CALLABLES = ["scalar", "scalar", "pyfloat", "vec", "vec", "mat", "mat", "empty", "empty2", "int", "nanmix", "nanmix", "nancol", "vecbuf"]


def n_cases(tier):
    return 4000 if tier == "quick" else 32000


# ----------------------------------------------------------------------------------------
# generation
# ----------------------------------------------------------------------------------------
def _vals(rng, n):
    if rng.random() < 0.4:
        pool = [rng.randint(-24, 24) / 8.0 for _ in range(rng.randint(2, 5))]
        return [rng.choice(pool) for _ in range(n)]
    return [rng.randint(-64, 64) / 16.0 for _ in range(n)]


def _thr_value(rng, allv):
    v = rng.choice(allv)
    return v + rng.choice([0.0, 0.0, 1 / 32, -1 / 32, 0.5])


def _thr_kw(rng, allv, allow_empty=True):
    shape = rng.choice(["scalar", "scalar", "1d", "1d", "2d", "empty"] if allow_empty else ["scalar", "1d", "1d", "2d"])
    if shape == "scalar":
        return _thr_value(rng, allv)
    if shape == "1d":
        return {"arr": [_thr_value(rng, allv) for _ in range(rng.randint(1, 3))]}
    if shape == "2d":
        return {"arr": [[_thr_value(rng, allv) for _ in range(2)] for _ in range(rng.randint(1, 2))]}
    return {"arr": []}


def _callable_metric(rng):
    cid = rng.choice(CALLABLES)
    kw = {}
    if rng.random() < 0.7:
        kw["scale"] = rng.choice([0.5, 2.0, -1.5, 3.0])
    if rng.random() < 0.5:
        if cid == "mat":
            kw["offset"] = {"arr": [[rng.randint(-8, 8) / 4.0 for _ in range(3)] for _ in range(2)]}
        elif cid == "vec":
            kw["offset"] = {"arr": [rng.randint(-8, 8) / 4.0 for _ in range(3)]}
        else:
            kw["offset"] = rng.randint(-8, 8) / 4.0
    if rng.random() < 0.3:
        kw["tag"] = rng.choice(["x", "tag", ""])
    return {"type": "callable", "name": cid, "kwargs": kw}


def _gen_metric(rng, kind, allv):
    r = rng.random()
    if kind == "scores":
        if r < 0.22:
            return {"type": "name", "name": rng.choice(RATES + ALIASES), "kwargs": {"threshold": _thr_kw(rng, allv)}}
        if r < 0.30:
            return {"type": "name", "name": "eer", "kwargs": {}}
        if r < 0.40:
            kw = {}
            if rng.random() < 0.5:
                kw["lower"] = rng.choice([0.0, 0.125, 0.25])
                kw["upper"] = rng.choice([0.5, 0.75, 1.0])
            if rng.random() < 0.4:
                kw["x_axis"], kw["y_axis"] = rng.choice([("fnr", "tnr"), ("fpr", "tpr"), ("fpr", "fnr")])
            return {"type": "name", "name": "auc", "kwargs": kw}
        if r < 0.58:
            name, arg = rng.choice(THR_AT)
            tgt = rng.choice([0.1, 0.25, 0.5, 0.0, 1.0, {"arr": [0.1, 0.5]}, {"arr": [[0.25], [0.75]]}])
            kw = {arg: tgt}
            if rng.random() < 0.7:
                kw["method"] = rng.choice(["lower", "higher", "linear"])
            return {"type": "name", "name": name, "kwargs": kw}
        return _callable_metric(rng)
    # GroupScores
    if r < 0.28:
        return {"type": "name", "name": rng.choice(GROUP_NAMES), "kwargs": {"threshold": _thr_kw(rng, allv)}}
    if r < 0.40:  # Scores names on a GroupScores object (inherited)
        if rng.random() < 0.25:
            return {"type": "name", "name": rng.choice(["auc", "eer"]), "kwargs": {}}
        return {"type": "name", "name": rng.choice(RATES + ALIASES), "kwargs": {"threshold": _thr_kw(rng, allv)}}
    if r < 0.58:
        return {"type": "groupwise", "name": rng.choice(RATES + ALIASES),
                "kwargs": {"threshold": _thr_kw(rng, allv, allow_empty=False)}}
    if r < 0.68:
        m = _callable_metric(rng)
        m["type"] = "groupwise_callable"
        if m["name"] in ("empty2",):
            m["name"] = "vec"
        return m
    return _callable_metric(rng)


def gen_one(rng, i, tier):
    kind = "group" if rng.random() < 0.42 else "scores"
    big = rng.random() < 0.1
    if big:
        npos, nneg = rng.randint(100, 112), rng.randint(100, 112)
    else:
        npos, nneg = rng.randint(2, 9), rng.randint(2, 9)
    pos, neg = _vals(rng, npos), _vals(rng, nneg)
    if rng.random() < 0.6:  # positives tend to score higher
        pos = [x + 1.5 for x in pos]
    sc, ec = rng.choice(gen.CFGS)
    inp = {"kind": kind, "pos": pos, "neg": neg, "sc": sc, "ec": ec, "ep": 0, "en": 0}
    if kind == "scores":
        inp["ep"] = rng.choice([0, 0, 1, 3, 2 * npos])
        inp["en"] = rng.choice([0, 0, 2, 5, nneg])
    else:
        g = rng.choice([2, 3])
        names = rng.choice([["a", "b", "c"], ["g1", "g0", "g2"], [0, 1, 2]])[:g]
        inp["pg"] = [rng.choice(names) for _ in range(npos)]
        inp["ng"] = [rng.choice(names) for _ in range(nneg)]
        if rng.random() < 0.8:  # usually every group has both classes
            for k, nm in enumerate(names):
                inp["pg"][k % npos] = nm
                inp["ng"][(k + 1) % nneg] = nm
    allv = sorted(set(pos) | set(neg))
    metric = _gen_metric(rng, kind, allv)
    inp["metric"] = metric
    r = rng.random()
    if r < 0.25:
        smp = {"type": "drop"}
    elif r < 0.40:
        smp = {"type": "shift"}
    elif r < 0.55:
        smp = {"type": "identity"}
    elif r < 0.62 and kind == "scores":
        smp = {"type": "mutating"}
    else:
        if kind == "scores":
            sm = rng.choice(["replacement", "single_pass", "dynamic", "proportion"])
            st = rng.choice([None, None, "by_label", "by_label", "by_group"])
            smp = {"type": "builtin", "sampling_method": sm, "stratified": st,
                   "ratio": rng.choice([0.3, 0.5, 0.75]) if sm == "proportion" else None,
                   "smoothing": sm in ("replacement", "dynamic") and rng.random() < 0.2}
        else:
            sm = rng.choice(["replacement", "single_pass", "dynamic"])
            st = rng.choice([None, "by_label", "by_group", "by_group"])
            smp = {"type": "builtin", "sampling_method": sm, "stratified": st, "ratio": None, "smoothing": False}
    if kind == "scores" and rng.random() < 0.12:
        # a user subclass of Scores that overrides one metric and adds another, queried BY NAME: the name is resolved on the
        # object's own class, also for the samples (which the built-in samplers return as plain Scores)
        inp["subclass"] = True
        nm = rng.choice(["tpr", "spread", "fnr", "spread"])
        inp["metric"] = metric = ({"type": "name", "name": nm, "kwargs": {"scale": rng.choice([0.5, 2.0, 3.0])}} if nm == "spread"
                                  else {"type": "name", "name": nm, "kwargs": {"threshold": _thr_kw(rng, allv)}})
    elif kind == "scores" and rng.random() < 0.06:
        # an object on which the metric is undefined (no positives: TPR is 0/0) while every sample has positives: the
        # replicates and the interval are what sampler and formula produce, whatever the point estimate is
        inp["pos"] = []
        inp["ep"] = 0
        inp["metric"] = metric = rng.choice([
            {"type": "name", "name": rng.choice(["tpr", "fnr"]), "kwargs": {"threshold": _thr_kw(rng, allv, allow_empty=False)}},
            {"type": "callable", "name": "scalar", "kwargs": {}}, {"type": "callable", "name": "nancol", "kwargs": {}}])
        smp = {"type": "foreign"}
    inp["sampler"] = smp
    inp["nb"] = rng.choice([1, 2, 3, 3, 4, 5, 6, 8, 12])
    inp["method"] = rng.choice(METHODS)
    inp["alpha"] = rng.choice([0.05, 0.1, 0.2, 0.5, round(rng.uniform(0.01, 0.9), 3)])
    # vector-valued alpha (documented for the quantile method): one interval per level, in the order given
    inp["alpha_vec"] = ([round(rng.uniform(0.01, 0.9), 3) for _ in range(rng.randint(1, 3))]
                        if rng.random() < 0.35 else None)
    inp["seed"] = rng.randint(0, 2**31 - 1)
    return inp


def nontrivial(inp):
    return not (inp["sampler"]["type"] == "identity" and inp["metric"]["name"] in ("empty", "empty2"))


# ----------------------------------------------------------------------------------------
# objects, metrics, samplers
# ----------------------------------------------------------------------------------------
def _make_obj(inp):
    from score_analysis import GroupScores, Scores

    pos = np.array(inp["pos"], dtype=float)
    neg = np.array(inp["neg"], dtype=float)
    caller = [pos, neg]
    if inp["kind"] == "scores" and inp.get("subclass"):
        class MyScores(Scores):
            """user subclass: overrides tpr (defined through the parent's fnr, written so that it also works when the
            unbound function is applied to a plain Scores sample) and adds the metric `spread`"""

            def tpr(self, threshold):
                return 1.0 - 0.5 * np.asarray(Scores.fnr(self, threshold))

            def spread(self, scale=1.0):
                lo = float(self.pos[0]) if len(self.pos) else math.nan
                hi = float(self.pos[-1]) if len(self.pos) else math.nan
                return np.array([(hi - lo) * scale, float(len(self.neg))])

        obj = MyScores(pos, neg, nb_easy_pos=inp["ep"], nb_easy_neg=inp["en"], score_class=inp["sc"], equal_class=inp["ec"])
    elif inp["kind"] == "scores":
        obj = Scores(pos, neg, nb_easy_pos=inp["ep"], nb_easy_neg=inp["en"], score_class=inp["sc"], equal_class=inp["ec"])
    else:
        pg, ng = np.array(inp["pg"]), np.array(inp["ng"])
        caller += [pg, ng]
        obj = GroupScores(pos, neg, pos_groups=pg, neg_groups=ng, score_class=inp["sc"], equal_class=inp["ec"])
    return obj, caller


def _snapshot(obj):
    d = {"pos": obj.pos.copy(), "neg": obj.neg.copy(), "ep": obj.nb_easy_pos, "en": obj.nb_easy_neg,
         "sc": obj.score_class, "ec": obj.equal_class, "cls": type(obj)}
    if hasattr(obj, "pos_groups"):
        d["pg"], d["ng"], d["groups"] = obj.pos_groups.copy(), obj.neg_groups.copy(), obj.groups.copy()
    return d


def _snap_diff(a, b):
    out = []
    for k in a:
        x, y = a[k], b[k]
        if isinstance(x, np.ndarray):
            if x.shape != y.shape or x.dtype != y.dtype or x.tobytes() != y.tobytes():
                out.append(k)
        elif x != y:
            out.append(k)
    return out


def _decode_kwargs(kw):
    return {k: (np.array(v["arr"], dtype=float) if isinstance(v, dict) else v) for k, v in kw.items()}


def _kw_equal(a, b):
    if set(a) != set(b):
        return False
    for k in a:
        x, y = a[k], b[k]
        if isinstance(x, np.ndarray) or isinstance(y, np.ndarray):
            if not (isinstance(x, np.ndarray) and isinstance(y, np.ndarray) and x.shape == y.shape
                    and x.tobytes() == y.tobytes()):
                return False
        elif type(x) is not type(y) or x != y:
            return False
    return True


def _mean(x):
    return float(np.sum(x)) / len(x) if len(x) else math.nan


def _pure_callable(cid):
    """deterministic metrics of (sample, kwargs); every one accepts scale / offset / tag"""
    def scalar(s, scale=1.0, offset=0.0, tag=""):
        return np.float64((_mean(s.pos) - _mean(s.neg)) * scale + offset + len(tag))

    def pyfloat(s, scale=1.0, offset=0.0, tag=""):
        return float(len(s.pos)) / (len(s.neg) + 1) * scale + float(offset) + len(tag)

    def vec(s, scale=1.0, offset=0.0, tag=""):
        return np.array([_mean(s.pos), _mean(s.neg), float(np.sum(s.pos)) * scale]) + offset + len(tag)

    def mat(s, scale=1.0, offset=0.0, tag=""):
        def row(x):
            return [float(x[0]), float(x[-1]), _mean(x)] if len(x) else [math.nan] * 3
        return np.array([row(s.pos), row(s.neg)]) * scale + offset + len(tag)

    def empty(s, scale=1.0, offset=0.0, tag=""):
        return np.zeros((0,))

    def empty2(s, scale=1.0, offset=0.0, tag=""):
        return np.zeros((2, 0))

    def int_(s, scale=1.0, offset=0.0, tag=""):
        return np.array([len(s.pos) + len(tag), len(s.neg), int(np.sum(s.pos > _mean(s.neg))) if len(s.neg) else 0])

    def nanmix(s, scale=1.0, offset=0.0, tag=""):
        v = float(np.sum(s.pos))
        c0 = math.nan if int(math.floor(v * 8)) % 3 == 0 else v * scale
        return np.array([c0, _mean(s.neg) + offset + len(tag)])

    def nancol(s, scale=1.0, offset=0.0, tag=""):
        return np.array([math.nan, _mean(s.pos) * scale + offset + len(tag)])

    return {"scalar": scalar, "pyfloat": pyfloat, "vec": vec, "mat": mat, "empty": empty, "empty2": empty2,
            "int": int_, "nanmix": nanmix, "nancol": nancol}[cid]


class _RecMetric:
    """the callable handed to the implementation: records (positional args, kwargs) of every call"""

    def __init__(self, fn):
        self.fn, self.calls = fn, []

    def __call__(self, *a, **k):
        self.calls.append((a, dict(k)))
        return self.fn(*a, **k)


def _make_metric(spec, kwargs):
    """-> (metric argument for the implementation, harness-side application, recorder or None)"""
    from score_analysis import groupwise

    t, name = spec["type"], spec["name"]
    if t == "name":
        return name, (lambda s: getattr(s, name)(**kwargs)), None
    if t == "groupwise":
        return groupwise(name), (lambda s: np.stack([getattr(s[g], name)(**kwargs) for g in s.groups], axis=0)), None
    if name == "vecbuf" and t != "groupwise_callable":
        # (groupwise() collects the per-group values in a list before stacking them: a shared work array is the caller's
        # mistake there, not the library's, so the groupwise form uses the fresh-array twin)
        # a metric that fills and returns ONE preallocated array (out=-style, as vectorised user code does): a replicate row
        # is the value at the time of the call, whatever the array holds later.  The harness side uses the fresh-array twin.
        fn = _pure_callable("vec")
        work = np.empty(3)

        def into_buffer(s_, *a_, **k_):
            work[:] = fn(s_, *a_, **k_)
            return work
        rec = _RecMetric(into_buffer)
    else:
        fn = _pure_callable("vec" if name == "vecbuf" else name)
        rec = _RecMetric(fn)
    if t == "groupwise_callable":
        return groupwise(rec), (lambda s: np.stack([fn(s[g], **kwargs) for g in s.groups], axis=0)), rec
    return rec, (lambda s: fn(s, **kwargs)), rec


def _derive(obj, kind, k):
    """the k-th sample of the counting samplers: a recognisable object, different for every k"""
    from score_analysis import GroupScores, Scores

    pos, neg = obj.pos, obj.neg
    pg = getattr(obj, "pos_groups", None)
    ng = getattr(obj, "neg_groups", None)
    if kind == "foreign":
        pos = np.array([k / 4.0, 1.0 + k / 8.0, 2.0, 2.0 + (k % 3)])
        neg = neg - (k + 1) / 16.0
    elif kind == "drop":
        if k % 2 == 0:
            i = (k // 2) % len(pos)
            pos = np.delete(pos, i)
            pg = np.delete(pg, i) if pg is not None else None
        else:
            i = (k // 2) % len(neg)
            neg = np.delete(neg, i)
            ng = np.delete(ng, i) if ng is not None else None
    else:
        pos = pos + (k + 1) / 8.0
        neg = neg - (k + 1) / 16.0
    if pg is None:
        return Scores(pos, neg, nb_easy_pos=obj.nb_easy_pos, nb_easy_neg=obj.nb_easy_neg,
                      score_class=obj.score_class, equal_class=obj.equal_class)
    return GroupScores(pos, neg, pos_groups=pg, neg_groups=ng, score_class=obj.score_class,
                       equal_class=obj.equal_class, group_names=obj.groups)


class _Counting:
    def __init__(self, obj, kind, at_call=None):
        self.obj, self.kind, self.samples, self.sources, self.extra = obj, kind, [], [], []
        self.at_call, self.rows, self.work = at_call, [], None

    def __call__(self, *a, **k):
        self.sources.append(a[0] if a else None)
        if len(a) != 1 or k:
            self.extra.append((len(a), sorted(k)))
        if self.kind == "mutating":
            # ONE work object whose buffers are overwritten and which is returned again and again (a sampler that avoids
            # allocations): row j is the metric of the sample AS RETURNED BY CALL j, so the metric has to be taken before
            # the next draw; the harness records it at call time
            from score_analysis import Scores
            if self.work is None:
                self.work = Scores(np.array(self.obj.pos, dtype=float), np.array(self.obj.neg, dtype=float),
                                   nb_easy_pos=self.obj.nb_easy_pos, nb_easy_neg=self.obj.nb_easy_neg,
                                   score_class=self.obj.score_class, equal_class=self.obj.equal_class, is_sorted=True)
            self.work.pos += 0.125 * (1 + len(self.samples) % 3)
            self.work.neg -= 0.0625
            s = self.work
            if self.at_call is not None:
                self.rows.append(np.array(self.at_call(s), copy=True))
        else:
            s = self.obj if self.kind == "identity" else _derive(self.obj, self.kind, len(self.samples))
        self.samples.append(s)
        return s


def _same(a, b):
    """exact equality of two numeric arrays, NaN == NaN, shapes equal"""
    a, b = np.asarray(a), np.asarray(b)
    if a.shape != b.shape:
        return False
    if a.size == 0:
        return True
    fa, fb = a.astype(float), b.astype(float)
    return bool(np.all((fa == fb) | (np.isnan(fa) & np.isnan(fb))))


def _close(a, b, ref_values):
    """equality up to floating-point noise: same shape, same NaN positions, finite entries within 1e-9 of the scale of the
    replicates / estimate they were computed from (the limits are continuous functions of the replicates: a maintainer
    who sums the BCa moments in another order changes last bits only), infinite entries equal"""
    a, b = np.asarray(a), np.asarray(b)
    if a.shape != b.shape:
        return False
    if a.size == 0:
        return True
    fa, fb = a.astype(float), b.astype(float)
    rv = np.asarray(ref_values, dtype=float).reshape(-1)
    rv = rv[np.isfinite(rv)]
    scale = float(np.max(np.abs(rv))) if rv.size else 1.0
    fin = np.isfinite(fa) & np.isfinite(fb)
    ok = (np.isnan(fa) & np.isnan(fb)) | (~fin & (fa == fb)) | (fin & (np.abs(np.where(fin, fa - fb, 0.0)) <= 1e-9 * max(scale, 1e-300)))
    return bool(np.all(ok))


def _orat(x):
    x = float(x)
    return "nan" if math.isnan(x) else q(x)


def _olist(xs):
    return "[" + ",".join(_orat(x) for x in xs) + "]"


def _erat_list(xs):
    return "[" + ",".join(q(float(x)) for x in xs) + "]"


def _short(a, n=12):
    a = np.asarray(a)
    s = np.array2string(a.reshape(-1)[:n], separator=",", threshold=n)
    return f"shape {a.shape} {s}{'...' if a.size > n else ''}"


# ----------------------------------------------------------------------------------------
# the case
# ----------------------------------------------------------------------------------------
def build(inp) -> Case:
    import scipy.stats
    from score_analysis import BootstrapConfig, utils

    inp = dict(inp)
    pre = []
    obj, caller = _make_obj(inp)
    caller_before = [c.copy() for c in caller]
    snap0 = _snapshot(obj)
    kwargs = _decode_kwargs(inp["metric"]["kwargs"])
    kwargs_before = copy.deepcopy(kwargs)
    metric_arg, apply_metric, rec = _make_metric(inp["metric"], kwargs)
    if inp["metric"]["type"] == "name":
        # "metric names resolved on the object's own class": the function found on type(obj), applied to whatever
        # object the sampler returned
        _fn = getattr(type(obj), inp["metric"]["name"], None)
        if _fn is not None:
            apply_metric = lambda s_, _fn=_fn: _fn(s_, **kwargs)  # noqa: E731
    mspec, stype = inp["metric"], inp["sampler"]["type"]
    nb, method, alpha, seed = inp["nb"], inp["method"], inp["alpha"], inp["seed"]
    mdesc = f"{mspec['type']}:{mspec['name']}({','.join(sorted(mspec['kwargs']))})"
    desc = f"{inp['kind']} metric {mdesc} sampler {stype} nb {nb} method {method}"
    tags = [inp["kind"], "sampler=" + stype, "metric=" + mspec["type"], method]
    if inp.get("subclass"):
        tags.append("user-subclass")
    if not inp["pos"]:
        tags.append("metric-undefined-on-original-only")
    evals = [0]

    def fail(clause, detail, sig):
        pre.append(Issue("PROPFAIL", clause, f"{detail} | {desc}", sig))

    def done(lines=(), judge=None):
        # the object and the caller's arrays must be untouched whatever happened
        obj.__dict__.pop("bootstrap_sample", None)
        d = _snap_diff(snap0, _snapshot(obj))
        if d:
            fail("mutates-object", f"fields changed: {d}", "boot/mutates-object")
        for k, (c0, c1) in enumerate(zip(caller_before, caller)):
            if c0.tobytes() != c1.tobytes():
                fail("mutates-input", f"constructor array #{k} changed", "boot/mutates-input")
        if not _kw_equal(kwargs, kwargs_before):
            fail("mutates-input", "a keyword-argument array was changed", "boot/mutates-kwargs")
        inp["_evals"] = max(1, evals[0])
        return Case(ID, inp, list(lines), judge or (lambda outs: []), tuple(tags), 0, pre)

    # the point estimate: the metric of the ORIGINAL object, applied by the harness
    e = common.call(apply_metric, obj)
    if e[0] == "exc":
        tags.append("metric-undefined-on-original")
        return done()
    est = np.asarray(e[1])
    mshape, ncomp = est.shape, int(est.size)
    if est.dtype.kind not in "fiu":
        return done()
    if est.dtype.kind in "iu":
        tags.append("int-metric")

    def config(sampler, meth=method):
        if stype == "builtin":
            s = inp["sampler"]
            return BootstrapConfig(nb_samples=nb, bootstrap_method=meth, sampling_method=s["sampling_method"],
                                   stratified_sampling=s["stratified"], ratio=s["ratio"], smoothing=s["smoothing"])
        return BootstrapConfig(nb_samples=nb, bootstrap_method=meth, sampling_method=sampler)

    def expected_rows(samples):
        rows = [np.asarray(apply_metric(s)) for s in samples]
        return np.stack(rows, axis=0).astype(est.dtype) if rows else np.empty((0,) + mshape, dtype=est.dtype)

    def check_matrix(r, what):
        """shape / dtype of the replicate matrix; returns the matrix or None"""
        evals[0] += 2
        if not isinstance(r, np.ndarray):
            fail("type", f"{what} returned {type(r).__name__}", "boot/metric/type")
            return None
        if r.shape != (nb,) + mshape:
            fail("shape", f"{what} shape {r.shape}, expected {(nb,) + mshape}", "boot/metric/shape")
            return None
        if r.dtype != est.dtype:
            fail("dtype", f"{what} dtype {r.dtype}, metric dtype {est.dtype}", "boot/metric/dtype")
        return r

    def check_rows(r, exp, what, sig):
        ok = True
        for j in range(nb):
            evals[0] += 1
            if not _same(r[j], exp[j]):
                ok = False
                fail("rows", f"{what}: row {j} is {_short(r[j])}, metric of sample {j} is {_short(exp[j])}", sig)
                break
        return ok

    def check_rec_calls(samples, what):
        """callables: sample passed first (positionally, alone), kwargs unchanged"""
        if rec is None:
            return
        evals[0] += 1
        for a, k in rec.calls:
            if not _kw_equal(k, kwargs_before):
                fail("kwargs", f"{what}: metric called with kwargs {sorted(k)} / changed values, given {sorted(kwargs)}",
                     "boot/kwargs")
                return
            if len(a) != 1:
                fail("kwargs", f"{what}: metric called with {len(a)} positional arguments", "boot/metric-args")
                return
        if mspec["type"] == "callable" and samples is not None:
            firsts = [a[0] for a, _ in rec.calls if a]
            for j, s in enumerate(samples):
                if not any(f is s for f in firsts):
                    fail("sample-arg", f"{what}: the metric was never called on sample {j}", "boot/sample-arg")
                    return
            allowed = list(samples) + [obj]
            if any(not any(f is s for s in allowed) for f in firsts):
                fail("sample-arg", f"{what}: the metric was called on an object that is neither a sample nor the original",
                     "boot/sample-arg-foreign")

    def reference_ci(theta, meth=method):
        return common.call(utils.bootstrap_ci, theta=theta, theta_hat=est, alpha=alpha, method=meth)

    def check_ci(ci_res, theta, what, meth=method):
        """shape and equality (up to float noise, see _close) with utils.bootstrap_ci(rows, metric(original)); returns ci or None"""
        evals[0] += 2
        ref = reference_ci(theta, meth)
        if ci_res[0] == "exc":
            known = ""
            th_ = np.asarray(theta, dtype=float).reshape(len(theta), -1)
            if est.dtype.kind in "iu":
                known = "int-metric/"
            elif th_.shape[0] > 0 and th_.shape[1] > 0 and bool(np.any(np.all(np.isnan(th_), axis=0))):
                known = "nan-column/"  # a component that is NaN in every replicate
            fail("ci-raises", f"{what} raised {ci_res[1]}: {ci_res[2]} (utils.bootstrap_ci on the same rows: "
                 f"{'raises ' + ref[1] if ref[0] == 'exc' else 'ok'})", f"boot/ci/raises/{known}{meth}/{ci_res[1]}")
            return None
        ci = np.asarray(ci_res[1])
        if ci.shape != mshape + (2,):
            fail("ci-shape", f"{what} shape {ci.shape}, expected {mshape + (2,)}", "boot/ci/shape")
            return None
        if ref[0] == "ok" and not _close(ci, ref[1], np.concatenate([np.asarray(theta, dtype=float).reshape(-1),
                                                                      np.asarray(est, dtype=float).reshape(-1)])):
            fail("ci-formula", f"{what} = {_short(ci)} but utils.bootstrap_ci(theta=rows, theta_hat=metric(original)="
                 f"{_short(est, 6)}, alpha={alpha}, method={meth}) = {_short(ref[1])}", f"boot/ci/{meth}/estimate-or-rows")
        return ci

    def raised_legit(res, samples_fn, what, sig):
        """implementation raised: legitimate only if the metric raises on the same samples"""
        h = common.call(lambda: expected_rows(samples_fn()))
        if h[0] == "exc":
            tags.append("metric-raises-on-sample")
            return True
        fail("raises", f"{what} raised {res[1]}: {res[2]} although the metric is defined on every sample", sig + "/" + res[1])
        return False

    ppf_in, ppf_out, cdf_in, cdf_out = [], [], [], []

    def record_tables(ppf_calls, cdf_calls):
        for calls, xin, xout in ((ppf_calls, ppf_in, ppf_out), (cdf_calls, cdf_in, cdf_out)):
            for a_, k_, res in calls:
                xi, xo = np.asarray(a_[0], dtype=float).reshape(-1), np.asarray(res, dtype=float).reshape(-1)
                for u, v in zip(xi, xo):
                    if not math.isnan(u) and not math.isnan(v):
                        xin.append(float(u)); xout.append(float(v))

    def run_ci_recorded(cfg):
        with common.Recorder(scipy.stats.norm, "ppf") as rp, common.Recorder(scipy.stats.norm, "cdf") as rc:
            r = common.call(obj.bootstrap_ci, metric_arg, alpha, cfg, **kwargs)
        record_tables(rp.calls, rc.calls)
        return r

    obs = exp = ci = None  # what goes to the Lean driver
    identity = False

    # ------------------------------------------------------------------ counting / identity
    if stype in ("drop", "shift", "identity", "foreign", "mutating"):
        identity = stype == "identity"
        smp = _Counting(obj, stype, apply_metric)
        r = common.call(obj.bootstrap_metric, metric_arg, config(smp), **kwargs)
        ref_samples = lambda: ([] if stype == "mutating" else
                               [_derive(obj, stype, k) if not identity else obj for k in range(nb)])  # noqa: E731
        if r[0] == "exc":
            raised_legit(r, ref_samples, "bootstrap_metric", "boot/metric/raises")
            return done()
        evals[0] += 2
        if len(smp.samples) != nb:
            fail("sampler-calls", f"bootstrap_metric called the sampler {len(smp.samples)} times for nb_samples={nb}",
                 "boot/metric/sampler-calls")
        if any(s is not obj for s in smp.sources) or smp.extra:
            fail("sampler-source", "the custom sampler was not called as sampler(self)", "boot/sampler-source")
        mat = check_matrix(r[1], "bootstrap_metric")
        if mat is None:
            return done()
        samples = smp.samples[:nb] + ref_samples()[len(smp.samples):]
        if stype == "mutating":
            exp = (np.stack(smp.rows[:nb], axis=0).astype(est.dtype) if len(smp.rows) >= nb
                   else np.full((nb,) + mshape, np.nan))
        else:
            exp = expected_rows(samples)
        rows_ok = check_rows(mat, exp, "bootstrap_metric with a counting sampler", "boot/metric/rows")
        check_rec_calls(smp.samples[:nb] if len(smp.samples) >= nb else None, "bootstrap_metric")
        obs = mat
        # bootstrap_ci with a fresh sampler of the same kind
        methods = METHODS if identity else [method]
        for meth in methods:
            if rec is not None:
                rec.calls.clear()
            smp2 = _Counting(obj, stype, apply_metric)
            cfg2 = config(smp2, meth)
            c = run_ci_recorded(cfg2) if meth == method else common.call(obj.bootstrap_ci, metric_arg, alpha, cfg2, **kwargs)
            if len(smp2.samples) != nb and not (c[0] == "exc"):
                fail("sampler-calls", f"bootstrap_ci called the sampler {len(smp2.samples)} times for nb_samples={nb}",
                     "boot/ci/sampler-calls")
            if any(s is not obj for s in smp2.sources):
                fail("sampler-source", "bootstrap_ci: the custom sampler was not called as sampler(self)", "boot/sampler-source")
            if stype == "mutating":
                theta = (np.stack(smp2.rows[:nb], axis=0).astype(est.dtype) if len(smp2.rows) >= nb
                         else np.full((nb,) + mshape, np.nan))
            else:
                theta = expected_rows(smp2.samples[:nb] + ref_samples()[len(smp2.samples):])
            cc = check_ci(c, theta, f"bootstrap_ci[{meth}]", meth)
            check_rec_calls(smp2.samples[:nb] if len(smp2.samples) >= nb else None, "bootstrap_ci")
            if meth == method:
                ci = cc
            if identity and cc is not None:
                evals[0] += ncomp
                lo, hi = cc[..., 0], cc[..., 1]
                if not (_same(lo, est) and _same(hi, est)):
                    fail("identity", f"identity sampler, method {meth}: interval {_short(cc)} does not collapse onto the "
                         f"estimate {_short(est, 6)}", f"boot/identity/{meth}")
        if inp.get("alpha_vec") and method == "quantile" and ci is not None:
            # bootstrap_ci with an array of levels = the scalar calls, level by level (deterministic sampler: same rows)
            al = [alpha] + list(inp["alpha_vec"])
            cv = common.call(obj.bootstrap_ci, metric_arg, np.array(al), config(_Counting(obj, stype), "quantile"), **kwargs)
            evals[0] += len(al)
            tags.append("alpha-array")
            if cv[0] == "exc":
                fail("ci-raises", f"bootstrap_ci with alpha={al} raised {cv[1]}: {cv[2]}", f"boot/ci/alpha-array/raises/{cv[1]}")
            elif np.asarray(cv[1]).shape != mshape + (len(al), 2):
                fail("ci-shape", f"bootstrap_ci with {len(al)} levels: shape {np.asarray(cv[1]).shape}, expected "
                     f"{mshape + (len(al), 2)}", "boot/ci/alpha-array/shape")
            else:
                arr = np.asarray(cv[1], dtype=float)
                for k_, a_k in enumerate(al):
                    ck = common.call(obj.bootstrap_ci, metric_arg, a_k, config(_Counting(obj, stype), "quantile"), **kwargs)
                    if ck[0] == "ok" and not np.allclose(arr[..., k_, :], np.asarray(ck[1], dtype=float), rtol=1e-9,
                                                         atol=1e-12, equal_nan=True):
                        fail("ci-formula", f"bootstrap_ci with alpha={al}: the interval at position {k_} is "
                             f"{_short(arr[..., k_, :])} but the scalar call with alpha={a_k} gives {_short(ck[1])}",
                             "boot/ci/alpha-array/slice")
                        break
        if identity:
            for j in range(nb):
                if not _same(mat[j], est):
                    fail("identity", f"identity sampler: row {j} = {_short(mat[j])} is not the metric of the object "
                         f"{_short(est, 6)}", "boot/identity/rows")
                    break

    # ------------------------------------------------------------------ built-in configurations
    else:
        cfg = config(None)
        hook = []
        orig = type(obj).bootstrap_sample

        def hooked(*a, **k):
            s = orig(obj, *a, **k)
            hook.append((a, k, s))
            return s

        def fresh_samples():
            np.random.seed(seed)
            return [orig(obj, config=cfg) for _ in range(nb)]

        obj.__dict__["bootstrap_sample"] = hooked
        np.random.seed(seed)
        r1 = common.call(obj.bootstrap_metric, metric_arg, cfg, **kwargs)
        hook1 = list(hook)
        obj.__dict__.pop("bootstrap_sample", None)
        if r1[0] == "exc":
            raised_legit(r1, fresh_samples, "bootstrap_metric", "boot/metric/raises")
            return done()
        mat = check_matrix(r1[1], "bootstrap_metric")
        if mat is None:
            return done()
        check_rec_calls([s for _, _, s in hook1] if len(hook1) == nb else None, "bootstrap_metric")
        # reproducible
        np.random.seed(seed)
        r2 = common.call(obj.bootstrap_metric, metric_arg, cfg, **kwargs)
        evals[0] += 1
        if r2[0] == "exc" or not isinstance(r2[1], np.ndarray) or r2[1].shape != mat.shape or r2[1].dtype != mat.dtype \
                or r2[1].tobytes() != mat.tobytes():
            fail("reproducible", f"two bootstrap_metric runs under np.random.seed({seed}) differ: {_short(mat)} vs "
                 f"{_short(r2[1]) if r2[0] == 'ok' else r2[1]}", "boot/metric/reproducible")
        # reproducible whatever was called on the object before ("all bootstrap results are reproducible
        # for a fixed seed" over call histories): an intervening bootstrap call with a DIFFERENT
        # configuration must not change what the configured sampler produces afterwards
        from score_analysis import BootstrapConfig as _BC
        smp_ = inp["sampler"]
        if smp_["sampling_method"] in ("replacement", "dynamic") and inp["kind"] == "scores":
            alt = _BC(nb_samples=1, sampling_method=smp_["sampling_method"], stratified_sampling=smp_["stratified"],
                      smoothing=not smp_["smoothing"])
        else:
            alt = _BC(nb_samples=1, sampling_method="replacement" if smp_["sampling_method"] != "replacement" else "single_pass",
                      stratified_sampling=None)
        objB = _make_obj(inp)
        objB = objB[0] if isinstance(objB, tuple) else objB
        np.random.seed(seed + 1)
        common.call(objB.bootstrap_sample, alt)   # on a FRESH object the other configuration comes first
        np.random.seed(seed + 1)
        common.call(obj.bootstrap_sample, alt)    # and on the used object it comes in between
        np.random.seed(seed)
        rB = common.call(objB.bootstrap_metric, metric_arg, cfg, **kwargs)
        if rB[0] == "exc" or not isinstance(rB[1], np.ndarray) or rB[1].shape != mat.shape \
                or rB[1].tobytes() != mat.tobytes():
            fail("reproducible", f"bootstrap_metric under np.random.seed({seed}) on an equal object that first ran "
                 f"bootstrap_sample with another configuration ({alt}) differs: {_short(mat)} vs "
                 f"{_short(rB[1]) if rB[0] == 'ok' else rB[1:]}", "boot/metric/reproducible-history")
        np.random.seed(seed)
        r3 = common.call(obj.bootstrap_metric, metric_arg, cfg, **kwargs)
        evals[0] += 1
        if r3[0] == "exc" or not isinstance(r3[1], np.ndarray) or r3[1].shape != mat.shape \
                or r3[1].tobytes() != mat.tobytes():
            fail("reproducible", f"bootstrap_metric under np.random.seed({seed}) changed after an intervening "
                 f"bootstrap_sample call with another configuration ({alt}): {_short(mat)} vs "
                 f"{_short(r3[1]) if r3[0] == 'ok' else r3[1:]}", "boot/metric/reproducible-history")
        # row j = metric of the j-th sample of a fresh bootstrap_sample loop under the same seed
        h = common.call(lambda: expected_rows(fresh_samples()))
        if h[0] == "exc":
            fail("rows", f"metric raises on a sample of the fresh loop ({h[1]}: {h[2]}) but bootstrap_metric returned",
                 "boot/metric/rows-fresh-raises")
            return done()
        exp = h[1]
        check_rows(mat, exp, f"seed {seed}, fresh bootstrap_sample loop with the same config", "boot/metric/rows-seeded")
        # the samples the implementation really drew (instance-level hook), and the config it passed on
        if hook1:
            evals[0] += 2
            if len(hook1) != nb:
                fail("sampler-calls", f"bootstrap_metric called bootstrap_sample {len(hook1)} times for nb_samples={nb}",
                     "boot/metric/sampler-calls")
            bad = [1 for a, k, _ in hook1 if (k.get("config", a[0] if a else None)) != cfg]
            if bad:
                fail("config", "bootstrap_sample was not given the configured BootstrapConfig", "boot/config-forwarded")
            if len(hook1) == nb:
                hh = common.call(lambda: expected_rows([s for _, _, s in hook1]))
                if hh[0] == "ok":
                    check_rows(mat, hh[1], "samples handed out by bootstrap_sample (hook)", "boot/metric/rows-hooked")
        obs = mat
        # interval: reproducible, and the formula on those rows with the metric of the original
        np.random.seed(seed)
        c1 = run_ci_recorded(cfg)
        np.random.seed(seed)
        c2 = common.call(obj.bootstrap_ci, metric_arg, alpha, cfg, **kwargs)
        ci = check_ci(c1, mat, f"bootstrap_ci under seed {seed}")
        if ci is not None:
            evals[0] += 1
            if c2[0] == "exc" or np.asarray(c2[1]).shape != ci.shape or np.asarray(c2[1]).tobytes() != ci.tobytes():
                fail("reproducible", f"two bootstrap_ci runs under np.random.seed({seed}) differ: {_short(ci)} vs "
                     f"{_short(c2[1]) if c2[0] == 'ok' else c2[1]}", "boot/ci/reproducible")

    # ------------------------------------------------------------------ Lean driver line
    if obs is None or exp is None or ci is None:
        return done()
    flat_obs = obs.reshape(nb, ncomp).astype(float)
    flat_exp = np.asarray(exp).reshape(nb, ncomp).astype(float)
    est_f = est.reshape(ncomp).astype(float)
    ci_f = ci.reshape(ncomp, 2).astype(float)
    if np.isinf(flat_obs).any() or np.isinf(flat_exp).any() or np.isinf(est_f).any() or np.isinf(ci_f).any():
        tags.append("inf-not-sent")
        return done()
    fin = [abs(x) for x in list(flat_obs.reshape(-1)) + list(est_f) if not math.isnan(x)]
    scale = max([1.0] + fin)
    tol = Fraction(1e-9 * scale) + Fraction(1, 10**9)
    p15_in, p15_out = [], []
    if method == "bca":
        for k in range(ncomp):
            if not math.isnan(est_f[k]):
                s2 = float(np.nansum((flat_obs[:, k] - est_f[k]) ** 2))
                p15_in.append(s2); p15_out.append(float(np.float64(s2) ** 1.5))

    def mkline():
        return line("bootmetric", nb=nb, nc=ncomp, obs=_olist(flat_obs.reshape(-1)), exp=_olist(flat_exp.reshape(-1)),
                    est=_olist(est_f), alpha=q(alpha), method=method, eps=q(Fraction(0) if identity else tol),
                    eps_rows=q(0), identity="1" if identity else "0",
                    ci_lo=_olist(ci_f[:, 0]), ci_hi=_olist(ci_f[:, 1]),
                    ppf_in=_erat_list(ppf_in), ppf_out=_erat_list(ppf_out),
                    cdf_in=_erat_list(cdf_in), cdf_out=_erat_list(cdf_out),
                    p15_in=_erat_list(p15_in), p15_out=_erat_list(p15_out))

    def judge(outs):
        try:
            return judge_(outs)
        except (OverflowError, ValueError, ZeroDivisionError):
            if pre:  # the Python side already holds a PROPFAIL for this input
                return []
            raise

    def judge_(outs):
        iss = []
        o = outs[0]
        misses = common.plist(o["miss"])
        rounds = 0
        while misses and rounds < 4:
            rounds += 1
            for m_ in misses:
                kind_, arg = m_.split(":", 1)
                x = math.inf if arg == "inf" else (-math.inf if arg == "-inf" else _tofloat(Fraction(arg)))
                if kind_ == "p15":
                    p15_in.append(x); p15_out.append(float(np.float64(x) ** 1.5))
                else:  # the real scipy functions ARE the oracle
                    val = float(getattr(scipy.stats.norm, kind_)(x))
                    (ppf_in if kind_ == "ppf" else cdf_in).append(x)
                    (ppf_out if kind_ == "ppf" else cdf_out).append(val)
            o = common.run_driver([mkline()])[0]
            if "ERR" in o:
                return [Issue("ERR", "driver", o["ERR"], "driver-error")]
            misses = common.plist(o["miss"])
        if misses:
            return [Issue("ORACLE-MISS", "oracle", f"model query not answered: {misses} | {desc}", "boot/oracle-miss")]
        rows_v = common.plist(o["spec.rows"])
        if o["spec.rows_all"] != "1":
            badj = [j for j, v in enumerate(rows_v) if v != "1"]
            iss.append(Issue("PROPFAIL", "rows-spec", f"Spec.C14.rowsOK false: rows {badj[:5]} of bootstrap_metric are not the "
                             f"metric of the corresponding samples | {desc}", "boot/metric/rows-spec"))
        poles = common.pfracs(o["pole"])
        inm = common.plist(o["in_model"])
        lo_m, hi_m = common.plist(o["lo"]), common.plist(o["hi"])
        for k, v in enumerate(common.plist(o["spec.formula"])):
            if inm[k] != "1":
                continue
            if poles[k] is not None and poles[k] < Fraction(1, 10**6):
                case.skipped += 1
                continue
            if v != "1":
                iss.append(Issue("PROPFAIL", "formula", f"component {k}: bootstrap_ci gives {ci_f[k].tolist()}, the documented "
                                 f"{method} formula on the observed replicates {flat_obs[:, k].tolist()[:12]} with estimate "
                                 f"{est_f[k]} gives ({_fl(lo_m[k])}, {_fl(hi_m[k])}) | {desc}", f"boot/ci/{method}/formula"))
                break
        if identity and o["spec.identity"] != "1":
            iss.append(Issue("PROPFAIL", "identity-spec", f"Spec.C14.identityOK false: interval {_short(ci_f)} vs estimate "
                             f"{_short(est_f, 6)} | {desc}", f"boot/identity/{method}/spec"))
        return iss

    evals[0] += nb + ncomp
    try:
        first = mkline()
    except (OverflowError, ValueError):
        if not pre:
            raise
        return done()
    case = done([first], judge)
    return case


def _tofloat(fr):
    try:
        return float(fr)
    except OverflowError:
        return math.inf if fr > 0 else -math.inf


def _fl(s):
    return "nan" if s == "nan" else _tofloat(Fraction(s))


def shrink_candidates(inp):
    if inp["nb"] > 1:
        for nb in sorted({1, 2, inp["nb"] // 2, inp["nb"] - 1}):
            if 1 <= nb < inp["nb"]:
                c = dict(inp); c["nb"] = nb; yield c
    for side, gk in (("pos", "pg"), ("neg", "ng")):
        n = len(inp[side])
        if n > 2:
            for i in range(n):
                c = dict(inp)
                c[side] = inp[side][:i] + inp[side][i + 1:]
                if gk in inp:
                    c[gk] = inp[gk][:i] + inp[gk][i + 1:]
                yield c
    if inp.get("ep") or inp.get("en"):
        c = dict(inp); c["ep"] = 0; c["en"] = 0; yield c
    kw = inp["metric"]["kwargs"]
    for k in list(kw):
        if k in ("scale", "offset", "tag", "method", "lower", "upper", "x_axis", "y_axis"):
            c = dict(inp); c["metric"] = dict(inp["metric"]); c["metric"]["kwargs"] = {a: b for a, b in kw.items() if a != k}
            if k in ("x_axis", "y_axis"):
                c["metric"]["kwargs"].pop("x_axis", None); c["metric"]["kwargs"].pop("y_axis", None)
            yield c
